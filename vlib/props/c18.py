"""C18 -- fail-stop: truncated or missing files raise"""
from __future__ import annotations

import ast

from .. import effects
from ..callgraph import catches, enclosing_handlers, exc_names, guards_of, handler_reraises, superclasses
from ..core import AnalysisError, const_str, norm, short
from ..dataflow import Flow, calls_in
from ..interproc import resolve_callees
from ..openpath import OPEN_IMAGE, OpenPath
from ..records import Layouts

LEVEL = "other"


def open_shape(chk, repo):
    """C18-E9: the declared shape is not derived from what was parsed (vlib/openmodel.py)"""
    from .open_rules import open_rules
    open_rules(chk, repo, "C18-E9", ('shape',), "open_image declares the pixel array with the header's shape, whatever number of line records was parsed (so that a short file contradicts it)")


def run(chk, repo):
    op = OpenPath(repo)
    chk.explanation = (
        "Error discipline decided on the shape of the code: every mapper[...] load on the open path is protected by "
        "one of the repository's two idioms (KeyError -> OSError-family `from e`, or a dominating membership test); "
        "parse_chunk keeps its size and record-type guards; the image variable and the per-line variables share the "
        "dimension `rows` while their lengths come from the header and from the parsed records respectively, so a "
        "short read cannot produce a dataset; no handler on the open path swallows an error of the parse; leader and "
        "volume structs consist of definite-width fields only. Does NOT decide promptness or fsspec's short-read behaviour."
    )
    chk.trusted = ["xarray refuses variables whose shared dimension has conflicting lengths", "construct raises on short input for fixed-width fields",
                   "fs.open reports a missing file natively (OSError family)"]
    chk.rule("C18-E1", "each mapper[...] load is protected by KeyError->OSError-family or by a membership test", 4)
    chk.rule("C18-E2", "parse_chunk raises when the chunk is not a whole number of records and on an unknown record type", 2)
    chk.rule("C18-E3", "image rows (header) and per-line variables (parsed records) share one dimension name", 3)
    chk.rule("C18-E4", "handlers on the open path that do not re-raise only cover the cache lookup or collect errors that are raised later", 2)
    chk.rule("C18-E5", "leader / volume directory / image descriptor structs consist of definite-width fields", 3)
    tie = chk.attempt(e3, chk, op)
    chk.attempt(trace_truncation, chk, op, tie)
    chk.attempt(e2, chk, op, covered_by="trace_truncation", rules=("C18-E2",))
    chk.attempt(open_shape, chk, repo)
    chk.attempt(e4, chk, op)
    chk.rule("C18-E6", "every loop on the open path is bounded: for-loops over finite collections; a while-loop makes progress in every iteration or leaves on a short/empty read", 0)
    chk.attempt(e6, chk, op, covered_by="trace_truncation")
    chk.rule("C18-E8", "construct classes of the package read from the stream only through length-checked reads", 0)
    chk.attempt(e8, chk, op)
    chk.attempt(positions_from_the_front, chk, repo)
    chk.attempt(missing_files, chk, repo)
    chk.attempt(e1, chk, op, covered_by="missing_files", rules=("C18-E1",))
    from ..layout import UnmodelledConstruct
    L = Layouts(repo)
    SWALLOWING = {"Optional", "Select", "GreedyRange", "GreedyBytes", "GreedyString", "Peek", "RepeatUntil", "Default", "NullTerminated", "CString", "StopIf", "IfThenElse", "If", "Switch", "LazyStruct", "Lazy"}
    for key in ("leader", "volume", "image_descriptor"):
        try:
            leaves, end, _ = L.get(key)
        except UnmodelledConstruct as e:
            if e.name in SWALLOWING:
                chk.fail("C18-E5", key, f"construct.{e.name} in the {key} layout: it accepts short or missing input (parse errors are swallowed / the rest of the stream is taken as is), "
                                        f"so a truncated file can yield a tree instead of an error", key=f"{key}:{e.name}")
                continue
            raise
        # a forward Seek steps over bytes without reading them and does not fail beyond the end of the data: when nothing is read after
        # it, a file that ends inside the stepped-over area is accepted
        skipped = []
        ordered = [lf for lf in leaves if lf.kind in ("field", "seek")]
        for i, lf in enumerate(ordered):
            if lf.kind == "seek" and not (lf.width.is_const() and lf.width.value() <= 0):
                later_reads = [x for x in ordered[i + 1:] if x.kind == "field" and not (x.width is not None and x.width.is_const() and x.width.value() == 0)]
                if not later_reads:
                    skipped.append(lf)
        chk.require(not skipped, "C18-E5", key, f"{len(leaves)} leaves, every field consumes a definite number of bytes (layout fully modelled, end = {end})",
                    f"the last {skipped[0].width if skipped else ''} bytes of the {key} layout ({skipped[0].name if skipped else ''}) are stepped over with Seek instead of being read: seeking beyond the end of the data does not fail, "
                    f"so a file cut short inside them is parsed as if it were complete", key=f"{key}:tail-seek")
    chk.count("functions", len(op.reach))


def e1(chk, op):
    repo = op.repo
    n = 0
    for k in sorted(op.reach):
        fi = op.g.funcs[k]
        for e in effects.scan(repo, fi):
            if e.kind != "mapper_read":
                continue
            n += 1
            where = op.where(fi)
            ok = False
            how = ""
            # (a) try/except KeyError -> raise OSError-family from e
            for tr in enclosing_handlers(e.node, fi.node):
                for h in tr.handlers:
                    if catches(repo, fi, h, "KeyError"):
                        last = h.body[-1] if h.body else None
                        if isinstance(last, ast.Raise) and last.exc is not None:
                            exc = last.exc.func if isinstance(last.exc, ast.Call) else last.exc
                            r = repo.resolve_expr(fi, exc)
                            cls = ("repo", r.mod, r.node) if r.kind == "class" else (r.fq[len("builtins."):] if r.kind == "external" and r.fq.startswith("builtins.") else norm(exc))
                            sup = superclasses(repo, cls)
                            if "OSError" in sup:
                                ok = True
                                how = f"except KeyError -> raise {norm(exc)}"
                        elif isinstance(last, ast.Raise) and last.exc is None:
                            how = "re-raises KeyError (not an OSError)"
            # (b) dominating membership test
            if not ok:
                for test, pol in guards_of(e.node, fi.node):
                    while isinstance(test, ast.UnaryOp) and isinstance(test.op, ast.Not):
                        test, pol = test.operand, not pol
                    member = isinstance(test, ast.Compare) and len(test.ops) == 1 and ((pol and isinstance(test.ops[0], ast.In)) or (not pol and isinstance(test.ops[0], ast.NotIn)))
                    if member and effects.is_mapper_expr(repo, fi, test.comparators[0]):
                        if norm(test.left) == norm(e.node.slice):
                            ok = True
                            how = f"guarded by `{norm(test)}`"
            if not ok and not fi.module.name.startswith("ceos_alos2.sar_image.caching"):
                # a product file read by one of the openers: whether its absence ends in an OSError - through a handler here, in a
                # context manager, in the caller - is decided by evaluating io.open with that file missing (C18-E9)
                raise AnalysisError(f"{where}: {short(e.node, 40)} has no KeyError handler / membership guard in the recognised form ({how or 'none around it'}); a missing file is decided by evaluation (C18-E9)")
            chk.require(ok, "C18-E1", where, f"{short(e.node, 40)}: {how}",
                        f"{short(e.node, 40)} is not protected: a missing file surfaces as a bare KeyError ({how or 'no handler'})", key=f"{fi.key}:{norm(e.node.slice)}",
                        sample={"site": short(e.node, 40), "idiom": how})
    if n == 0:
        raise AnalysisError("no mapper[...] load found on the open path")


def e2(chk, op):
    repo = op.repo
    mod = repo.module("ceos_alos2.sar_image.io")
    pc = mod.func("parse_chunk")
    where = f"{mod.relpath}:parse_chunk"
    # decided by evaluation of parse_chunk on model blocks (wherever the guards live: in the function, in a helper, as a
    # comparison or a divmod): a block that is not a whole number of records and an unknown record type must raise
    from .common_rules import parse_chunk_run
    L_ = 24
    outcomes = {}
    for label, code, nbytes in (("cut inside a record", 10, 2 * L_ + 5), ("cut inside a record (processed)", 11, 3 * L_ - 1), ("one byte short of one record", 10, L_ - 1), ("unknown record type", 99, 2 * L_)):
        res, _ = parse_chunk_run(repo, code, nbytes, L_)
        outcomes[label] = res
    size_guard = all(outcomes[k][0] == "raise" for k in outcomes if k != "unknown record type")
    type_guard = outcomes["unknown record type"][0] == "raise"
    accepted = [k for k, v in outcomes.items() if v[0] != "raise"]
    chk.require(size_guard, "C18-E2", where, "raises when len(content) is not a multiple of the record size",
                f"parse_chunk no longer rejects a chunk that is not a whole number of records ({accepted[:2]}): a file cut inside a record is parsed from shifted bytes", key="parse_chunk:size-guard")
    chk.require(type_guard, "C18-E2", where, "raises on an unknown record type", "parse_chunk no longer rejects unknown record types", key="parse_chunk:type-guard")
    # the size guard only works if parse_chunk is handed exactly the bytes the read returned
    rm = mod.func("read_metadata")
    io_calls = []
    for k in sorted(op.g.reachable([rm.key], stop=op.load_time)):
        fk = op.g.funcs[k]
        if fk.module.name.startswith("ceos_alos2.sar_image.caching") or fk.module.name.endswith(".testing"):
            continue
        io_calls += [n for n in ast.walk(fk.node) if isinstance(n, ast.Call) and isinstance(n.func, ast.Attribute) and n.func.attr in ("read", "readinto", "readinto1", "readline", "recv_into")
                     and not (isinstance(n.func.value, ast.Name) and n.func.value.id in ("self",))]
    if not io_calls:
        raise AnalysisError(f"{mod.relpath}:read_metadata: no read call found in it or in what it calls")
    intos = [n for n in io_calls if n.func.attr.startswith("readinto") or n.func.attr == "recv_into"]
    ignored = []
    for n in intos:
        par = getattr(n, "_parent", None)
        if isinstance(par, ast.Expr):
            ignored.append(n)  # return value (number of bytes actually read) dropped
    chk.require(not ignored, "C18-E2", f"{mod.relpath}:read_metadata",
                "every read hands back exactly the bytes that arrived (f.read(n), or readinto with its count checked): a short read trips the size guard",
                f"`{short(ignored[0], 50) if ignored else ''}` fills a preallocated buffer and its returned byte count is dropped: after a short read the buffer keeps its full length "
                f"(stale bytes of the previous request), so a truncated image is parsed instead of rejected", key="read_metadata:short-read-hidden")


def e3(chk, op):
    repo = op.repo
    oi = op.fi(OPEN_IMAGE)
    dims = None
    for c in calls_in(oi):
        for cal in resolve_callees(repo, oi, c.func):
            if cal.cls is not None and cal.cls.name == "Variable":
                for k in c.keywords:
                    if k.arg == "dims" and isinstance(k.value, (ast.List, ast.Tuple)):
                        dims = [const_str(x) for x in k.value.elts]
                if dims is None and c.args and isinstance(c.args[0], (ast.List, ast.Tuple)):
                    dims = [const_str(x) for x in c.args[0].elts]
    md = repo.module("ceos_alos2.sar_image.metadata")
    # first dimension of every per-line variable, from the shape inferred for transform_line_metadata on both record types
    from ..records import Layouts
    from ..shapes import DictS, ListLit, Obj, TupS, Const as SConst
    from ..shapes_rules import pipelines
    P = pipelines(repo, Layouts(repo))
    first_dims, nvars = set(), 0
    for pipe in ("lines:signal", "lines:processed"):
        res = P.get(pipe)
        data = res.fields.get("data") if isinstance(res, Obj) else None
        if not isinstance(data, DictS):
            raise AnalysisError(f"shape inference gives no group of variables for {pipe}; the per-line dimension is not decided")
        for name, v in data.items.items():
            if isinstance(v, Obj) and v.cls == "Variable":
                d = v.fields.get("dims")
                nvars += 1
                if isinstance(d, (ListLit, TupS)) and d.elts and isinstance(d.elts[0], SConst):
                    first_dims.add(d.elts[0].v)
                else:
                    first_dims.add(f"<{name}: {d!r}>")
    if nvars == 0:
        raise AnalysisError("no per-line variable found by shape inference")
    consed = next(iter(first_dims)) if len(first_dims) == 1 else sorted(map(str, first_dims))
    tie = chk.require(dims is not None and len(first_dims) == 1 and dims[0] == consed, "C18-E3", op.where(oi),
                f"image variable dims {dims} and the first dimension {consed!r} of all {nvars} per-line variables tie the header line count to the number of parsed records",
                f"image variable dims {dims} vs per-line dimension {consed!r}: a short read no longer conflicts with the declared shape", key="rows-tie",
                sample={"image dims": dims, "per-line dim": consed})
    # transform_metadata by shape inference on (header record, n_lines parsed line records): the declared shape is the header's
    # own line / pixel count, untouched by the records; byte ranges and per-line variables cover every parsed record
    from ..poly import Poly
    from ..shapes import Interp, Leaf, ListOf, ShapeError, _Raise, shape_of_con
    L_ = Layouts(repo)
    I = Interp(repo, strict=False)
    where_tm = f"{md.relpath}:transform_metadata"
    n_lines = Poly.sym("n_lines")
    for rec_name in ("signal", "processed"):
        try:
            out = I.call(I.resolve_global(md, "transform_metadata"), [shape_of_con(L_.con("image_descriptor")), ListOf(shape_of_con(L_.con(rec_name)), n_lines)], {})
        except (_Raise, ShapeError, RecursionError) as e:
            raise AnalysisError(f"{where_tm}: shape inference fails ({str(e)[:100]}); the origin of the declared shape is not decided")
        if not (isinstance(out, TupS) and len(out.elts) == 2 and isinstance(out.elts[1], DictS)):
            raise AnalysisError(f"{where_tm}: result is not (group, array metadata): {out!r:.80}")
        am = out.elts[1]
        shape = am.items.get("shape")
        if not (isinstance(shape, (TupS, ListLit)) and len(shape.elts) == 2):
            raise AnalysisError(f"{where_tm}: array metadata 'shape' is {shape!r:.80}; not decided")
        want = ("number_of_lines_per_dataset", "number_of_data_groups_per_line")
        for axis, (x, field) in enumerate(zip(shape.elts, want)):
            is_field = isinstance(x, Leaf) and bool(x.src) and x.src[-1] == field
            plain = is_field and not x.ops and not x.also
            from_records = any(lf.src and lf.src[0] in ("data", "record_start", "preamble") for lf in I.leaves(x)) or isinstance(x, SConst)
            if not plain and not from_records and not is_field:
                got = _declared_shape_on_model(repo, md)
                if got is None:
                    raise AnalysisError(f"{where_tm}: axis {axis} of the declared shape is {x!r:.80}; its origin is not decided")
                chk.require(got == (6, 5), "C18-E3", where_tm, "the declared image shape is the header's (6 x 5) when 4 records were parsed (model evaluation)",
                            f"for a header declaring 6 lines x 5 samples and 4 parsed records the declared shape is {got}: it follows the parsed records, so a short read no longer conflicts with it",
                            key=f"shape-from-header:{axis}")
                continue
            chk.require(plain, "C18-E3", where_tm, f"axis {axis} of the declared image shape is the header's {field} ({rec_name} records)",
                        f"axis {axis} of the declared image shape is {x!r:.90}, not the header's {field} as it stands: the declared shape can follow the parsed records, and a short read no longer conflicts with it",
                        key=f"shape-from-header:{axis}")
        br = am.items.get("byte_ranges")
        if not isinstance(br, ListOf):
            # computed ranges: how many there are is read off a model evaluation (6 declared lines, 4 parsed records)
            from .common_rules import MODEL_PRODUCTS, array_metadata_on_model
            counts = [len(r_["byte_ranges"]) for r_ in (array_metadata_on_model(repo, L_, code) for code in MODEL_PRODUCTS) if r_ is not None and r_["byte_ranges"] is not None]
            if len(counts) < len(MODEL_PRODUCTS):
                raise AnalysisError(f"{where_tm}: byte_ranges is {br!r:.80}; not decided")
            chk.require(all(c_ == 4 for c_ in counts), "C18-E3", where_tm, f"one byte range per parsed record ({rec_name}, model evaluation)",
                        f"byte_ranges holds {counts} entries for 4 parsed records", key="ranges-from-records")
            br = None
        if br is not None:
            chk.require(br.n == n_lines and not br.maybe_empty, "C18-E3", where_tm, f"one byte range per parsed record ({rec_name})",
                        f"byte_ranges holds {br.n} entries for {n_lines} parsed records", key="ranges-from-records")
        g = out.elts[0]
        data = g.fields.get("data") if isinstance(g, Obj) else None
        if not isinstance(data, DictS):
            raise AnalysisError(f"{where_tm}: no group of per-line variables in the result")
        short_vars = []
        for name, v in data.items.items():
            if isinstance(v, Obj) and v.cls == "Variable":
                d = v.fields.get("data")
                if isinstance(d, ListOf):
                    if d.n != n_lines:
                        short_vars.append(f"{name}: {d.n}")
                else:
                    raise AnalysisError(f"{where_tm}: per-line variable {name} holds {d!r:.60}; its length is not decided")
        chk.require(not short_vars, "C18-E3", where_tm, f"per-line variables are built from the full list of parsed records ({rec_name})",
                    f"per-line variables do not have one entry per parsed record: {short_vars[:3]}", key="lines-from-records")
    return bool(tie)


def _declared_shape_on_model(repo, md):
    """transform_metadata evaluated on a model header (6 lines x 5 samples) and 4 parsed records, with the per-line and header
    attribute conversions stubbed: the declared shape as a tuple of ints, or None when the evaluation does not get there"""
    from collections import OrderedDict
    from ..shapes import Const as SConst, DictS, Fn, Interp, ListLit, Obj, ShapeError, TupS, _Raise
    I = Interp(repo)
    sc = I.module_scope(md)
    group = Obj("Group", OrderedDict(path=SConst("/"), url=SConst(None), data=DictS(), attrs=DictS()))
    sc.vars["transform_line_metadata"] = Fn("py", impl=lambda I_, a, kw: group, name="transform_line_metadata")
    sc.vars["extract_attrs"] = Fn("py", impl=lambda I_, a, kw: DictS(), name="extract_attrs")
    header = DictS(OrderedDict(prefix_suffix_data_locators=DictS(OrderedDict(sar_data_format_type_code=SConst("IU2"))),
                               sar_related_data_in_the_record=DictS(OrderedDict(number_of_lines_per_dataset=SConst(6), number_of_data_groups_per_line=SConst(5)))))
    records = ListLit([DictS(OrderedDict(data=DictS(OrderedDict(start=SConst(920 + 100 * i), stop=SConst(1000 + 100 * i))))) for i in range(4)])
    try:
        out = I.call(I.resolve_global(md, "transform_metadata"), [header, records], {})
    except (_Raise, ShapeError, RecursionError):
        return None
    if not (isinstance(out, TupS) and len(out.elts) == 2 and isinstance(out.elts[1], DictS)):
        return None
    shape = out.elts[1].items.get("shape")
    if isinstance(shape, SConst) and isinstance(shape.v, tuple):
        return shape.v
    if isinstance(shape, (TupS, ListLit)) and all(isinstance(x, SConst) for x in shape.elts):
        return tuple(x.v for x in shape.elts)
    return None


def positions_from_the_front(chk, repo):
    """C05-F9 shared: records of leader / volume directory / trailer are delimited by declared counts and read where the preceding
    ones end - nothing is located by sniffing the content or by counting from the end of what was received (either makes a
    truncated file decode from other bytes instead of failing)"""
    from ..records import Layouts
    from .common_rules import declared_multiplicities
    declared_multiplicities(chk, Layouts(repo), "C05-F9", ("leader", "volume", "trailer"))


def e8(chk, op):
    """construct classes written in the package read from the stream only through a length-checked read: construct's own
    stream_read raises on a short block; a bare stream.read(n) in a _parse method hands back what is left, so a field cut off by
    the end of the file decodes to a shortened or empty value instead of failing"""
    from .common_rules import CONSTRUCT_BASES
    repo = op.repo
    n = 0
    for mod in repo.modules.values():
        if mod.name.endswith(".testing"):
            continue
        for q, cls in mod.classes.items():
            fi = mod.funcs.get(f"{q}._parse")
            if fi is None:
                continue
            stream = fi.positional_params[1] if len(fi.positional_params) > 1 else None
            flow = Flow(fi)
            for c in calls_in(fi):
                if isinstance(c.func, ast.Attribute) and c.func.attr in ("read", "read1", "readinto") and isinstance(c.func.value, ast.Name) and c.func.value.id == stream:
                    n += 1
                    # the block that came back is measured against what was asked for, and a raise depends on it
                    st = c
                    while not isinstance(st, ast.stmt):
                        st = st._parent
                    tgt = st.targets[0].id if isinstance(st, ast.Assign) and isinstance(st.targets[0], ast.Name) else None
                    checked = False
                    for r in fi.own_nodes():
                        if isinstance(r, ast.Raise):
                            for test, pol in guards_of(r, fi.node):
                                if tgt and any(isinstance(x, ast.Call) and isinstance(x.func, ast.Name) and x.func.id == "len" and x.args and norm(x.args[0]) == tgt for x in ast.walk(test)):
                                    checked = True
                    chk.require(checked, "C18-E8", f"{mod.relpath}:{q}._parse", f"{short(c, 40)} is followed by a length check that raises",
                                f"{short(c, 40)} in {q}._parse takes whatever is left in the stream: no check that {stream}.read returned the requested number of bytes, so a field cut off by the end of "
                                f"the file decodes to a shortened / empty value instead of raising (construct's own fields use stream_read, which raises StreamError)", key=f"{mod.name}:{q}:bare-read")
    chk.count("raw_stream_reads_in_construct_classes", n)


def trace_truncation(chk, op, rows_tie):
    """C18-E7: the metadata pass evaluated on truncated model image files (every cut point): it raises and terminates"""
    from .trace_rules import truncation_rules
    truncation_rules(chk, op.repo, "C18-E7", rows_tie, thorough=chk.tier == "thorough")


def e4(chk, op):
    repo = op.repo
    n = 0
    summary_done = []
    for k in sorted(op.reach):
        fi = op.g.funcs[k]
        if fi.module.name.endswith(".testing"):
            continue
        for node in fi.own_nodes(include_lambdas=False):
            if not isinstance(node, ast.Try):
                continue
            for h in node.handlers:
                if handler_reraises(h):
                    continue
                n += 1
                where = op.where(fi)
                caught = exc_names(repo, fi, h.type)
                cname = [c if isinstance(c, str) else c[2].name for c in caught]
                # (a) the try body only performs the cache lookup
                body_calls = [c for st in node.body for c in ast.walk(st) if isinstance(c, ast.Call)]
                callee_keys = set()
                for c in body_calls:
                    for cal in resolve_callees(repo, fi, c.func):
                        callee_keys.add(cal.key)
                only_cache = bool(callee_keys) and all(key.startswith("ceos_alos2.sar_image.caching") for key in callee_keys)
                if not callee_keys and not any(isinstance(x, ast.Call) for st_ in node.body for x in ast.walk(st_)) \
                        and not any(isinstance(x, ast.Subscript) and effects.is_mapper_expr(repo, fi, x.value) for st_ in node.body for x in ast.walk(st_)):
                    # nothing is called and no file is read inside the try: the handler cannot swallow the error of a damaged file
                    chk.ok("C18-E4", where, f"except {cname}: guards a plain lookup ({short(node.body[0], 40)}), no parsing inside")
                    continue
                if only_cache:
                    prod = op.g.reachable(callee_keys) & {"ceos_alos2.sar_image.io:read_metadata", "ceos_alos2.sar_image.io:parse_chunk"}
                    only_cache = not prod
                # (b) errors are collected and raised after the loop
                collected = False
                if h.name:
                    stored = any(isinstance(x, (ast.Assign,)) and any(isinstance(v, ast.Name) and v.id == h.name for v in ast.walk(x.value)) for st in h.body for x in ast.walk(st)) or \
                        any(isinstance(x, ast.Call) and isinstance(x.func, ast.Attribute) and x.func.attr in ("append", "add") and any(isinstance(v, ast.Name) and v.id == h.name for a in x.args for v in ast.walk(a)) for st in h.body for x in ast.walk(st))
                    later_raise = any(isinstance(x, ast.Raise) and x.lineno > node.end_lineno for x in fi.own_nodes())
                    collected = stored and later_raise
                # (b') the caught error leaves the function as a value (yielded / returned / handed to a call): whether it surfaces is
                # decided where it can be - for the summary reader by evaluating it on corrupted texts (same corpus as C14-S9)
                if not only_cache and not collected and fi.module.name.startswith("ceos_alos2.summary") and _line_parse_side(op, fi, callee_keys):
                    # a handler of the summary reader that is not in the collect-and-raise form (the error leaves as a value, the
                    # loop lives in a helper, ...): whether a damaged summary raises is decided by evaluating the reader on
                    # corrupted texts (same corpus as C14-S9)
                    if not summary_done:
                        from .c14 import summary_eval
                        summary_eval(chk, repo, repo.module("ceos_alos2.summary"), rule="C18-E4")
                        summary_done.append(1)
                    continue
                if not only_cache and not collected and h.name:
                    escapes = any(isinstance(x, (ast.Yield, ast.Return)) and x.value is not None and any(isinstance(v, ast.Name) and v.id in _names_holding(h, fi) for v in ast.walk(x.value))
                                  for x in fi.own_nodes())
                    if escapes:
                        raise AnalysisError(f"{where}: `except {', '.join(map(str, cname))}` hands the error on as a value; whether it is raised later is not decided")
                # (c) import-compat shim: except NameError/ImportError around a bare name
                ok = only_cache or collected
                why = "covers only the cache lookup (falls back to the parse, which fails on its own)" if only_cache else "errors are collected and raised after the loop" if collected else ""
                chk.require(ok, "C18-E4", where, f"except {cname}: {why}",
                            f"`except {', '.join(map(str, cname))}` does not re-raise and guards product parsing ({short(node.body[0], 60)}): a damaged file can yield a tree instead of an error",
                            key=f"{fi.key}:except:{'/'.join(map(str, cname))}", sample={"handler": cname, "why": why})
    if n < 2:
        raise AnalysisError(f"only {n} non-re-raising handlers found on the open path (expected open_image and parse_summary)")


def _line_parse_side(op, fi, callee_keys):
    """is this handler part of what the corpus evaluation of the summary reader runs (open_summary with the section transformers
    replaced by the identity): code reachable from open_summary but not from transform_summary"""
    root, tr = "ceos_alos2.summary:open_summary", "ceos_alos2.summary:transform_summary"
    if root not in op.g.funcs or tr not in op.g.funcs:
        return False
    s_tr = op.g.reachable([tr])
    if fi.key == root:
        return not (set(callee_keys) & s_tr)
    return fi.key in op.g.reachable([root]) and fi.key not in s_tr


def _names_holding(h, fi):
    """names that hold the exception caught by handler ``h``: its own name and the names it is assigned to (also by tuple assignment) inside the handler"""
    out = {h.name}
    for st in h.body:
        for x in ast.walk(st):
            if isinstance(x, ast.Assign) and any(isinstance(v, ast.Name) and v.id == h.name for v in ast.walk(x.value)):
                for t in x.targets:
                    for y in ast.walk(t):
                        if isinstance(y, ast.Name):
                            out.add(y.id)
    return out


def e6(chk, op):
    """promptness: a truncated file must not make the open spin.  The pinned tree has no while-loop on the open path; one
    that appears must either count with a positive step, or be left when a read comes back short / empty.  A loop whose
    progress is the number of records parsed from what was read, without such an exit, never ends at the end of the file
    as soon as an empty read parses to an empty list."""
    repo = op.repo
    n_loops = 0
    for k in sorted(op.reach):
        fi = op.g.funcs[k]
        if fi.module.name.endswith(".testing"):
            continue
        for loop in [n for n in fi.own_nodes(include_lambdas=False) if isinstance(n, ast.While)]:
            n_loops += 1
            where = op.where(fi)
            flow = Flow(fi)
            body_nodes = [n for st in loop.body for n in ast.walk(st)]
            reads = [n for n in body_nodes if isinstance(n, ast.Call) and isinstance(n.func, ast.Attribute) and n.func.attr in ("read", "readinto", "readline")]
            # exits that depend on what a read returned
            exits = []
            for n in body_nodes:
                if isinstance(n, (ast.Break, ast.Return, ast.Raise)):
                    for test, pol in guards_of(n, loop):
                        deps = flow.deps(test)
                        txt = norm(flow.expand(test))
                        if ".read(" in txt or any(isinstance(x, ast.Call) and isinstance(x.func, ast.Attribute) and x.func.attr == "read" for x in ast.walk(flow.expand(test))):
                            exits.append(short(test, 40))
            test_names = {x.id for x in ast.walk(loop.test) if isinstance(x, ast.Name)}
            # counters: names in the test changed by a constant / positive step in the body
            steps = [n for n in body_nodes if isinstance(n, ast.AugAssign) and isinstance(n.target, ast.Name) and n.target.id in test_names]
            grown = [n for n in body_nodes if isinstance(n, ast.Call) and isinstance(n.func, ast.Attribute) and n.func.attr in ("extend", "append") and isinstance(n.func.value, ast.Name) and n.func.value.id in test_names]
            if exits:
                chk.ok("C18-E6", where, f"`while {short(loop.test, 40)}` is left when a read comes back short or empty ({exits[0]})")
                continue
            if steps and not grown:
                # the step must not come from the data that was read
                datadep = [s_ for s_ in steps if any(isinstance(x, ast.Call) and isinstance(x.func, ast.Attribute) and x.func.attr == "read" for x in ast.walk(flow.expand(s_.value)))]
                if not datadep:
                    chk.ok("C18-E6", where, f"`while {short(loop.test, 40)}` counts with {short(steps[0], 40)} (independent of the data read)")
                    continue
            if grown and reads:
                # progress = number of parsed records: does an empty read parse to an empty list?
                empties = _can_return_empty(repo, fi, grown[0])
                if empties:
                    chk.fail("C18-E6", where, f"`while {short(loop.test, 50)}` only ends when enough records have been parsed, and {empties}: at the end of a truncated file every read returns b'' "
                                              f"and the loop never makes progress - the open hangs instead of raising", key=f"{fi.key}:while-no-progress")
                    continue
                chk.ok("C18-E6", where, f"`while {short(loop.test, 40)}`: progress is the number of parsed records and an empty read cannot parse (no path of the parser returns an empty result)")
                continue
            raise AnalysisError(f"{where}: `while {short(loop.test, 50)}`: no progress argument recognised; termination on a truncated file not decided")
    if n_loops == 0:
        chk.ok("C18-E6", "open path", f"no while-loop in the {len(op.reach)} functions of the open path: every loop iterates over a finite collection")


def _can_return_empty(repo, fi, grow_call):
    """does some repo function whose result feeds the growth have an explicit path returning an empty list for empty input?"""
    from ..symexpr import Undecidable, summarize
    out = []
    flow = Flow(fi)
    arg0 = grow_call.args[0] if grow_call.args else None
    if isinstance(arg0, ast.Name):
        for d in flow.reaching_defs(arg0.id, arg0) or []:
            if isinstance(d, (ast.List, ast.Tuple)) and not d.elts:
                out.append(f"`{arg0.id}` is set to an empty list on one path")
    for n in ast.walk(Flow(fi).expand(grow_call.args[0]) if grow_call.args else grow_call):
        if isinstance(n, ast.IfExp):
            for br in (n.body, n.orelse):
                if isinstance(br, (ast.List, ast.Tuple)) and not br.elts:
                    out.append(f"the records are an empty list when {short(n.test, 40)} is {'true' if br is n.body else 'false'}")
        if isinstance(n, ast.Call):
            for cal in resolve_callees(repo, fi, n.func):
                if cal.func is None:
                    continue
                for r in [x for x in cal.func.own_nodes() if isinstance(x, ast.Return)]:
                    if isinstance(r.value, (ast.List, ast.Tuple)) and not r.value.elts:
                        gs = [short(t, 40) for t, pol in guards_of(r, cal.func.node)]
                        out.append(f"{cal.func.qualname} returns an empty list when {' and '.join(gs) or 'called'}")
    return "; ".join(out[:2])


def missing_files(chk, repo):
    """C18-E9: io.open evaluated (the checker's interpreter) on a model product from which one file at a time is missing: the summary,
    the volume directory, the leader, each image.  The mapper is a model of fsspec's FSMap (``[...]`` raises KeyError for a missing
    key; ``getitems(keys, on_error='return')`` hands back a KeyError *instance* for it; ``in`` / ``get`` as a Mapping); the parsers
    and transforms of the three metadata readers are markers, sar_image.open_image raises FileNotFoundError for a missing image.
    Every such open must raise an error of the OSError family (which FileNotFoundError belongs to); the complete product must give a
    tree (otherwise the stubs do not fit the code and nothing is decided)."""
    from collections import OrderedDict
    from ..shapes import Const, DictS, Fn, Interp, ListLit, ModuleRef, NonTermination, Obj, ShapeError, TupS, _Raise
    io = repo.module("ceos_alos2.io")
    si = repo.module("ceos_alos2.sar_image")
    where = f"{io.relpath}:open"
    files = ["summary.txt", "VOL-ALOS2012345678-160229-UBSR1.5RUD", "LED-ALOS2012345678-160229-UBSR1.5RUD", "IMG-HH-ALOS2012345678-160229-UBSR1.5RUD", "IMG-HV-ALOS2012345678-160229-UBSR1.5RUD", "TRL-ALOS2012345678-160229-UBSR1.5RUD"]
    chk.rule("C18-E9", "io.open on a model product with one file missing (summary, volume directory, leader, each image): an OSError-family error; the trailer is never read", 5)
    KE = ["KeyError", "LookupError", "Exception", "BaseException", "object"]
    FNF = ["FileNotFoundError", "OSError", "Exception", "BaseException", "object"]

    def G(path, data=None, attrs=None):
        return Obj("Group", OrderedDict(path=Const(path), url=Const("u"), data=data or DictS(), attrs=attrs or DictS()))

    def run(missing):
        I = Interp(repo)
        I.environ = "unset"  # the files are missing in any environment; the one with nothing set is evaluated
        present = {f: Const(b"bytes of " + f.encode()) for f in files if f != missing}
        if "summary.txt" in present:
            # a well-formed summary text: the line parser is the package's own (it may be spread over helpers), only the section transforms are a marker
            present["summary.txt"] = Const(b'Odi_SceneId="ALOS2012345678-160229"\nPdi_CntOfL15ProductFileName="6"\nPdi_L15ProductFileName01="VOL-ALOS2012345678-160229-UBSR1.5RUD"\n')
        reads = []

        def key(k):
            if not (isinstance(k, Const) and isinstance(k.v, str)):
                raise ShapeError(f"model mapper: key {k!r:.40}")
            return k.v

        def getitem(I_, a, kw):
            reads.append(key(a[0]))
            if key(a[0]) not in present:
                raise _Raise(f"KeyError {key(a[0])!r}", KE)
            return present[key(a[0])]

        def getitems(I_, a, kw):
            keys = [key(x) for x in I_.iterate(a[0])]
            on_error = kw.get("on_error", a[1] if len(a) > 1 else Const("raise"))
            on_error = on_error.v if isinstance(on_error, Const) else None
            out = OrderedDict()
            for k in keys:
                reads.append(k)
                if k in present:
                    out[k] = present[k]
                elif on_error == "raise":
                    raise _Raise(f"KeyError {k!r}", KE)
                elif on_error == "return":
                    out[k] = Obj("Exception", OrderedDict(args=TupS([]), classes=Const(tuple(KE))))  # FSMap turns FileNotFoundError into a bare KeyError()
                elif on_error != "omit":
                    raise ShapeError(f"model mapper: getitems(on_error={on_error!r})")
            return DictS(out)

        def get(I_, a, kw):
            reads.append(key(a[0]))
            return present.get(key(a[0]), a[1] if len(a) > 1 else kw.get("default", Const(None)))
        mapper = Obj("Mapper", OrderedDict(root=Const("memory://product"), fs=Obj("InnerFS", OrderedDict())))
        mapper.fields.update(__getitem__=Fn("py", impl=getitem, name="__getitem__"), getitems=Fn("py", impl=getitems, name="getitems"), get=Fn("py", impl=get, name="get"),
                             __contains__=Fn("py", impl=lambda I_, a, kw: Const(key(a[0]) in present), name="__contains__"),
                             __iter__=Fn("py", impl=lambda I_, a, kw: ListLit([Const(k) for k in files if k in present]), name="__iter__"),
                             keys=Fn("py", impl=lambda I_, a, kw: ListLit([Const(k) for k in files if k in present]), name="keys"),
                             __len__=Fn("py", impl=lambda I_, a, kw: Const(len(present)), name="__len__"))
        sc = I.module_scope(io)
        sc.vars["fsspec"] = Obj("fsspec", OrderedDict(get_mapper=Fn("py", impl=lambda I_, a, kw: mapper, name="get_mapper")))
        roles = DictS(OrderedDict([("volume_directory", Const("VOL-ALOS2012345678-160229-UBSR1.5RUD")), ("sar_leader", Const("LED-ALOS2012345678-160229-UBSR1.5RUD")), ("sar_imagery", ListLit([Const("IMG-HH-ALOS2012345678-160229-UBSR1.5RUD"), Const("IMG-HV-ALOS2012345678-160229-UBSR1.5RUD")])), ("sar_trailer", Const("TRL-ALOS2012345678-160229-UBSR1.5RUD"))]))
        summary = G("summary", DictS({"product_information": G("product_information", DictS({"data_files": G("data_files", None, roles)}))}))
        stubbed = []

        def strict_parser(name, result):
            def impl(I_, a, kw):
                x = a[0] if a else None
                if not (isinstance(x, Const) and isinstance(x.v, (bytes, str))):
                    what = x.fields["classes"].v[0] + " instance" if isinstance(x, Obj) and x.cls == "Exception" else repr(x)[:40]
                    raise _Raise(f"TypeError: a bytes-like object is required, not {what}", ["TypeError", "Exception", "BaseException", "object"])
                stubbed.append(name)
                return result
            return Fn("py", impl=impl, name=name)
        sm, vm, lm = repo.module("ceos_alos2.summary"), repo.module("ceos_alos2.volume_directory.io"), repo.module("ceos_alos2.sar_leader.io")
        I.module_scope(sm).vars["transform_summary"] = Fn("py", impl=lambda I_, a, kw: summary, name="transform_summary")
        I.module_scope(vm).vars["parse_data"] = strict_parser("volume parse_data", DictS())
        I.module_scope(vm).vars["transform_record"] = Fn("py", impl=lambda I_, a, kw: G("/", None, DictS({"vol": Const("V")})), name="transform_record")
        I.module_scope(lm).vars["parse_data"] = strict_parser("leader parse_data", DictS())
        I.module_scope(lm).vars["transform_metadata"] = Fn("py", impl=lambda I_, a, kw: G("metadata"), name="transform_metadata")

        def open_image(I_, a, kw):
            fname = a[1] if len(a) > 1 else kw.get("path")
            name = key(fname)
            reads.append(name)
            if name not in present:
                raise _Raise(f"FileNotFoundError: [Errno 2] No such file or directory: {name!r}", FNF)
            return G("/" + name.split("-")[1], None, DictS({"src": fname}))
        I.module_scope(si).vars["open_image"] = Fn("py", impl=open_image, name="open_image")
        sc.vars["sar_image"] = ModuleRef(mod=si)
        try:
            out = I.call(I.lookup("open", sc), [Const("memory://product")], {})
            return "returned", out, reads, stubbed
        except _Raise as e:
            return "raised", e, reads, stubbed
    try:
        st, out, reads, stubbed = run(None)
        if st != "returned" or not (isinstance(out, Obj) and out.cls == "Group"):
            raise AnalysisError(f"{where}: the complete model product does not open with the recording stubs ({(out.what if st == 'raised' else repr(out))[:100]}); the stubs do not fit the code, nothing is decided")
        if len(set(stubbed)) < 2:
            raise AnalysisError(f"{where}: the parsers of the volume directory and leader readers are not reached as module-level collaborators ({sorted(set(stubbed))}); nothing is decided")
        chk.require("TRL-ALOS2012345678-160229-UBSR1.5RUD" not in reads, "C18-E9", where, "the trailer is never read", "the trailer file is read during the open: a missing trailer now fails the open", key="missing:trailer-read")
        for missing, what in (("summary.txt", "the summary"), ("VOL-ALOS2012345678-160229-UBSR1.5RUD", "the volume directory"), ("LED-ALOS2012345678-160229-UBSR1.5RUD", "the leader"), ("IMG-HH-ALOS2012345678-160229-UBSR1.5RUD", "the first image"), ("IMG-HV-ALOS2012345678-160229-UBSR1.5RUD", "the last image")):
            st, out, reads, _ = run(missing)
            if st == "returned":
                chk.fail("C18-E9", where, f"with {what} ({missing}) missing, io.open returns a tree instead of raising", key=f"missing:{'image' if missing.startswith('IMG') else missing}")
                continue
            ok = out.classes is not None and "OSError" in out.classes
            if out.classes is None:
                raise AnalysisError(f"{where}: with {what} missing the open raises `{out.what[:60]}`, whose class is not known to the interpreter; not decided")
            chk.require(ok, "C18-E9", where, f"with {what} missing the open raises {out.classes[0]} (an OSError)",
                        f"with {what} ({missing}) missing, io.open raises {out.classes[0]} ({out.what[:80]}), which is not an OSError / file-not-found error: `except OSError` around the open no longer sees a missing file",
                        key=f"missing:{'image' if missing.startswith('IMG') else missing}")
    except (ShapeError, NonTermination, RecursionError) as e:
        raise AnalysisError(f"{where}: cannot be evaluated on the model product: {str(e)[:160]}")
