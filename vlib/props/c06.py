"""C06 -- records_per_chunk never changes what is read (narrow structural clauses)"""
from __future__ import annotations

import ast

from ..abseval import Unknown, run_paths
from ..cachecodec import ENC
from ..core import AnalysisError, const_str, norm, short
from ..dataflow import Flow, calls_in
from ..interproc import bind_args, resolve_callees
from ..openpath import OpenPath
from ..symexpr import Undecidable, show_paths, summarize
from .c01 import r5 as metadata_offsets
from .c01 import r7 as chunk_key_agreement
from .c07 import g3_threading

LEVEL = "other"
ARRAY = "ceos_alos2.array"


def open_rpc(chk, repo):
    """C06-Q9: the option reaches all three consumers unchanged (vlib/openmodel.py)"""
    from .open_rules import open_rules
    open_rules(chk, repo, "C06-Q9", ('rpc', 'lookup-args', 'array'), "open_image hands the caller's records_per_chunk unchanged to the cache lookup, to the metadata pass and to the pixel array")


def run(chk, repo):
    op = OpenPath(repo)
    chk.explanation = (
        "The relation 'two opens with different records_per_chunk give identical trees' is between two executions and "
        "its failure modes are arithmetic (ceil, partial last chunk, offsets): NOT decided. Decided are the necessary "
        "shape clauses: (Q1) the option reaches the metadata pass and the Array unchanged; (Q2) the advertised chunk "
        "size is min(option, lines): normalize_chunksize is decided on every ordering of its two arguments (it touches "
        "them only through comparisons, so one representative per ordering is exhaustive), it receives the option and "
        "shape[0], and the value flows without arithmetic into chunks / preferred_chunksizes; (Q3) the option is never "
        "persisted in the index; (Q4) one chunk size keys both the offsets table and the row grouping."
    )
    chk.trusted = ["call graph over-approximates"]
    chk.rule("C06-Q1", "records_per_chunk reaches both passes unchanged", 5)
    chk.rule("C06-Q2", "advertised chunk size = min(option, lines), exposed without arithmetic", 8)
    chk.rule("C06-Q3", "records_per_chunk is never persisted in the index", 1)
    chk.attempt(g3_threading, chk, op, "C06-Q1", options=("records_per_chunk",))
    chk.attempt(open_rpc, chk, repo)
    chk.attempt(advertised_chunks, chk, repo)
    chk.attempt(q2, chk, repo, covered_by="advertised_chunks", rules=("C06-Q2",))
    chk.attempt(q3, chk, repo)
    chk.rule("C01-R7", "one chunk size keys both the offsets table and the row grouping (C06-Q4)", 4)
    from ..records import Layouts
    chk.rule("C01-R5", "metadata pass: chunk offsets advance by the bytes actually read, for every records_per_chunk (C06-Q5)", 4)
    chk.attempt(trace_rpc, chk, repo)
    from .common_rules import stateless_constructs
    chk.attempt(stateless_constructs, chk, repo, "C05-F8")
    chk.attempt(load_rpc, chk, repo)
    chk.attempt(load_interrupted, chk, repo)
    chk.attempt(chunk_key_agreement, chk, repo, covered_by="load_rpc", rules=("C01-R7",))
    chk.attempt(metadata_offsets, chk, repo, Layouts(repo), covered_by="trace_rpc", rules=("C01-R5",))
    from .c01 import chunk_sizes_spec
    chk.rule("C01-R8", "metadata pass: the requests add up to the header's record count for every records_per_chunk (C06-Q6)", 2)
    chk.attempt(chunk_sizes_spec, chk, repo, covered_by="trace_rpc", rules=("C01-R8",))
    chk.count("functions", len(op.reach))


def advertised_chunks(chk, repo):
    """C06-Q10: what the tree advertises for the pixel variable, evaluated (Array.chunks, Variable.chunks, xarray.extract_encoding
    on model arrays): preferred_chunksizes == {rows: stored records_per_chunk, columns: number of pixels} - also when the
    image is a single chunk (records_per_chunk >= number of lines) and for non-array data no entry"""
    from collections import OrderedDict
    from ..repeval import from_shape, Undecided
    from ..shapes import Const, DictS, Interp, ListLit, Obj, ShapeError, TupS, _Raise
    chk.rule("C06-Q10", "the advertised chunk size of the pixel variable is (records_per_chunk after normalisation, pixels) for every size incl. a single chunk", 4)
    am, hm, xm = repo.module("ceos_alos2.array"), repo.module("ceos_alos2.hierarchy"), repo.module("ceos_alos2.xarray")
    acls, vcls = repo.resolve_module_name(am, "Array"), repo.resolve_module_name(hm, "Variable")
    if acls.kind != "class" or vcls.kind != "class":
        raise AnalysisError("anchor vanished: Array / Variable classes")
    where = f"{xm.relpath}:extract_encoding"
    for rpc, n in ((3, 7), (7, 7), (1, 1), (1024, 5000), (5, 6)):
        I = Interp(repo)
        arr = Obj("Array", OrderedDict(records_per_chunk=Const(rpc), shape=TupS([Const(n), Const(5)]), dtype=Const("uint16")), klass=(acls.mod, acls.node))
        var = Obj("Variable", OrderedDict(dims=ListLit([Const("rows"), Const("columns")]), data=arr, attrs=DictS()), klass=(vcls.mod, vcls.node))
        try:
            out = from_shape(I.call(I.lookup("extract_encoding", I.module_scope(xm)), [var], {}))
        except (ShapeError, _Raise, Undecided) as e:
            raise AnalysisError(f"{where}: cannot be evaluated on a model variable ({n} lines, chunk {rpc}): {str(e)[:120]}")
        want = {"preferred_chunksizes": {"rows": rpc, "columns": 5}}
        chk.require(out == want, "C06-Q10", where, f"{n} lines in chunks of {rpc}: encoding {want}",
                    f"a pixel variable of {n} lines whose array is chunked by {rpc} lines advertises {out}, expected {want}: the advertised chunk size is not min(records_per_chunk, lines) for this size",
                    key="advertised:" + ("single-chunk" if rpc >= n else "chunked"), sample={"lines": n, "chunk": rpc})
    # the stored chunk size itself: the Array is built by the package's own constructor code (vlib/loadmodel.py) from the
    # caller's option, then advertised through the same chain
    from ..loadmodel import _build, image_bytes, Load
    for rpc, n in ((3, 7), (7, 7), (8, 7), (1, 1), (5000, 6), (1, 4), (4, 9)):
        content, ranges = image_bytes(n, 10)
        built = _build(repo, Load(), content, ranges, n, 10, rpc, "IU2")
        if isinstance(built, str):
            if built.startswith("raised"):
                chk.fail("C06-Q10", f"{am.relpath}:Array", f"an Array of {n} lines cannot be built with records_per_chunk={rpc}: {built[:160]}", key="advertised:built:" + ("single-chunk" if rpc >= n else "chunked"))
                continue
            raise AnalysisError(f"{am.relpath}:Array: the constructor cannot be evaluated for {n} lines, records_per_chunk={rpc}: {built[:160]}")
        I, arr = built
        var = Obj("Variable", OrderedDict(dims=ListLit([Const("rows"), Const("columns")]), data=arr, attrs=DictS()), klass=(vcls.mod, vcls.node))
        try:
            out = from_shape(I.call(I.lookup("extract_encoding", I.module_scope(xm)), [var], {}))
        except (ShapeError, _Raise, Undecided) as e:
            raise AnalysisError(f"{where}: cannot be evaluated on a variable around a constructed Array ({n} lines, records_per_chunk={rpc}): {str(e)[:120]}")
        want = {"preferred_chunksizes": {"rows": min(rpc, n), "columns": 5}}
        chk.require(out == want, "C06-Q10", f"{am.relpath}:Array -> {xm.relpath}:extract_encoding", f"Array(records_per_chunk={rpc}) over {n} lines advertises {want}",
                    f"an image of {n} lines opened with records_per_chunk={rpc} advertises {out}, expected {want}: the advertised chunk size is not min(records_per_chunk, lines)",
                    key="advertised:built:" + ("single-chunk" if rpc >= n else "chunked"), sample={"lines": n, "records_per_chunk": rpc})
    I = Interp(repo)
    plain = Obj("Variable", OrderedDict(dims=ListLit([Const("rows")]), data=ListLit([Const(1)]), attrs=DictS()), klass=(vcls.mod, vcls.node))
    try:
        out = from_shape(I.call(I.lookup("extract_encoding", I.module_scope(xm)), [plain], {}))
    except (ShapeError, _Raise, Undecided) as e:
        raise AnalysisError(f"{where}: cannot be evaluated on in-memory data: {str(e)[:100]}")
    chk.require(out == {}, "C06-Q10", where, "in-memory (per-line) variables advertise nothing", f"an in-memory variable advertises {out}", key="advertised:plain")


def load_rpc(chk, repo):
    """C06-Q8: a pixel load gives the same rows whatever records_per_chunk is: model loads over the grid of line counts x
    records_per_chunk (smaller than, equal to, larger than the line count) x selections"""
    from .load_rules import load_rules
    load_rules(chk, repo, "C06-Q8", ("rows", "axis", "requests"),
               "model loads for every records_per_chunk of the grid: same rows in the same order, one request per touched group of records_per_chunk lines", thorough=chk.tier == "thorough")


def load_interrupted(chk, repo):
    """C06-Q11: under one and the same transient fault every records_per_chunk gives the same pixels or an error (vlib/loadmodel.py with
    a failing request injected)"""
    from .load_rules import fault_rules
    fault_rules(chk, repo, "C06-Q11")


def trace_rpc(chk, repo):
    """C06-Q7: what the metadata pass returns does not depend on records_per_chunk, only the requests do: on every model file
    of the grid (records_per_chunk from 1 to far above the line count) the same absolute positions come back, the requests
    follow the option (at most ceil(n/rpc), none larger than rpc records) and no buffer is sized by the option alone"""
    from .trace_rules import intact_rules
    intact_rules(chk, repo, "C06-Q7", ("descriptor", "sequential", "count", "size", "positions", "allocation"),
                 "metadata pass on model files for every records_per_chunk of the grid: same records and positions; requests bounded by the option; no allocation that follows the option instead of the data",
                 thorough=chk.tier == "thorough")


def q2(chk, repo):
    am = repo.module(ARRAY)
    nc = am.func("normalize_chunksize")
    where = f"{am.relpath}:normalize_chunksize"
    try:
        params, paths = summarize(nc.node)
    except Undecidable as e:
        raise AnalysisError(f"normalize_chunksize outside the fragment: {e}")
    P0, P1 = ("param", 0), ("param", 1)

    # the function may touch its arguments only through comparisons / membership and return one of them
    def only_compares(t):
        if t in (P0, P1) or t[0] == "const":
            return True
        if t[0] == "poly":
            # a difference of the two arguments inside a comparison (a < b is normalised to a - b < 0)
            return all(all(a in (P0, P1) for a in mono) and len(mono) <= 1 for mono, c in t[1])
        if t[0] in ("cmp",):
            return only_compares(t[2]) and only_compares(t[3])
        if t[0] in ("and", "or"):
            return all(only_compares(x) for x in t[1])
        if t[0] in ("not", "truth"):
            return only_compares(t[1])
        if t[0] in ("tuple", "list", "set"):
            return all(only_compares(x) for x in t[1])
        if t[0] == "ifexp":
            return all(only_compares(x) for x in t[1:])
        if t[0] == "call" and t[1] == ("name", "min") and not t[3]:
            return all(only_compares(x) for x in t[2])
        return False

    pure = all(all(only_compares(c) for c in conds) and only_compares(res) for conds, res in paths)
    if not pure:
        raise AnalysisError(f"{where}: uses its arguments other than through comparisons ({show_paths(paths)[:160]}); ordering-case analysis does not apply")
    # one representative per ordering of (chunksize, dim_size); dim_size >= 1
    cases = [("None", None, 5, 5), ("-1", -1, 5, 5), ("smaller", 3, 5, 3), ("equal", 5, 5, 5), ("larger", 7, 5, 5), ("1 of 1", 1, 1, 1), ("larger by one", 6, 5, 5)]
    for label, c, d, want in cases:
        val = {P0: ("c", c), P1: ("c", d)}
        try:
            got = _eval_min_aware(paths, val)
        except Unknown as e:
            raise AnalysisError(f"{where}: cannot decide case {label}: {e}")
        chk.require(got == ("c", want), "C06-Q2", where, f"normalize_chunksize({c}, {d}) -> {want} (ordering class: {label})",
                    f"normalize_chunksize({c}, {d}) -> {got[1] if got[0] == 'c' else got}, expected {want}: advertised chunk size is not min(records_per_chunk, lines)",
                    key=f"normalize_chunksize:{label}", sample={"case": label, "chunksize": c, "dim_size": d, "result": want})
    # __post_init__ int path feeds the option and shape[0]
    pi = am.func_any("Array.__post_init__", "Array.__init__")
    call = None
    for c in calls_in(pi):
        if any(x.key.endswith(":normalize_chunksize") for x in resolve_callees(repo, pi, c.func)):
            call = c
    if call is None:
        # inlined, moved into a helper or removed: what the constructor stores is decided by evaluation (C06-Q10)
        raise AnalysisError(f"{am.relpath}:Array.__post_init__: normalize_chunksize is not called here; the stored chunk size is decided by building Arrays (C06-Q10)")
    else:
        b, _ = bind_args(resolve_callees(repo, pi, call.func)[0], call)
        st = call
        while not isinstance(st, ast.stmt):
            st = st._parent
        from ..dataflow import init_aliases, wired
        pflow = Flow(pi)
        ali = init_aliases(pi)
        # in a plain __init__ the option is the parameter itself, the shape / byte ranges the parameters stored unchanged
        opt_names = ["self.records_per_chunk"] + [p_ for p_ in pi.params if p_ == "records_per_chunk" and p_ not in ali]
        lines_names = ["self.shape[0]", "len(self.byte_ranges)"] + [f"{p_}[0]" for p_, a_ in ali.items() if a_ == "self.shape"] + [f"len({p_})" for p_, a_ in ali.items() if a_ == "self.byte_ranges"]
        v0, t0 = wired(pflow, b.get(nc.positional_params[0]), opt_names)
        v1, t1 = wired(pflow, b.get(nc.positional_params[1]), lines_names)
        stored = isinstance(st, ast.Assign) and norm(st.targets[0]) == "self.records_per_chunk"
        if "unknown" in (v0, v1) or (not stored and not isinstance(st, ast.Return)):
            raise AnalysisError(f"{am.relpath}:Array.__post_init__: normalize_chunksize({t0}, {t1}) in `{short(st, 60)}`: operands are computed, not referenced; not decided")
        ok = v0 == "equal" and v1 == "equal" and stored
        chk.require(ok, "C06-Q2", f"{am.relpath}:Array.__post_init__", "self.records_per_chunk = normalize_chunksize(self.records_per_chunk, self.shape[0])",
                    f"the stored chunk size is {short(st, 80)} (operands {t0}, {t1}): it must depend on both the option and the number of lines", key="post_init:normalize")
    # exposure without arithmetic
    from .common_rules import spec_compare
    spec_compare(chk, "C06-Q2", am.func("Array.chunks"), "def chunks(self):\n    return (self.records_per_chunk, *self.shape[1:])",
                 "chunks = (records_per_chunk, *shape[1:])", "Array.chunks no longer exposes the stored chunk size unchanged", "Array.chunks")
    hm = repo.module("ceos_alos2.hierarchy")
    spec_compare(chk, "C06-Q2", hm.func("Variable.chunks"),
                 "def chunks(self):\n    if not isinstance(self.data, Array):\n        return {}\n    return dict(zip(self.dims, self.data.chunks))",
                 "Variable.chunks zips dims with the Array's chunks", "Variable.chunks no longer pairs dims with Array.chunks", "Variable.chunks")
    xm = repo.module("ceos_alos2.xarray")
    ee = xm.func("extract_encoding")
    arith = [n for n in ee.own_nodes() if isinstance(n, (ast.BinOp, ast.AugAssign))]
    key_ok = any(isinstance(n, ast.Dict) and "preferred_chunksizes" in [const_str(k) for k in n.keys] for n in ee.own_nodes())
    src_ok = any(isinstance(n, ast.Attribute) and n.attr == "chunks" and norm(n.value) == ee.positional_params[0] for n in ee.own_nodes())
    if not key_ok or not src_ok:
        raise AnalysisError(f"{xm.relpath}:extract_encoding: no preferred_chunksizes built from var.chunks; not decided")
    chk.require(not arith, "C06-Q2", f"{xm.relpath}:extract_encoding", "preferred_chunksizes is var.chunks copied without arithmetic",
                f"extract_encoding alters the chunk sizes ({[short(a, 30) for a in arith]})", key="extract_encoding")
    tv = xm.func("to_variable")
    ok = any(isinstance(c, ast.Call) and any(k.arg == "encoding" and "extract_encoding" in norm(k.value) for k in c.keywords) for c in calls_in(tv))
    if not ok:
        from ..callgraph import CallGraph
        if f"{xm.name}:extract_encoding" not in CallGraph(repo).edges.get(tv.key, ()):
            chk.fail("C06-Q2", f"{xm.relpath}:to_variable", "to_variable no longer attaches extract_encoding(var): the advertised chunk size is lost", key="to_variable:encoding")
        else:
            raise AnalysisError(f"{xm.relpath}:to_variable: extract_encoding is used but not as the `encoding=` argument; not decided")
    else:
        chk.ok("C06-Q2", f"{xm.relpath}:to_variable", "the encoding of every variable comes from extract_encoding(var)")


def _eval_min_aware(paths, val):
    from ..abseval import evaluate, truth
    def ev(t):
        if t[0] == "call" and t[1] == ("name", "min"):
            vals = [ev(a) for a in t[2]]
            if all(v[0] == "c" and v[1] is not None for v in vals):
                return ("c", min(v[1] for v in vals))
            raise Unknown("min of non-numbers")
        return evaluate(t, val)
    for conds, res in paths:
        if all(truth(ev(c)) for c in conds):
            return ev(res)
    raise Unknown("no path")


def q3(chk, repo):
    enc = repo.module(ENC)
    ea = enc.func("encode_array")
    persisted = []
    for n in ast.walk(ea.node):
        if isinstance(n, ast.Dict):
            for k, v in zip(n.keys, n.values):
                if k is not None and (const_str(k) or "").startswith("records_per_chunk") or (v is not None and "records_per_chunk" in norm(v)) or (v is not None and "chunk_offsets" in norm(v)):
                    persisted.append(short(n, 60))
    chk.require(not persisted, "C06-Q3", f"{enc.relpath}:encode_array", "neither records_per_chunk nor the chunk offsets derived from it are written to the index",
                f"the index stores chunking state: {persisted[:1]}: a later open with another records_per_chunk reads with the writer's value", key="encode_array:persisted")
