"""C03 -- per-line and header image metadata equal what each file record encodes"""
from __future__ import annotations

from ..adapters import adapters_used, check_adapter
from ..records import Layouts
from ..reference import compare, is_padding_name

LEVEL = "translation_validation"


def run(chk, repo):
    L = Layouts(repo)
    chk.explanation = (
        "Layouts of the two line-record structs and of the image file descriptor are computed from the "
        "syntax tree and compared with the reference layout field by field; same-named fields of the two "
        "line records must decode identically; adapter decode bodies are normalised and decided on input "
        "classes; literal tables of the image metadata pipeline are linked to struct fields by shape inference."
    )
    chk.trusted = ["spec/layout_reference.json (regression oracle, see DESIGN E2)", "model of construct primitives (vlib/layout.py)"]
    chk.rule("C03-T1", "layout of every non-padding field of the line records and image descriptor == reference", 150)
    chk.rule("C03-T2", "fields with the same name in the two line records have identical codec chains", 25)
    chk.rule("C03-T4", "adapter semantics (Factor, Metadata, Flag, StripNullBytes; datetime adapters under C17)", 5)
    used = set()
    for key in ("signal", "processed", "image_descriptor"):
        leaves, end, _ = L.get(key)
        chk.count("layout_leaves", len(leaves))
        chk.count("programs", 1)
        compare(chk, "C03-T1", L, key)
        used |= adapters_used(leaves)
    a, b = L.by_name("signal"), L.by_name("processed")
    for name in a:
        if name in b and not any(is_padding_name(p) for p in name.split(".")):
            la, lb = a[name], b[name]
            if la.kind in ("tell", "seek", "computed") or name.startswith("data."):
                continue
            same = la.codec() == lb.codec() and la.width == lb.width
            chk.require(same, "C03-T2", f"signal_data_record.{name} / processed_data_record.{name}",
                        f"{name}: {la.codec()} in both records",
                        f"{name}: {la.codec()} +{la.width} in the signal record but {lb.codec()} +{lb.width} in the processed record",
                        key=f"sibling:{name}")
    def t4(chk, repo, L, used):
        for key in sorted(used):
            check_adapter(chk, "C03-T4", repo, L.ev, key)
    _t4_pending = (t4, used)
    from .adapter_eval import adapter_values
    chk.rule("C03-T7", "every adapter used in these layouts decodes representative raw values as specified (evaluation of _decode)", 5)
    chk.attempt(adapter_values, chk, repo, L, "C03-T7", ("signal", "processed", "image_descriptor"))
    chk.attempt(_t4_pending[0], chk, repo, L, _t4_pending[1], covered_by="adapter_values", rules=("C03-T4",))
    from ..shapes_rules import link_tables
    link_tables(chk, repo, L, "C03")
    from .common_rules import record_type_dispatch, to_dict_contract, to_dict_rules, variable_conversion
    chk.rule("C03-T6", "record-type dispatch, to_dict contract, Variable conversion", 5)
    from .open_rules import open_rules
    chk.attempt(open_rules, chk, repo, "C03-T9", ("attrs",), "open_image: the group attributes built from the line records (scan id, channel, sensor) are still those of the returned group")
    from .common_rules import record_dispatch_eval, variable_conversion_eval
    chk.attempt(record_dispatch_eval, chk, repo, "C03-T6")
    chk.attempt(record_type_dispatch, chk, repo, "C03-T6", covered_by="record_dispatch_eval")
    to_dict_rules(chk, repo, "C03-T6")
    chk.attempt(variable_conversion_eval, chk, repo, "C03-T6")
    chk.attempt(variable_conversion, chk, repo, "C03-T6", covered_by="variable_conversion_eval")
    # T5: header attributes present exactly when the field is non-blank (sentinel agreement, shared with C20-P2/P4)
    from .c20 import header_sentinels
    chk.rule("C20-P2", "C03-T5: header transformers test the blank sentinel of their field's codec", 4)
    chk.rule("C20-P4", "C03-T5: filled header values are kept; the final filter drops exactly the empty-list marker", 5)
    header_sentinels(chk, repo, L)
