"""C15 -- identifier decoding is total and exact over the documented code tables"""
from __future__ import annotations

import ast
import itertools

from ..core import AnalysisError, const_str, norm, short
from ..dataflow import Flow, calls_in
from ..interproc import resolve_callees
from ..regexlang import compiled_regexes
from ..symexpr import Undecidable, show_paths, summarize

LEVEL = "proof"

DECODERS = "ceos_alos2.decoders"
DEC_FUNCS = {
    "decode_scene_id": "scene_id_re", "decode_product_id": "product_id_re",
    "decode_scan_info": "scan_info_re", "decode_filename": "fname_re",
}
# sub-languages of the file name regex and the dedicated regex of each component
COMPOSITION = {"product_id": "product_id_re", "scene_id": "scene_id_re", "scan_info": "scan_info_re"}
# the code tables the property names, and the characters it documents for each
DOCUMENTED = {
    "map_projection": set("UPML_"),
    "observation_direction": set("LR"),
    "orbit_direction": set("AD"),
    "processing_option": set("GR_"),
    "processing_level": {"1.0", "1.1", "1.5", "3.1"},
    "processing_method": set("BF"),
    "scan_number": set("0123456789"),
}


def dict_keys(mod, name):
    from ..interproc import dict_entries
    e = mod.assigns.get(name)
    got = dict_entries(mod.repo, mod, e[-1]) if e else None
    if got is None:
        raise AnalysisError(f"anchor vanished: table {mod.name}:{name}")
    return list(got)


def run(chk, repo):
    mod = repo.module(DECODERS)
    chk.explanation = (
        "The identifier grammars are regex literals and the code tables are dict literals: finite objects. The "
        "language of every named group is computed from the parsed regex (as a set, or as per-position character "
        "classes when too large to enumerate) and compared with the key set of the lookup table that translates it "
        "(inclusion both ways decides totality and exactness); anchoring, error wrapping and the composition of the "
        "file-name grammar from its component grammars are decided on the syntax tree. Thorough tier enumerates the "
        "full cross product of the tables against the compiled literal."
    )
    chk.trusted = ["re._parser (stdlib) parses the literal as the re module does", "dateutil parses any 6-digit yymmdd date with yearfirst=True"]
    chk.rule("C15-L1", "totality: keys of each lookup table are in the language of the regex group that feeds it", 7)
    chk.rule("C15-L2", "exactness: strings outside the tables raise ValueError (lookup raises, decoders reject non-matches and wrap errors)", 6)
    chk.rule("C15-L3", "every decoder matches the whole string", 4)
    chk.rule("C15-L4", "the file-name grammar's component sub-languages contain the dedicated component grammars", 3)
    chk.rule("C15-L5", "documented code characters are accepted by the grammar", 5)
    chk.rule("C15-L6", "every named group has a translator", 3)
    chk.rule("C15-L8", "decoders evaluated on the language composed from the code tables (every product id, scan suffix, sampled dates and file names) give each component its table meaning; near misses and impossible dates raise ValueError", 500)
    chk.rule("C15-L9", "the code tables evaluate to the documented tables (spec/code_tables.json): no code missing, none added", 9)
    chk.attempt(tables_agree, chk, repo, repo.module(DECODERS))
    chk.attempt(language_evaluation, chk, repo)
    chk.attempt(grammar_rules, chk, repo, covered_by="language_evaluation", rules=("C15-L1", "C15-L2", "C15-L3", "C15-L4", "C15-L5", "C15-L6"))
    chk.attempt(observation_points, chk, repo)
    from .c13 import groupname_injective
    chk.rule("C15-L7", "the image group name is unique per (polarisation, scan): exhaustive over the 55 combinations the grammar admits", 2)
    chk.attempt(groupname_injective, chk, repo, "C15-L7")


GROUP_TABLE = {"observation_mode": "observation_modes", "observation_direction": "observation_directions", "processing_level": "processing_levels",
               "processing_option": "processing_options", "map_projection": "map_projections", "orbit_direction": "orbit_directions", "processing_method": "processing_methods"}
PID_ORDER = ["observation_mode", "observation_direction", "processing_level", "processing_option", "map_projection", "orbit_direction"]


def _documented_tables():
    import json
    import os
    from ..core import VERIF
    p = os.path.join(VERIF, "spec", "code_tables.json")
    if not os.path.exists(p):
        raise AnalysisError(f"{p} missing")
    with open(p) as f:
        return json.load(f)["tables"]


def _literal_table(mod, name):
    """the documented table (spec/code_tables.json); the repository's table of the same name must denote the same mapping"""
    return dict(_documented_tables()[name])


def tables_agree(chk, repo, mod):
    """the code tables of decoders.py, however they are written (literal, comprehension, product of parts), evaluate to the
    documented tables: no code missing, none added, every meaning as documented"""
    from ..repeval import from_shape, Undecided
    from ..shapes import Interp, ShapeError, _Raise
    I = Interp(repo)
    for name, want in _documented_tables().items():
        try:
            got = from_shape(I.resolve_global(mod, name))
        except (ShapeError, _Raise, Undecided, AnalysisError) as e:
            raise AnalysisError(f"{mod.relpath}:{name} does not evaluate to a constant mapping ({str(e)[:100]})")
        if not isinstance(got, dict):
            raise AnalysisError(f"{mod.relpath}:{name} evaluates to {got!r:.60}")
        missing, extra = sorted(set(want) - set(got)), sorted(set(got) - set(want))
        changed = sorted(k for k in want if k in got and got[k] != want[k])
        chk.require(not (missing or extra or changed), "C15-L9", f"{mod.relpath}:{name}", f"{len(want)} documented codes, none missing, none added",
                    f"table {name} differs from the documented table: missing {missing}, undocumented codes {extra} (they now decode instead of raising ValueError), changed meanings {changed}",
                    key=f"table:{name}")


def language_evaluation(chk, repo):
    """the decoders' syntax trees are evaluated (constant folding in the checker's interpreter; regexes, dict lookups and date
    parsing are folded by the standard library / dateutil on constants) on every identifier composed from the code tables and
    on near misses.  Oracle: component c of table T decodes to T[c]; a string outside the composed language raises ValueError."""
    import datetime
    from ..repeval import from_shape
    from ..shapes import Const, Interp, ShapeError, _Raise
    mod = repo.module(DECODERS)
    tables = {g: _literal_table(mod, t) for g, t in GROUP_TABLE.items()}
    for g, doc in DOCUMENTED.items():
        if g in tables:
            chk.require(doc <= set(tables[g]), "C15-L5", f"{mod.relpath}:{GROUP_TABLE[g]}", f"table {GROUP_TABLE[g]} lists every documented code {sorted(doc)}",
                        f"table {GROUP_TABLE[g]} lacks the documented codes {sorted(doc - set(tables[g]))}", key=f"table:{g}:documented")
    I = Interp(repo)
    sc = I.module_scope(mod)
    si = repo.module("ceos_alos2.sar_image")
    thorough = chk.tier == "thorough"

    def call(fn, s, scope=sc):
        try:
            return "ok", from_shape(I.call(I.lookup(fn, scope), [Const(s)], {}))
        except _Raise as e:
            return "raise", e
        except (ShapeError, AnalysisError) as e:
            raise AnalysisError(f"{mod.relpath}:{fn} cannot be evaluated on {s!r}: {str(e)[:140]}")

    stats = {"valid": 0, "nearmiss": 0}
    fails = {}

    def expect_value(fn, s, want, what):
        stats["valid"] += 1
        st, got = call(fn, s)
        if st == "raise":
            fails.setdefault((fn, "rejected"), []).append(f"{fn}({s!r}) raises {got.what[:60]} although {what}")
        elif got != want:
            diff = {k: (got.get(k) if isinstance(got, dict) else got, want[k]) for k in want if not isinstance(got, dict) or got.get(k) != want[k]}
            extra = sorted(set(got) - set(want)) if isinstance(got, dict) else []
            fails.setdefault((fn, "wrong"), []).append(f"{fn}({s!r}): {({k: v[0] for k, v in diff.items()})} instead of {({k: v[1] for k, v in diff.items()})}" + (f", extra keys {extra}" if extra else ""))

    def expect_valueerror(fn, s, why, scope=sc):
        stats["nearmiss"] += 1
        st, got = call(fn, s, scope)
        if st == "ok":
            fails.setdefault((fn, "accepted"), []).append(f"{fn}({s!r}) returns {str(got)[:90]} although {why}: it must raise ValueError")
        elif got.classes is not None and "ValueError" not in got.classes:
            fails.setdefault((fn, "errclass"), []).append(f"{fn}({s!r}) raises {got.classes[0]} ({got.what[:50]}), not ValueError ({why})")

    # ---- product ids
    combos = list(itertools.product(*[list(tables[g]) for g in PID_ORDER]))
    valid_pids = {"".join(c) for c in combos}
    step = 1 if thorough else 7
    chosen = combos[::step]
    if not thorough:  # every code of every component at least once in two different contexts
        for gi, g in enumerate(PID_ORDER):
            for code in tables[g]:
                for base in (combos[0], combos[-1]):
                    chosen.append(base[:gi] + (code,) + base[gi + 1:])
    for c in chosen:
        pid = "".join(c)
        expect_value("decode_product_id", pid, {g: tables[g][code] for g, code in zip(PID_ORDER, c)}, "it is composed from the code tables")
    alphabet = "AZ09._xL1"
    for c in chosen[:: max(1, len(chosen) // 40)]:
        pid = "".join(c)
        for i in range(len(pid)):
            for ch in alphabet:
                m = pid[:i] + ch + pid[i + 1:]
                if m not in valid_pids:
                    expect_valueerror("decode_product_id", m, f"no table lists the code at position {i}")
            m = pid[:i] + pid[i + 1:]
            expect_valueerror("decode_product_id", m, "one character is missing")
        for m in (pid + "A", "W" + pid, pid + " ", pid.lower()):
            expect_valueerror("decode_product_id", m, "it is not a product id")
    # ---- undocumented mode codes built from documented letters (UBQ, WWQ, ...): the grammar admits any [A-Z]{3}, the table must reject
    letters = [sorted({c_[i] for c_ in tables["observation_mode"]}) for i in range(3)]
    tail = "".join(combos[0][1:])
    for trip in itertools.product(*letters):
        code = "".join(trip)
        if code not in tables["observation_mode"]:
            expect_valueerror("decode_product_id", code + tail, f"observation mode {code} is not documented")
    # ---- scan suffixes
    for pm, meaning in tables["processing_method"].items():
        for d in "0123456789":
            expect_value("decode_scan_info", pm + d, {"processing_method": meaning, "scan_number": d}, "it is a documented scan suffix")
    for m in ("B", "3", "X1", "B10", "b1", "F-1", "BF", "B 1", "B1 "):
        expect_valueerror("decode_scan_info", m, "it is not <B|F><digit>")
    # ---- scene ids: every date 2014-2049 (thorough) or month ends, leap days and a stride (quick)
    d, end = datetime.date(2014, 1, 1), datetime.date(2049, 12, 31)
    dates = []
    while d <= end:
        nxt = d + datetime.timedelta(days=1)
        if thorough or d.day == 1 or nxt.day == 1 or d.day in (12, 13, 28, 29, 30) and d.month in (1, 2, 12) or (d - datetime.date(2014, 1, 1)).days % 97 == 0:
            dates.append(d)
        d = nxt
    for n_, dd in enumerate(dates):
        orbit, frame = f"{(n_ * 37) % 100000:05d}", f"{(n_ * 13) % 10000:04d}"
        sid = f"ALOS2{orbit}{frame}-{dd:%y%m%d}"
        expect_value("decode_scene_id", sid, {"mission_name": "ALOS2", "orbit_accumulation": orbit, "scene_frame": frame, "date": datetime.datetime(dd.year, dd.month, dd.day)}, "it names a valid acquisition date")
    impossible = ["140230", "150229", "140431", "140631", "140931", "141131", "140100", "140001", "141301", "149901", "140132", "180732", "121426", "180035", "000000", "999999", "146031"]
    for bad in impossible:
        expect_valueerror("decode_scene_id", f"ALOS2012345678-{bad}", f"{bad[2:4]}/{bad[4:6]} of 20{bad[:2]} is not a calendar date")
    for m in ("ALOS2012345678-14010", "ALOS2012345678-1401022", "ALOS201234567-140102", "ALOS2012345678_140102", "alos2012345678-140102", "ALOS2012345678-14O102", "ALOS20123456x8-140102", "ALOS2012345678-140102 ", "",
              "ALOS20123456789-140102", "ALOS22253332000-180726", "ALOS2012345678-20140102"):
        expect_valueerror("decode_scene_id", m, "it is not <mission 5><orbit 5><frame 4>-<yymmdd>")
    # digits of other scripts are decimal digits for `\\d`, int() and strptime alike - but they are not the format's digits
    base_sid = "ALOS2012345678-160229"
    for pos in (5, 9, 10, 13, 15, 18, 20):
        for alien in ("\u0666", "\uff12", "\u0967"):
            expect_valueerror("decode_scene_id", base_sid[:pos] + alien + base_sid[pos + 1:], f"position {pos} holds the non-ASCII digit U+{ord(alien):04X}")
    for m in ("B\u0663", "F\uff11"):
        expect_valueerror("decode_scan_info", m, "the scan number is a non-ASCII digit")
    expect_valueerror("decode_product_id", "WBDR1.\uff11RUD", "the processing level holds a non-ASCII digit")
    # ---- file names: components are decoded by their own decoder and merged
    pid_sample = ["".join(c) for c in (combos if thorough else combos[:: max(1, len(combos) // 60)])]
    sid, sdate = "ALOS2012345678-160229", datetime.datetime(2016, 2, 29)
    base_scene = {"mission_name": "ALOS2", "orbit_accumulation": "01234", "scene_frame": "5678", "date": sdate}
    pid_meaning = {"".join(c): {g: tables[g][code] for g, code in zip(PID_ORDER, c)} for c in combos}
    shapes = [("IMG", pol, scan) for pol in ("HH", "HV", "VH", "VV") for scan in [None] + [pm + d_ for pm in tables["processing_method"] for d_ in ("0", "3", "9")]] + [("LED", None, None), ("VOL", None, None), ("TRL", None, None)]
    for k, pid in enumerate(pid_sample):
        for ft, pol, scan in (shapes if thorough or k % 10 == 0 else shapes[k % len(shapes)::len(shapes)] or shapes[:1]):
            name = ft + (f"-{pol}" if pol else "") + f"-{sid}-{pid}" + (f"-{scan}" if scan else "")
            want = {"filetype": ft, "polarization": pol, **base_scene, **pid_meaning[pid]}
            if scan:
                want.update({"processing_method": tables["processing_method"][scan[0]], "scan_number": scan[1]})
            expect_value("decode_filename", name, want, "it is composed from valid components")
    good = f"IMG-HH-{sid}-{pid_sample[0]}-B3"
    for m, why in ((good + "x", "trailing garbage"), ("x" + good, "leading garbage"), (good.replace("-HH-", "-HX-"), "polarisation HX"), (good.replace("-HH-", "-HHH-"), "three-letter polarisation"),
                   (good.replace("-B3", "-B"), "scan suffix without number"), (good.replace("-B3", "-C3"), "scan method C"), (good.replace(sid, "ALOS2012345678-180732"), "impossible date"),
                   (good.replace(pid_sample[0], "WBDR1.6RUD"), "level 1.6"), (good.replace(pid_sample[0], "QQQR1.5RUD"), "unknown mode"), (good.replace("IMG-", "IMG_"), "wrong separator"),
                   (good.replace("-" + sid, ""), "missing scene id"), (good.lower(), "lower case"),
                   (good.replace(sid, "ALOS20123456789-160229"), "scene id with one digit too many"), (good.replace(sid, "ALOS2012345678-20160229"), "date with a century")):
        expect_valueerror("decode_filename", m, why)
        if m.startswith("IMG-H"):
            expect_valueerror("filename_to_groupname", m, why + " (image file name)", scope=I.module_scope(si))
    for (fn, kind), msgs in sorted(fails.items()):
        chk.fail("C15-L8", f"{mod.relpath}:{fn}", msgs[0] + (f" (and {len(msgs) - 1} more)" if len(msgs) > 1 else ""), key=f"language:{fn}:{kind}")
    n_ok = stats["valid"] + stats["nearmiss"] - sum(len(v) for v in fails.values())
    chk.rules["C15-L8"]["instances"] += max(n_ok, 0)
    chk.obligations.append({"rule": "C15-L8", "where": f"{mod.relpath}", "holds": not fails,
                            "what": f"{stats['valid']} composed identifiers decode to their table meanings, {stats['nearmiss']} near misses / impossible dates raise ValueError ({'full' if thorough else 'strided'} cross product of the tables; {len(dates)} dates)"})
    chk.samples.append({"rule": "C15-L8", "where": mod.relpath, "obligation": {"composed identifiers": stats["valid"], "near misses": stats["nearmiss"], "dates": len(dates), "product ids": len(chosen)}})
    chk.count("identifiers_evaluated", stats["valid"] + stats["nearmiss"])


def observation_points(chk, repo):
    """C15-L10: the identifiers where the tree shows them: the section transformers of the summary reader (summary.transform_summary
    on a model summary whose product id / scene id is the identifier under test) are evaluated: a valid id surfaces decoded under
    /summary/product_specification (/summary/scene_specification), an id outside the language raises ValueError instead of
    surfacing undecoded"""
    from collections import OrderedDict
    from ..repeval import from_shape, Undecided
    from ..shapes import Const, DictS, Interp, Obj, ShapeError, _Raise
    chk.rule("C15-L10", "summary sections evaluated: a valid product / scene id surfaces decoded, one outside the language raises ValueError (it never surfaces as raw text)", 15)
    sm = repo.module("ceos_alos2.summary")
    dm = repo.module(DECODERS)
    tables = {g: _literal_table(dm, t) for g, t in GROUP_TABLE.items()}
    where = f"{sm.relpath}:transform_summary"
    I = Interp(repo)
    sc = I.module_scope(sm)

    def run(section, key, value):
        summary = DictS(OrderedDict([(section, DictS(OrderedDict([(key, Const(value))])))]))
        try:
            out = I.call(I.lookup("transform_summary", sc), [summary], {})
        except _Raise as e:
            return "raise", e
        except (ShapeError, AnalysisError) as e:
            raise AnalysisError(f"{where}: cannot be evaluated on a summary whose {section}.{key} is {value!r}: {str(e)[:140]}")
        # -> attrs of the one section group
        try:
            data = out.fields["data"] if isinstance(out, Obj) else None
            grp = next(iter(data.items.values())) if isinstance(data, DictS) and data.items else None
            attrs = from_shape(grp.fields["attrs"]) if isinstance(grp, Obj) else None
        except (Undecided, KeyError, AttributeError):
            attrs = None
        if not isinstance(attrs, dict):
            raise AnalysisError(f"{where}: the result for {section}.{key}={value!r} is not a group with one section group ({out!r:.80}); not decided")
        return "ok", attrs
    first = [next(iter(tables[g])) for g in PID_ORDER]
    last = [list(tables[g])[-1] for g in PID_ORDER]
    for codes in (first, last):
        pid = "".join(codes)
        st, got = run("pds", "ProductID", pid)
        want = {g: tables[g][c] for g, c in zip(PID_ORDER, codes)}
        ok = st == "ok" and all(got.get(g) == v for g, v in want.items())
        chk.require(ok, "C15-L10", where, f"Pds_ProductID={pid!r} surfaces decoded ({len(want)} components)",
                    f"Pds_ProductID={pid!r}: /summary/product_specification {'raises ' + got.what[:60] if st == 'raise' else 'holds ' + str(got)[:120]}, expected the decoded components {want}", key="summary:pid:valid")
    good = "".join(first)
    for bad, why in ((good[:-1] + "X", "unknown orbit direction"), ("QQQ" + good[3:], "unknown observation mode"), (good + "A", "trailing garbage"), (good[:-1], "one character short"), (good.lower(), "lower case"), ("", "empty"),
                     (good[:4] + "9.9" + good[7:], "unknown level")):
        st, got = run("pds", "ProductID", bad)
        ok = st == "raise" and (got.classes is None or "ValueError" in got.classes)
        chk.require(ok, "C15-L10", where, f"Pds_ProductID={bad!r} ({why}) raises ValueError",
                    f"Pds_ProductID={bad!r} ({why}): /summary/product_specification {'holds ' + str(got)[:100] if st == 'ok' else 'raises ' + str(got.classes[0])}: an id outside the language is not rejected with ValueError where the tree shows it",
                    key="summary:pid:outside")
    st, got = run("scs", "SceneID", "ALOS2012345678-160229")
    ok = st == "ok" and got.get("mission_name") == "ALOS2" and str(got.get("date", "")).startswith("2016-02-29") and got.get("orbit_accumulation") in (1234, "01234") and got.get("scene_frame") in (5678, "5678")
    chk.require(ok, "C15-L10", where, "Scs_SceneID='ALOS2012345678-160229' surfaces decoded",
                f"Scs_SceneID='ALOS2012345678-160229': /summary/scene_specification {'raises ' + got.what[:60] if st == 'raise' else 'holds ' + str(got)[:120]}", key="summary:sid:valid")
    for bad, why in (("ALOS2012345678-150229", "29 February 2015"), ("ALOS2012345678-16022", "short date"), ("ALOS2012345678_160229", "wrong separator"), ("ALOS2012345678-160229x", "trailing garbage"), ("", "empty")):
        st, got = run("scs", "SceneID", bad)
        ok = st == "raise" and (got.classes is None or "ValueError" in got.classes)
        chk.require(ok, "C15-L10", where, f"Scs_SceneID={bad!r} ({why}) raises ValueError",
                    f"Scs_SceneID={bad!r} ({why}): /summary/scene_specification {'holds ' + str(got)[:100] if st == 'ok' else 'raises ' + str(got.classes[0])}: an id outside the language is not rejected with ValueError where the tree shows it",
                    key="summary:sid:outside")


def grammar_rules(chk, repo):
    mod = repo.module(DECODERS)
    rx = compiled_regexes(mod)
    for name in DEC_FUNCS.values():
        if name not in rx:
            raise AnalysisError(f"anchor vanished: regex {name}")
    chk.count("regexes", len(rx))
    # translations table: group -> lookup table name | passthrough | other
    from ..interproc import dict_entries
    tr = mod.assigns.get("translations")
    tr_entries = dict_entries(repo, mod, tr[-1]) if tr else None
    if not tr_entries:
        raise AnalysisError("anchor vanished: decoders.translations")
    trans = {}
    for g, v in tr_entries.items():
        kind = ("other", norm(v))
        if isinstance(v, ast.Call) and isinstance(v.func, ast.Name) and v.func.id == "curry" and v.args:
            cs = resolve_callees(repo, mod, v.args[0])
            if cs and cs[0].func is not None and cs[0].func.qualname == "lookup" and len(v.args) == 2 and isinstance(v.args[1], ast.Name):
                kind = ("lookup", v.args[1].id)
            else:
                r = repo.resolve_expr(mod, v.args[0])
                kind = ("external", r.fq if r.kind == "external" else norm(v.args[0]))
        elif isinstance(v, ast.Name):
            r = repo.resolve_name(mod, v.id)
            if r.kind == "external" and r.fq.endswith("identity"):
                kind = ("passthrough", None)
        trans[g] = kind
    # ---------------------------------------------------------------- L1 / L2 tables
    for rname in ("product_id_re", "scan_info_re", "scene_id_re"):
        R = rx[rname]
        where = f"{mod.relpath}:{rname}"
        for g, info in R.groups.items():
            t = trans.get(g)
            chk.require(t is not None, "C15-L6", where, f"group {g!r} has a translator in `translations`",
                        f"group {g!r} of {rname} has no entry in `translations`: decoding raises KeyError instead of a result/ValueError", key=f"{rname}:{g}:translator")
            if t is None or t[0] != "lookup":
                continue
            keys = set(dict_keys(mod, t[1]))
            L = info["lang"]
            if L is None:
                classes = info["classes"]
                if classes is None:
                    raise AnalysisError(f"{rname}:{g}: language neither enumerable nor fixed-width")
                missing = sorted(k for k in keys if len(k) != len(classes) or any(ch not in cs for ch, cs in zip(k, classes)))
                extra_note = "language too large to enumerate; decided position-wise"
            else:
                missing = sorted(keys - L)
                extra_note = f"|L|={len(L)}"
            chk.require(not missing, "C15-L1", where,
                        f"group {g!r}: all {len(keys)} keys of {t[1]} are in the group's language ({extra_note})",
                        f"group {g!r} accepts {_fmt(L)} but the table {t[1]} documents {sorted(keys)}: valid ids containing {missing} are rejected",
                        key=f"{rname}:{g}:table-subset", sample={"group": g, "table": t[1], "keys": sorted(keys), "language": _fmt(L)})
    # lookup() raises ValueError on a miss and returns the table value otherwise
    lk = mod.func("lookup")
    try:
        params, paths = summarize(lk.node)
    except Undecidable as e:
        raise AnalysisError(f"lookup is outside the decidable fragment: {e}")
    raises = [p for p in paths if p[1][0] == "raise"]
    rets = [p for p in paths if p[1][0] != "raise"]
    get_term = ("call", ("attr", ("param", 0), "get"), (("param", 1),), ())
    sub_term = ("sub", ("param", 0), ("param", 1))
    ok_raise = bool(raises) and all(_is_valueerror(p[1]) for p in raises) and all(_mentions_miss(p[0], get_term) for p in raises)
    ok_ret = bool(rets) and all(p[1] in (get_term, sub_term) for p in rets)
    chk.require(ok_raise and ok_ret, "C15-L2", f"{mod.relpath}:lookup", "lookup(mapping, code): table value, or ValueError when the code is not a key",
                f"lookup no longer raises ValueError on a miss / returns the table value: {show_paths(paths)}", key="lookup:semantics",
                sample={"normal form": show_paths(paths)})
    # decoders: reject non-matches with ValueError; wrap translator errors
    for fname, rname in DEC_FUNCS.items():
        fi = mod.func(fname)
        where = f"{mod.relpath}:{fname}"
        flow = Flow(fi)
        host, mcalls = find_match_calls(repo, fi, rname)
        if len(mcalls) != 1:
            raise AnalysisError(f"{where}: expected exactly one match call on {rname} (directly or in a helper it is passed to), found {len(mcalls)}")
        mc = mcalls[0]
        if host is not fi:
            where = f"{mod.relpath}:{fname} -> {host.qualname}"
        flow = Flow(host)
        fi_host = host
        anchored = mc.func.attr == "fullmatch" or (mc.func.attr == "match" and rx[rname].ends_anchored())
        chk.require(anchored, "C15-L3", where, f"{rname}.{mc.func.attr} matches the whole string",
                    f"{fname} uses {rname}.{mc.func.attr}(): a valid prefix followed by trailing garbage is accepted instead of rejected",
                    key=f"{fname}:anchoring", sample={"decoder": fname, "method": mc.func.attr})
        # if match is None: raise ValueError
        ok_none = False
        from ..callgraph import guards_of
        for n in fi_host.own_nodes():
            if isinstance(n, ast.Raise) and n.exc is not None and norm(n.exc.func if isinstance(n.exc, ast.Call) else n.exc) == "ValueError":
                for test, pol in guards_of(n, fi_host.node):
                    t = norm(flow.expand(test))
                    if pol and "is None" in t and norm(mc) in t:
                        ok_none = True
        if not ok_none:
            # written differently (helper, early return ...): whether a non-match raises is decided by evaluation (C15-L8)
            raise AnalysisError(f"{where}: the `if match is None: raise ValueError` idiom is not found in this form")
        chk.ok("C15-L2", where, "a non-matching string raises ValueError")
    # translators that can fail with something else than ValueError must be wrapped
    sid = mod.func("decode_scene_id")
    uses_date = trans.get("date", ("", ""))[0] not in ("lookup", "passthrough")  # a parser: fails with a ValueError subclass of its own
    if uses_date:
        wrapped = False
        for n in sid.own_nodes():
            if isinstance(n, ast.Try):
                for h in n.handlers:
                    if h.type is not None and "ValueError" in norm(h.type) and isinstance(h.body[-1], ast.Raise) and "ValueError" in norm(h.body[-1].exc):
                        wrapped = any("translations" in norm(x) for st in n.body for x in ast.walk(st) if isinstance(x, ast.Subscript))
        if not wrapped:
            raise AnalysisError(f"{mod.relpath}:decode_scene_id: the try / except ValueError around the translators is not found in this form")
        chk.ok("C15-L2", f"{mod.relpath}:decode_scene_id", "date parser errors (ValueError subclass) are re-raised as ValueError naming the scene id")
    # ---------------------------------------------------------------- L4 composition
    F = rx["fname_re"]
    for g, rname in COMPOSITION.items():
        where = f"{mod.relpath}:fname_re.{g}"
        if g not in F.groups:
            raise AnalysisError(f"anchor vanished: group {g} of fname_re")
        outer = F.groups[g]
        inner = rx[rname]
        ocl = outer["classes"]
        icl = None
        try:
            from ..regexlang import posclasses
            icl = posclasses(inner.tree.data)
        except Exception:
            icl = None
        if ocl is None or icl is None:
            raise AnalysisError(f"{where}: not fixed-width, cannot decide inclusion")
        ok = outer["product"] and len(ocl) == len(icl) and all(i <= o for i, o in zip(icl, ocl))
        bad = []
        if len(ocl) != len(icl):
            bad.append(f"widths differ: {len(ocl)} vs {len(icl)}")
        else:
            bad = [f"pos {n}: {sorted(i - o)}" for n, (i, o) in enumerate(zip(icl, ocl)) if not i <= o]
        chk.require(ok, "C15-L4", where, f"L({rname}) is contained in the {g} part of the file-name grammar (width {len(ocl)})",
                    f"some strings of {rname} do not fit the {g} part of fname_re ({bad}): file names built from valid ids are rejected", key=f"fname:{g}:inclusion",
                    sample={"group": g, "width": len(ocl)})
    df = mod.func("decode_filename")
    tdict = None
    for n in df.own_nodes():
        if isinstance(n, ast.Dict) and n.keys and all(const_str(k) for k in n.keys):
            tdict = n
    if tdict is None:
        raise AnalysisError("anchor vanished: translators table of decode_filename")
    tkeys = {const_str(k) for k in tdict.keys}
    chk.require(set(F.groups) <= tkeys, "C15-L6", f"{mod.relpath}:decode_filename", f"every group of fname_re {sorted(F.groups)} has a translator",
                f"groups {sorted(set(F.groups) - tkeys)} of fname_re have no translator (KeyError)", key="decode_filename:translators")
    for g, want in (("scene_id", "decode_scene_id"), ("product_id", "decode_product_id"), ("scan_info", "decode_scan_info")):
        v = dict(zip([const_str(k) for k in tdict.keys], tdict.values)).get(g)
        cs = resolve_callees(repo, df, v) if v is not None else []
        chk.require(bool(cs) and cs[0].func is not None and cs[0].func.qualname == want, "C15-L6", f"{mod.relpath}:decode_filename",
                    f"file-name part {g} is decoded by {want}", f"file-name part {g} is decoded by {norm(v) if v is not None else None}", key=f"decode_filename:{g}")
    # ---------------------------------------------------------------- L5 documented characters
    for g, doc in DOCUMENTED.items():
        for rname in ("product_id_re", "scan_info_re"):
            if g in rx[rname].groups:
                L = rx[rname].groups[g]["lang"]
                chk.require(L is not None and doc <= L, "C15-L5", f"{mod.relpath}:{rname}", f"group {g!r} accepts every documented code {sorted(doc)}",
                            f"group {g!r} accepts {_fmt(L)}, the documented codes are {sorted(doc)}: missing {sorted(doc - (L or set()))}", key=f"{rname}:{g}:documented")
    pol = F.groups.get("polarization")
    chk.require(pol is not None and pol["lang"] == {"HH", "HV", "VH", "VV"}, "C15-L5", f"{mod.relpath}:fname_re", "polarisation is [HV]{2}",
                f"polarisation language is {_fmt(pol['lang']) if pol else None}", key="fname:polarization")
    if chk.tier == "thorough":
        enumerate_ids(chk, mod, rx, trans)


def find_match_calls(repo, fi, rname):
    """match/fullmatch/search calls on the regex ``rname``: in fi itself, or in a helper that receives the regex as an argument"""
    from ..interproc import bind_args
    direct = [c for c in calls_in(fi) if isinstance(c.func, ast.Attribute) and c.func.attr in ("match", "fullmatch", "search") and isinstance(c.func.value, ast.Name) and c.func.value.id == rname]
    if direct:
        return fi, direct
    for c in calls_in(fi):
        if not any(isinstance(a, ast.Name) and a.id == rname for a in list(c.args) + [k.value for k in c.keywords]):
            continue
        for cal in resolve_callees(repo, fi, c.func):
            if cal.func is None:
                continue
            bound, _ = bind_args(cal, c)
            params = [p for p, v in bound.items() if isinstance(v, ast.Name) and v.id == rname]
            for p in params:
                inner = [x for x in calls_in(cal.func) if isinstance(x.func, ast.Attribute) and x.func.attr in ("match", "fullmatch", "search") and isinstance(x.func.value, ast.Name) and x.func.value.id == p]
                if inner:
                    return cal.func, inner
    return fi, []


def _fmt(L):
    if L is None:
        return "<large>"
    s = sorted(L)
    return s if len(s) <= 12 else s[:12] + ["..."]


def _is_valueerror(t):
    e = t[1]
    return e[0] == "call" and e[1] == ("name", "ValueError")


def _mentions_miss(conds, get_term):
    txt = repr(conds)
    return repr(get_term) in txt or "'NotIn'" in txt


def enumerate_ids(chk, mod, rx, trans):
    """thorough: full cross product of the tables against the compiled literal"""
    chk.rule("C15-ENUM", "thorough: every id composed from the tables is accepted and every group maps through its table; near misses are rejected", 1000)
    tables = {g: dict_keys(mod, t[1]) for g, t in trans.items() if t[0] == "lookup"}
    R = rx["product_id_re"].compiled
    order = ["observation_mode", "observation_direction", "processing_level", "processing_option", "map_projection", "orbit_direction"]
    n = 0
    bad = []
    for combo in itertools.product(*[tables[g] for g in order]):
        s = "".join(combo)
        n += 1
        m = R.fullmatch(s)
        if m is None or any(m.group(g) != v for g, v in zip(order, combo)):
            bad.append(s)
        # near misses
        for miss in (s + "X", s[:-1], "x" + s[1:], s[:3] + "Q" + s[4:]):
            n += 1
            mm = R.fullmatch(miss)
            if mm is not None and all(mm.group(g) in tables[g] for g in order):
                bad.append("accepted near-miss " + miss)
    S = rx["scan_info_re"].compiled
    for pm in tables["processing_method"]:
        for d in "0123456789":
            n += 1
            if S.fullmatch(pm + d) is None:
                bad.append(pm + d)
    F = rx["fname_re"].compiled
    pids = ["".join(c) for c in itertools.product(*[tables[g] for g in order])]
    for pid in pids[:: max(1, len(pids) // 400)]:
        for pol in ("", "-HH", "-HV", "-VH", "-VV"):
            for scan in ("", "-B3", "-F9"):
                n += 1
                name = f"IMG{pol}-ALOS2012345678-140102-{pid}{scan}"
                if F.fullmatch(name) is None:
                    bad.append(name)
    for b in bad[:20]:
        chk.fail("C15-ENUM", "decoders", f"id {b!r} mis-handled by the grammar", key=f"enum:{b}")
    chk.rules["C15-ENUM"]["instances"] += n - len(bad)
    chk.obligations.append({"rule": "C15-ENUM", "where": "decoders", "what": f"{n} composed ids / near misses checked against the compiled literals; {len(bad)} failed", "holds": not bad})
    chk.extra["exhaustive"] = True
    chk.extra["enumerated_cases"] = n
