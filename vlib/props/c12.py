"""C12 -- well-typed tree"""
from __future__ import annotations

import ast

from ..adapters import KIND
from ..core import AnalysisError, const_str, norm, short
from ..dataflow import Flow, calls_in
from ..records import Layouts, unwrap
from ..reference import is_padding_name
from .c01 import r1 as dtype_tables_agree

LEVEL = "other"

COLLAPSING = {"DatetimeYdms", "AsciiComplex"}  # adapters that turn a Struct into one scalar
NP_DTYPE = ("np.dtype", "numpy.dtype")


def run(chk, repo):
    chk.explanation = (
        "Decides where the advertised dtype comes from (it must be a real np.dtype object when it reaches the backend "
        "wrapper), that shape and dtype are copied from the same array object, that the advertised and the decode dtype "
        "tables agree, and that every surfacing field of a line record decodes to a scalar or a (scalar, attrs) pair "
        "rather than a nested struct (which would surface as an object array of dicts). Does NOT decide the dtypes "
        "NumPy infers from Python lists."
    )
    chk.trusted = ["xarray needs BackendArray.dtype to be an np.dtype for nbytes/repr"]
    chk.rule("C12-Y1", "the dtype advertised by the backend wrapper is an np.dtype object", 1)
    chk.rule("C12-Y4", "shape and dtype of the wrapper are copied from the same array object", 1)
    chk.rule("C12-Y3", "every surfacing top-level field of a line record decodes to a scalar or (scalar, attrs)", 40)
    chk.rule("C01-R1", "advertised dtype table == decode table (C12-Y2/Y5)", 6)
    chk.attempt(y1, chk, repo)
    chk.attempt(dtype_tables_agree, chk, repo)
    from .c01 import r2 as decode_dtype
    chk.rule("C01-R2", "the decode path ends in one of the advertised dtypes (declared dtype == loaded dtype)", 1)
    chk.attempt(decode_dtype, chk, repo)
    chk.attempt(y3, chk, repo)
    chk.rule("C12-Y8", "in the inferred output schema every attribute is a scalar / string / (nested) list or tuple of those, and no variable holds dicts or (value, attrs) pairs", 400)
    chk.attempt(y8, chk, repo)
    from .c02 import column_delegation
    chk.rule("C12-Y7", "declared shape == loaded shape: every return of Array.__getitem__ applies the caller's column indexers", 1)
    chk.attempt(column_delegation, chk, repo, "C12-Y7")
    chk.rule("C12-Y9", "declared dtype == loaded dtype for an empty selection: arrays created in Array.__getitem__ carry dtype=self.dtype, and a possibly empty list of rows is not converted without it", 1)
    chk.attempt(y9, chk, repo)
    chk.rule("C12-Y10", "attributes attached while the tree is assembled (open_image, io.open, Group/Variable construction outside the record pipelines) are plain Python values, not NumPy objects", 2)
    chk.attempt(y10, chk, repo)
    chk.attempt(group_attrs_as_given, chk, repo)
    chk.count("functions", 6)


NUMPY_VALUED = {"asarray", "array", "asanyarray", "arange", "zeros", "ones", "empty", "full", "fromiter", "frombuffer", "stack", "concatenate", "float32", "float64", "int16", "int32",
                "int64", "uint8", "uint16", "uint32", "uint64", "complex64", "complex128", "datetime64", "timedelta64", "dtype", "atleast_1d", "squeeze", "ravel", "reshape"}


def y10(chk, repo):
    """attrs= arguments of Group/Variable constructions, and stores into <x>.attrs[...], in the functions that assemble the
    tree around the record pipelines: a value that is certainly a NumPy object (an array / NumPy scalar constructor, or
    a method chain on one that does not end in tolist()/item()) is reported; anything else is left alone"""
    from ..interproc import resolve_callees
    targets = [("ceos_alos2.sar_image", "open_image"), ("ceos_alos2.io", "open"), ("ceos_alos2.sar_image.metadata", "transform_metadata"), ("ceos_alos2.xarray", "to_variable"),
               ("ceos_alos2.xarray", "to_dataset"), ("ceos_alos2.xarray", "to_datatree")]
    n_sites = 0

    def numpy_valued(fi, e, flow, depth=0):
        """-> text of the offending sub-expression | None"""
        if depth > 6 or e is None:
            return None
        if isinstance(e, ast.Call):
            f = e.func
            if isinstance(f, ast.Attribute) and f.attr in ("tolist", "item", "isoformat", "decode"):
                return None
            r = repo.resolve_expr(fi, f) if isinstance(f, (ast.Name, ast.Attribute)) else None
            if r is not None and r.kind == "external" and r.fq.split(".")[0] == "numpy" and r.fq.split(".")[-1] in NUMPY_VALUED:
                return short(e, 60)
            if isinstance(f, ast.Attribute) and f.attr in ("astype", "view", "copy", "reshape", "squeeze"):
                return numpy_valued(fi, f.value, flow, depth + 1)
            if isinstance(f, ast.Name) and f.id in ("list", "tuple", "dict", "int", "float", "str", "bool"):
                return None
            return None
        if isinstance(e, ast.Name):
            try:
                d = flow.reaching_def(e.id, e) if getattr(e, "_parent", None) is not None else flow.single_def(e.id)
            except Exception:
                d = None
            if d is not None and d is not e:
                hit = numpy_valued(fi, d, flow, depth + 1)
                if hit:
                    return hit
            # a mapping filled key by key
            for st in fi.own_nodes():
                if isinstance(st, ast.Assign) and isinstance(st.targets[0], ast.Subscript) and isinstance(st.targets[0].value, ast.Name) and st.targets[0].value.id == e.id:
                    hit = numpy_valued(fi, st.value, flow, depth + 1)
                    if hit:
                        return f"{e.id}[{short(st.targets[0].slice, 20)}] = {hit}"
            return None
        if isinstance(e, ast.Dict):
            for k, v in zip(e.keys, e.values):
                hit = numpy_valued(fi, v, flow, depth + 1)
                if hit:
                    return f"{short(k, 20) if k is not None else '**'}: {hit}"
            return None
        if isinstance(e, (ast.List, ast.Tuple)):
            for v in e.elts:
                hit = numpy_valued(fi, v, flow, depth + 1)
                if hit:
                    return hit
            return None
        if isinstance(e, ast.BinOp) and isinstance(e.op, ast.BitOr):
            return numpy_valued(fi, e.left, flow, depth + 1) or numpy_valued(fi, e.right, flow, depth + 1)
        if isinstance(e, ast.IfExp):
            return numpy_valued(fi, e.body, flow, depth + 1) or numpy_valued(fi, e.orelse, flow, depth + 1)
        return None

    for modname, fname in targets:
        mod = repo.module(modname)
        fi = mod.funcs.get(fname)
        if fi is None:
            continue
        flow = Flow(fi)
        for c in calls_in(fi):
            cs = resolve_callees(repo, fi, c.func)
            if not any(x.cls is not None and x.cls.name in ("Group", "Variable") for x in cs):
                continue
            from ..interproc import bind_args
            b, _ = bind_args(cs[0], c)
            a = b.get("attrs")
            if a is None:
                continue
            n_sites += 1
            hit = numpy_valued(fi, a, flow)
            chk.require(hit is None, "C12-Y10", f"{mod.relpath}:{fname}", f"attrs of {short(c, 50)} hold plain values",
                        f"{short(c, 60)} attaches a NumPy object as an attribute ({hit}): attributes must be plain scalars, strings or lists (a NumPy array is not, and the cache encoder cannot serialise it)",
                        key=f"{modname}:{fname}:attrs:{cs[0].cls.name if cs[0].cls is not None else ''}")
        for st in fi.own_nodes():
            if isinstance(st, ast.Assign) and isinstance(st.targets[0], ast.Subscript) and isinstance(st.targets[0].value, ast.Attribute) and st.targets[0].value.attr == "attrs":
                n_sites += 1
                hit = numpy_valued(fi, st.value, flow)
                chk.require(hit is None, "C12-Y10", f"{mod.relpath}:{fname}", f"{short(st, 60)} stores a plain value",
                            f"{short(st, 70)} stores a NumPy object as an attribute ({hit})", key=f"{modname}:{fname}:attrs-store:{short(st.targets[0].slice, 20)}")
    if n_sites == 0:
        raise AnalysisError("no Group/Variable construction with attrs found in the assembling functions")


CREATORS = {"numpy.empty", "numpy.zeros", "numpy.ones", "numpy.full"}
CONVERTERS = {"numpy.asarray", "numpy.array", "numpy.asanyarray", "numpy.fromiter", "numpy.ascontiguousarray"}


def y9(chk, repo):
    """NumPy infers float64 for an empty list: whatever assembles the rows must say which dtype an empty block has"""
    from ..callgraph import guards_of
    from ..dataflow import wired
    am = repo.module("ceos_alos2.array")
    gi = am.func("Array.__getitem__")
    where = f"{am.relpath}:Array.__getitem__"
    flow = Flow(gi)
    lb = gi.local_bindings()

    def possibly_empty_list(e):
        if isinstance(e, (ast.ListComp, ast.List)):
            return True
        if isinstance(e, ast.Call) and isinstance(e.func, ast.Name) and e.func.id == "list":
            return True
        if isinstance(e, ast.Name):
            return any(k == "assign" and isinstance(v, ast.AST) and possibly_empty_list(v) for k, v in lb.get(e.id, []))
        return False

    n = 0
    for c in calls_in(gi):
        r = repo.resolve_expr(gi, c.func) if isinstance(c.func, (ast.Name, ast.Attribute)) else None
        fq = r.fq if r is not None and r.kind == "external" else None
        if fq not in CREATORS | CONVERTERS:
            continue
        kw = {k.arg: k.value for k in c.keywords if k.arg}
        dt = kw.get("dtype")
        if dt is None and fq in CREATORS | {"numpy.asarray", "numpy.array", "numpy.asanyarray"} and len(c.args) > 1:
            dt = c.args[1]
        if fq in CREATORS:
            n += 1
            verdict, t = wired(flow, dt, "self.dtype") if dt is not None else ("different", "nothing (float64)")
            if verdict == "unknown":
                raise AnalysisError(f"{where}: {short(c, 60)} is created with dtype {t}; not decided")
            chk.require(verdict == "equal", "C12-Y9", where, f"{short(c, 50)} is created with the declared dtype",
                        f"{short(c, 60)} is created with dtype {t}, the variable declares self.dtype: the block returned when no line is selected has another dtype than declared", key="getitem:created-dtype")
        elif c.args and possibly_empty_list(c.args[0]):
            n += 1
            lst = c.args[0]
            names = {x.id for x in ast.walk(lst) if isinstance(x, ast.Name)}
            guarded = any(pol and (names & {x.id for x in ast.walk(t) if isinstance(x, ast.Name)}) for t, pol in guards_of(c, gi.node))
            typed = dt is not None and wired(flow, dt, "self.dtype")[0] == "equal"
            chk.require(guarded or typed, "C12-Y9", where, f"{short(c, 50)} converts a list that is known to be non-empty, or names the dtype",
                        f"{short(c, 70)} converts the list of selected rows without dtype=self.dtype and without an emptiness guard: for a selection of zero lines NumPy infers float64, "
                        f"so the loaded dtype differs from the declared one", key="getitem:empty-list-dtype")
    if n == 0:
        raise AnalysisError(f"{where}: no array is created or converted here any more; the dtype of an empty selection is not decided")


def _is_npdtype_call(e):
    return isinstance(e, ast.Call) and norm(e.func) in NP_DTYPE


def y1(chk, repo):
    xm = repo.module("ceos_alos2.xarray")
    init = xm.func("LazilyIndexedWrapper.__init__")
    where = f"{xm.relpath}:LazilyIndexedWrapper.__init__"
    dt = sh = None
    for n in init.own_nodes():
        if isinstance(n, ast.Assign) and norm(n.targets[0]) == "self.dtype":
            dt = n.value
        if isinstance(n, ast.Assign) and norm(n.targets[0]) == "self.shape":
            sh = n.value
    if dt is None or sh is None:
        raise AnalysisError("anchor vanished: self.dtype / self.shape assignments of LazilyIndexedWrapper")
    arr = init.positional_params[1]
    wrapped = _is_npdtype_call(dt)
    src = dt.args[0] if wrapped and dt.args else dt
    # (b) Array normalises its own dtype
    am = repo.module("ceos_alos2.array")
    pi = am.func_any("Array.__post_init__", "Array.__init__")
    normalised = any(isinstance(n, ast.Assign) and norm(n.targets[0]) == "self.dtype" and _is_npdtype_call(n.value) for n in pi.own_nodes())
    # (c) every producer passes an np.dtype
    md = repo.module("ceos_alos2.sar_image.metadata")
    tm = md.func("transform_metadata")
    prod1 = None
    for n in tm.own_nodes():
        if isinstance(n, ast.Dict):
            for k, v in zip(n.keys, n.values):
                if const_str(k) == "dtype":
                    prod1 = v
    dec = repo.module("ceos_alos2.sar_image.caching.decoders").func("decode_array")
    prod2 = None
    for c in calls_in(dec):
        if norm(c.func) == "Array":
            for k in c.keywords:
                if k.arg == "dtype":
                    prod2 = Flow(dec).expand(k.value)
    producers_typed = prod1 is not None and prod2 is not None and not (isinstance(prod1, ast.Call) and norm(prod1.func) == "str") \
        and "dtypes.get" in norm(Flow(tm).expand(prod1)) and _is_npdtype_call(prod2)
    ok = wrapped or normalised or producers_typed
    how = "wrapped with np.dtype at the wrapper" if wrapped else "normalised in Array.__post_init__" if normalised else "all producers pass np.dtype objects" if producers_typed else ""
    chk.require(ok, "C12-Y1", where, f"self.dtype is an np.dtype ({how})",
                f"self.dtype = {short(dt, 40)} where Array.dtype is produced as {short(prod1, 30) if prod1 is not None else '?'} (open) / {short(prod2, 40) if prod2 is not None else '?'} (cache): "
                f"a plain string - repr(tree), nbytes and dask chunking raise TypeError", key="wrapper:dtype-is-str", sample={"assignment": short(dt, 50), "how": how})
    same = norm(src) == f"{arr}.dtype" and norm(sh) == f"{arr}.shape"
    chk.require(same, "C12-Y4", where, f"shape and dtype both come from `{arr}`", f"shape = {short(sh, 30)}, dtype = {short(dt, 30)}: not the same source object", key="wrapper:same-source")


def y3(chk, repo):
    L = Layouts(repo)
    md = repo.module("ceos_alos2.sar_image.metadata")
    tl = md.func("transform_line_metadata")
    # which fields of a line record surface in the tree: read off the output of shape inference over transform_line_metadata
    # (wherever the list of ignored fields lives); the literal `ignored = [...]` is only the fallback
    from ..shapes import DictS, Obj
    from ..shapes_rules import pipelines
    surfacing = {}
    try:
        P = pipelines(repo, L)
        for key in ("signal", "processed"):
            res = P.get(f"lines:{key}")
            data = res.fields.get("data") if isinstance(res, Obj) else None
            attrs = res.fields.get("attrs") if isinstance(res, Obj) else None
            if not isinstance(data, DictS):
                raise AnalysisError("no group of variables")
            surfacing[key] = set(data.items) | (set(attrs.items) if isinstance(attrs, DictS) else set())
    except AnalysisError:
        surfacing = {}
    ignored = None
    for n in tl.own_nodes():
        if isinstance(n, ast.Assign) and norm(n.targets[0]) == "ignored" and isinstance(n.value, ast.List):
            ignored = [const_str(e) for e in n.value.elts]
    if ignored is None and not surfacing:
        raise AnalysisError("anchor vanished: neither the output of shape inference nor an `ignored` list of transform_line_metadata tells which fields surface")
    # is there a flattening stage before the merge? (none today: the pipeline starts with merge_with(list))
    flatten = any("flatten" in norm(c.func) or norm(c.func).endswith("remove_nesting_layer") for c in calls_in(tl))
    for key in ("signal", "processed"):
        con = L.con(key)
        for f in con.fields:
            if f.kind != "renamed":
                continue
            name = f.name
            if is_padding_name(name) or (name not in surfacing[key] if surfacing else name in ignored):
                continue
            core, chain = unwrap(f)
            nested = core.kind == "struct" and not any(getattr(a, "cls", None) in COLLAPSING for a in chain)
            where = f"{key}_data_record.{name}"
            if core.kind == "array":
                nested = True
            chk.require(not nested or flatten, "C12-Y3", where, f"{name} decodes to a scalar" + (" pair" if any(getattr(a, 'cls', None) == 'Metadata' for a in chain) else ""),
                        f"{name} is a nested Struct of {len(core.fields) if core.kind == 'struct' else '?'} fields and the per-line merge has no flattening stage: "
                        f"it surfaces as an object array of dicts holding (value, attrs) pairs",
                        key=f"{key}:{name}:nested", sample={"record": key, "field": name} if nested else None)


def y8(chk, repo):
    """walk the output trees obtained by shape inference: attribute values and variable data must be plain"""
    from ..records import Layouts
    from ..shapes import Choice, Const, DictS, Leaf, ListLit, ListOf, Obj, Top, TupS
    from ..shapes_rules import pipelines
    L = Layouts(repo)
    P = pipelines(repo, L)
    n = [0]

    def plain(v, allow_seq=True):
        if isinstance(v, (Leaf, Const)):
            return True
        if isinstance(v, Choice):
            return all(plain(a, allow_seq) for a in v.alts)
        if allow_seq and isinstance(v, (ListLit, TupS)):
            return all(plain(x) for x in v.elts)
        if allow_seq and isinstance(v, ListOf):
            return plain(v.elem)
        return False

    def walk(v, path, pipe):
        if isinstance(v, Choice):
            for a in v.alts:
                walk(a, path, pipe)
            return
        if isinstance(v, Obj) and v.cls == "Group":
            attrs = v.fields.get("attrs")
            if isinstance(attrs, DictS):
                for k, x in attrs.items.items():
                    n[0] += 1
                    if k == "coordinates":
                        continue
                    chk.require(plain(x), "C12-Y8", f"{pipe}:{path}/@{k}", "plain attribute", f"attribute {path}/@{k} is {type(x).__name__} {repr(x)[:80]}: not a scalar/string/list - it cannot be serialised or shown", key=f"{pipe}:{path}/@{k}:attr")
            data = v.fields.get("data")
            if isinstance(data, DictS):
                for k, x in data.items.items():
                    walk(x, f"{path}/{k}", pipe)
            return
        if isinstance(v, Obj) and v.cls == "Variable":
            n[0] += 1
            d = v.fields.get("data")
            ok = plain(d)
            if not ok:
                # known finding D8 is reported by C12-Y3 with its own key; here only new cases outside the line records
                if pipe.startswith("lines:"):
                    return
            chk.require(ok, "C12-Y8", f"{pipe}:{path}", "variable data is an array of scalars", f"variable {path} holds {repr(d)[:100]}: dicts / (value, attrs) pairs surface as data", key=f"{pipe}:{path}:data")
            attrs = v.fields.get("attrs")
            if isinstance(attrs, DictS):
                for k, x in attrs.items.items():
                    n[0] += 1
                    chk.require(plain(x), "C12-Y8", f"{pipe}:{path}@{k}", "plain attribute", f"attribute {path}@{k} is {repr(x)[:80]}", key=f"{pipe}:{path}@{k}:attr")
            return
        if isinstance(v, DictS):
            for k, x in v.items.items():
                n[0] += 1
                chk.require(plain(x), "C12-Y8", f"{pipe}:{path}/@{k}", "plain attribute", f"attribute {path}/@{k} is {repr(x)[:80]}", key=f"{pipe}:{path}/@{k}:attr")

    for pipe, v in P.run().items():
        walk(v, "", pipe)


def group_attrs_as_given(chk, repo):
    """C12-Y11: hierarchy.Group evaluated by the checker's interpreter (its own __post_init__ / __setitem__): the attributes of a group
    are the mapping its creator passed - also when `data` holds something that is neither a group nor a variable (summary sections the
    package does not know are handed through as raw dicts, the cache decoder keeps entries of unknown type).  Such an entry never turns
    into an attribute: a dict under attrs surfaces in the tree as an attribute that is not a scalar / string / list."""
    from collections import OrderedDict
    from ..repeval import from_shape, Undecided
    from ..shapes import Const, DictS, Interp, ListLit, NonTermination, Obj, ShapeError, _Raise
    chk.rule("C12-Y11", "a group's attributes are what its creator passed: entries of `data` that are not nodes never become attributes", 2)
    hm = repo.module("ceos_alos2.hierarchy")
    where = f"{hm.relpath}:Group"
    I = Interp(repo)
    I.real_hierarchy = True
    sc = I.module_scope(hm)
    try:
        G, V = I.lookup("Group", sc), I.lookup("Variable", sc)
        var = I.call(V, [], OrderedDict(dims=ListLit([Const("rows")]), data=ListLit([Const(1)]), attrs=DictS()))
        raw = DictS(OrderedDict(ProcessingNote=Const("reprocessed")))
        g = I.call(G, [], OrderedDict(path=Const("summary"), url=Const(None), data=DictS(OrderedDict([("v", var), ("exi", raw)])), attrs=DictS(OrderedDict(a=Const(1)))))
        attrs = from_shape(g.fields["attrs"])
        chk.require(attrs == {"a": 1}, "C12-Y11", where, "constructed with a raw dict among its entries: attrs stay {'a': 1}",
                    f"Group(path='summary', data={{'v': <variable>, 'exi': {{...}}}}, attrs={{'a': 1}}) has the attributes {str(attrs)[:120]}: an entry of `data` that is no node became an attribute - an internal dict surfaces in the tree",
                    key="group:attrs:constructor")
        g2 = I.call(G, [], OrderedDict(path=Const("/"), url=Const(None), data=DictS(), attrs=DictS(OrderedDict(a=Const(1)))))
        I.call(I.getattr(g2, "__setitem__"), [Const("exi"), raw], {})
        attrs2 = from_shape(g2.fields["attrs"])
        chk.require(attrs2 == {"a": 1}, "C12-Y11", where, "a raw dict assigned as an entry: attrs stay {'a': 1}",
                    f"after group['exi'] = {{...}} the group has the attributes {str(attrs2)[:120]}", key="group:attrs:setitem")
    except (ShapeError, NonTermination, RecursionError, _Raise, Undecided, KeyError) as e:
        raise AnalysisError(f"{where}: construction cannot be evaluated on model entries: {str(e)[:160]}")
