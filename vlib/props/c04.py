"""C04 -- SAR leader metadata equals the field values stored in the leader file"""
from __future__ import annotations

from ..adapters import adapters_used, check_adapter
from ..core import AnalysisError
from ..records import Layouts, top_spans
from ..reference import compare, load

LEVEL = "translation_validation"


def run(chk, repo):
    L = Layouts(repo)
    chk.explanation = (
        "The byte layout of the nine leader records is computed from the construct expressions "
        "(offsets as polynomials in the file's count/length fields) and compared field by field with the "
        "reference layout; adapter decode bodies are normalised and decided on input classes; the literal "
        "tables of every transform_* function are linked to the struct fields at the pipeline stage where "
        "they are used (shape inference)."
    )
    chk.trusted = ["spec/layout_reference.json (regression oracle confirmed against the format's record-length "
                   "constants, sibling agreement and CEOS width classes; the JAXA PDF is not available offline)",
                   "model of construct primitives (vlib/layout.py)"]
    chk.rule("C04-T1", "layout of every non-padding leader field == reference (offset, width, codec, scale, units)", 300)
    chk.rule("C04-T2", "record order in sar_leader_record == reference order", 12)
    chk.rule("C04-T4", "ASCII adapter semantics (normal form decided on input classes)", 6)
    leaves, end, _ = L.get("leader")
    chk.count("layout_leaves", len(leaves))
    chk.count("programs", 1)
    n = compare(chk, "C04-T1", L, "leader")
    # T2 record order
    ref = load()["records"]["leader"]
    ref_order = []
    for r in ref["leaves"]:
        top = r["path"].split(".")[0].removesuffix("[]")
        if top not in ref_order:
            ref_order.append(top)
    cur_order = list(top_spans(leaves, end))
    for i, name in enumerate(ref_order):
        got = cur_order[i] if i < len(cur_order) else None
        chk.require(got == name, "C04-T2", f"ceos_alos2.sar_leader.structure:sar_leader_record[{i}]",
                    f"record {i} is {name}", f"record {i} is {got}, the format's order has {name} there",
                    key=f"order:{i}:{name}")
    # T4 adapters
    def t4(chk, repo, L, used):
        for key in sorted(used):
            check_adapter(chk, "C04-T4", repo, L.ev, key)
    _t4_pending = (t4, adapters_used(leaves))
    from .adapter_eval import adapter_values
    chk.rule("C04-T7", "every adapter used in these layouts decodes representative raw values as specified (evaluation of _decode)", 5)
    chk.attempt(adapter_values, chk, repo, L, "C04-T7", ("leader",))
    chk.attempt(_t4_pending[0], chk, repo, L, _t4_pending[1], covered_by="adapter_values", rules=("C04-T4",))
    from ..shapes_rules import link_tables
    link_tables(chk, repo, L, "C04")
    from .common_rules import parse_and_transform, to_dict_contract, to_dict_rules
    chk.rule("C04-T6", "parsed containers reach the pipelines in the assumed shape (to_dict contract) and the leader is parsed with sar_leader_record and transformed by transform_metadata", 4)
    to_dict_rules(chk, repo, "C04-T6")
    chk.attempt(opener_contents, chk, repo)
    chk.attempt(parse_and_transform, chk, repo, "C04-T6", "ceos_alos2.sar_leader.io", "sar_leader_record", "transform_metadata", "open_sar_leader", covered_by="opener_contents")


def opener_contents(chk, repo):
    """C04-T8: open_sar_leader evaluated with recording stubs: it returns what transform_metadata built from the parsed bytes of the
    leader file, whatever the values are and whatever the file is called"""
    from .common_rules import opener_eval
    cases = [("typical values", {"scene_id": "ALOS2014410750-140829", "n_rows": 7, "ellipsoid": "GRS80"}), ("blank fields", {"scene_id": "", "n_rows": -1, "ellipsoid": ""}),
             ("values of another scene", {"scene_id": "ALOS2099990000-200101", "n_rows": 0, "ellipsoid": "x" * 16})]
    opener_eval(chk, repo, "C04-T8", "ceos_alos2.sar_leader.io", "transform_metadata", "open_sar_leader", cases,
                ["LED-ALOS2014410750-140829-WWDR1.5RUA", "leader.bin"])
