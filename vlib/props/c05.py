"""C05 -- record framing (symbolic identities over the construct layouts)"""

from __future__ import annotations

import ast

from ..core import AnalysisError, norm, short
from ..dataflow import Flow, calls_in
from ..poly import Poly, lift
from ..records import Layouts, top_spans, subcon, unwrap

LEVEL = "proof"

# self-delimiting records: total size must be identically preamble.record_length
SELF_DELIMITING = {
    "leader": ["attitude", "facility_related_data_1", "facility_related_data_2",
               "facility_related_data_3", "facility_related_data_4"],
}

# the format's record lengths (bytes) for fixed-size records -- these are the
# numbers the file's own descriptors declare for every ALOS-2 product
FIXED = {
    "leader": {
        "file_descriptor": 720, "dataset_summary": 4096, "platform_position": 4680,
        "radiometric_data": 9860, "data_quality_summary": 1620, "facility_related_data_5": 5000,
    },
    "volume": {"volume_descriptor": 360, "text_record": 360},
}
ARRAY_RECORDS = {
    # field -> (element size, expected count symbol)
    "leader": {"map_projection": (1620, "file_descriptor.map_projection.number_of_records")},
    "volume": {"file_descriptors": (360, "volume_descriptor.number_of_file_pointer_records")},
}

# interior multiplicities: array leaf -> (count field, element size)
MULTIPLICITIES = {
    "leader": {
        "attitude.data_points": ("attitude.number_of_points", 120),
        "data_quality_summary.relative_radiometric_quality.nominal_relative_radiometric_calibration_uncertainty":
            ("data_quality_summary.number_of_channels", 32),
        "data_quality_summary.relative_geometric_quality.relative_misregistration_error":
            ("data_quality_summary.number_of_channels", 32),
    },
    "trailer": {"low_resolution_image_sizes": ("number_of_low_resolution_images", 26)},
}

# admissible domains stated by the property; (lo, hi) inclusive, hi may depend on L
DOMAINS = {
    "attitude.number_of_points": ("attitude", 1, lambda L: (L - 16) // 120, {"attitude.preamble.record_length": 16384}),
    "data_quality_summary.number_of_channels": ("data_quality_summary", 1, lambda L: 16, {}),
    "number_of_low_resolution_images": ("trailer", 0, lambda L: 7, {}),
}
FACILITY_MIN = 66


def is_int_valued(leaf):
    """integer-valued field: IntNub without Factor, or AsciiInteger"""
    classes = [a.get("cls") for a in leaf.chain]
    if leaf.base and leaf.base.startswith("Int"):
        return not any(c in ("Factor", "Flag") for c in classes) and "Enum" not in classes
    if leaf.base == "PaddedString":
        return classes == ["AsciiInteger"]
    return False


def run(chk, repo):
    L = Layouts(repo)
    chk.explanation = (
        "Record sizes, offsets and paddings are computed from the construct struct "
        "expressions in the syntax tree as integer polynomials in the count/length fields "
        "of the file; each obligation is a polynomial identity (valid for every N / L at once) "
        "or a sign condition of a linear expression at the ends of the admissible interval. "
        "Nothing is executed; construct's primitives are modelled (see trusted_base)."
    )
    chk.trusted = [
        "model of construct primitives in vlib/layout.py (sequential Struct, Array repeats back to back, "
        "PaddedString/Bytes consume exactly n bytes, Seek sets position, Tell/Computed consume nothing)",
        "Python ast module of /venv/bin/python",
        "format constants named in the property text and DESIGN A.1 (720, 4096, 1620, 4680, 9860, 5000, 360, 120, 32, 26, 66)",
    ]
    chk.rule("C05-F1", "self-delimiting records: sum of widths == preamble.record_length identically", 5)
    chk.rule("C05-F2", "fixed records: static size is a constant equal to the format's record length", 8)
    chk.rule("C05-F3", "multiplicities resolve to the intended integer field parsed earlier; element sizes constant", 6)
    chk.rule("C05-F4", "dynamic paddings are >= 0 on the admissible domain and < 0 just outside it", 8)
    chk.rule("C05-F5", "trailer: header ends within the bytes read; images are the running sum of declared lengths", 5)
    chk.rule("C05-F6", "leader and volume directory are plain sequential Structs (no Seek/Tell at record level)", 2)
    chk.rule("C05-F7", "each record starts where its predecessor ends (offset chain)", 10)

    from .common_rules import stateless_constructs
    chk.attempt(stateless_constructs, chk, repo, "C05-F8")
    chk.attempt(stream_movers, chk, repo, L)
    chk.attempt(reader_classes, chk, repo, L)
    from .common_rules import declared_multiplicities
    usable = declared_multiplicities(chk, L, "C05-F9", ("leader", "volume", "trailer"))
    if len(usable) < 3:
        return  # the violation is reported; sizes of a sniffing layout are not defined
    total_leaves = 0
    for key in ("leader", "volume", "trailer"):
        leaves, end, _ = L.get(key)
        total_leaves += len(leaves)
    chk.count("layout_leaves", total_leaves)
    chk.count("structs", 3)

    # ----------------------------------------------------------------- leader / volume
    for key in ("leader", "volume"):
        leaves, end, _ = L.get(key)
        where = ":".join(L.ev.repo.module(_mod(key)).relpath.split(":")) + ":" + _name(key)
        spans = top_spans(leaves, end)
        names = L.by_name(key)

        # F6: no position-changing construct at record level
        movers = [lf for lf in leaves if lf.kind in ("seek",)]
        chk.require(
            not movers, "C05-F6", where,
            f"{_name(key)} is a sequential Struct of {len(spans)} records",
            f"{_name(key)} contains position-changing fields: {[m.name for m in movers]}",
            key=f"{key}:seek",
            sample={"struct": _name(key), "records": list(spans)},
        )

        # F7: offsets chain (falls out of sequential evaluation; recorded with the polynomials)
        pos = lift(0)
        for fname, (s, e) in spans.items():
            chk.require(
                s == pos, "C05-F7", f"{where}.{fname}",
                f"record {fname} starts at {s} = end of its predecessor",
                f"record {fname} starts at {s}, predecessor ends at {pos}", key=f"{key}:{fname}:chain",
            )
            pos = e

        for fname in SELF_DELIMITING.get(key, []):
            if fname not in spans:
                raise AnalysisError(f"anchor vanished: record {fname} in {_name(key)}")
            s, e = spans[fname]
            size = e - s
            want = Poly.sym(f"{fname}.preamble.record_length")
            if size.has_func_atoms() and size != want:
                # floor / mod / max / min in a size expression: not a polynomial identity - decided by evaluating the closed form on
                # every admissible (length, count): lengths 16..40000 and the format's usual ones, counts 0..floor((L-16)/120) sampled
                lsym = f"{fname}.preamble.record_length"
                others = [x for x in size.plain_symbols() if x != lsym]
                bad = None
                n_eval = 0
                lengths = list(range(16, 2600)) + list(range(2600, 40001, 7)) + [4096, 8192, 12000, 16320, 16384, 32768, 65536]
                for Lv in lengths:
                    cmax = max((Lv - 16) // 120, 0)
                    for cv in sorted({0, 1, cmax // 2, cmax}):
                        m = {lsym: Lv}
                        m.update({o: cv for o in others})
                        try:
                            v = size.subs(m)
                        except ZeroDivisionError as e:
                            raise AnalysisError(f"{where}.{fname}: {e}")
                        n_eval += 1
                        if not v.is_const():
                            raise AnalysisError(f"{where}.{fname}: size {size} does not fold for {m}")
                        if v.value() != Lv and bad is None:
                            bad = (Lv, cv, v.value())
                chk.require(bad is None, "C05-F1", f"{where}.{fname}", f"sum of widths {size} == declared length on all {n_eval} (length, count) pairs of the domain (closed form with floor/mod, evaluated)",
                            f"sum of widths is {size}: for a declared length of {bad[0] if bad else 0} bytes (count {bad[1] if bad else 0}) the record consumes {bad[2] if bad else 0} bytes - "
                            f"the next record is decoded from bytes shifted by {(bad[2] - bad[0]) if bad else 0}", key=f"{key}:{fname}:selfdelim", sample={"record": fname, "size": str(size), "evaluated": n_eval})
            elif size == Poly.sym(f"file_descriptor.{fname}.record_length"):
                chk.ok("C05-F1", f"{where}.{fname}", f"sum of widths = {size}: the length the file descriptor declares for this very record (the other declaration of the same length)")
            else:
              chk.require(
                size == want, "C05-F1", f"{where}.{fname}",
                f"sum of widths = {size} == {fname}.preamble.record_length for every count and length",
                f"sum of widths is {size}, declared length is {want}: the next record is decoded "
                f"from bytes shifted by {size - want}",
                key=f"{key}:{fname}:selfdelim",
                sample={"record": fname, "identity": f"{size} == {want}"},
            )
            # the length field itself must be the 32-bit big-endian integer at bytes 8..12
            lf = names.get(f"{fname}.preamble.record_length")
            chk.require(
                lf is not None and lf.offset - s == lift(8) and lf.width == lift(4) and lf.base == "Int32ub" and not lf.chain,
                "C05-F1", f"{where}.{fname}.preamble.record_length",
                "declared length is the Int32ub at record bytes 8..12",
                f"declared length field is {lf!r}", key=f"{key}:{fname}:lenfield",
            )

        for fname, want in FIXED.get(key, {}).items():
            if fname not in spans:
                raise AnalysisError(f"anchor vanished: record {fname} in {_name(key)}")
            s, e = spans[fname]
            size = e - s
            if size.has_func_atoms():
                # max()/min() in a padding expression: not a polynomial - decide on every admissible count
                syms = size.plain_symbols()
                dom = {"data_quality_summary.number_of_channels": range(1, 17)}
                if len(syms) != 1 or syms[0] not in dom:
                    raise AnalysisError(f"{fname}: size {size} is piecewise in {syms}, for which no finite domain is stated")
                bad = []
                for n in dom[syms[0]]:
                    v = size.subs({syms[0]: n})
                    if not (v.is_const() and v.value() == want):
                        bad.append((n, str(v)))
                chk.require(not bad, "C05-F2", f"{where}.{fname}", f"size {size} == {want} for every {syms[0]} in {dom[syms[0]].start}..{dom[syms[0]].stop - 1}",
                            f"size {size} is not {want} for {syms[0]} = {[b[0] for b in bad]} (e.g. {bad[0][1] if bad else ''}): every record after {fname} is decoded from shifted bytes",
                            key=f"{key}:{fname}:fixed", sample={"record": fname, "size": str(size)})
                continue
            chk.require(
                size == lift(want), "C05-F2", f"{where}.{fname}",
                f"static size {size} == {want} for every value of every count field",
                f"static size is {size}, the format's record length is {want}",
                key=f"{key}:{fname}:fixed",
                sample={"record": fname, "identity": f"{size} == {want}"},
            )

        for fname, (esize, countsym) in ARRAY_RECORDS.get(key, {}).items():
            lf = names.get(fname)
            if lf is None or lf.kind != "array":
                raise AnalysisError(f"anchor vanished: repeated record {fname} in {_name(key)}")
            _check_multiplicity(chk, names, lf, countsym, esize, f"{where}.{fname}", f"{key}:{fname}")

    # interior multiplicities
    for key, table in MULTIPLICITIES.items():
        names = L.by_name(key)
        where = f"{L.ev.repo.module(_mod(key)).relpath}:{_name(key)}"
        for aname, (countsym, esize) in table.items():
            lf = names.get(aname)
            if lf is None or lf.kind != "array":
                raise AnalysisError(f"anchor vanished: array {aname} in {_name(key)}")
            _check_multiplicity(chk, names, lf, countsym, esize, f"{where}.{aname}", f"{key}:{aname}")

    # any other array with a dynamic count must also resolve to an integer field
    for key in ("leader", "volume", "trailer"):
        names = L.by_name(key)
        for lf in names.values():
            if lf.kind == "array" and not lf.extra["count"].is_const():
                known = set(MULTIPLICITIES.get(key, {})) | set(ARRAY_RECORDS.get(key, {}))
                if lf.name not in known:
                    syms = lf.extra["count"].symbols()
                    okc = all(s in names and is_int_valued(names[s]) for s in syms)
                    chk.require(
                        okc, "C05-F3", f"{_name(key)}.{lf.name}",
                        f"dynamic count {lf.extra['count']} reads integer field(s)",
                        f"dynamic count {lf.extra['count']} does not read an integer-valued field",
                        key=f"{key}:{lf.name}:count",
                    )

    # ---------------------------------------------------------------- F4 domains
    _domains(chk, L)

    # ---------------------------------------------------------------- F5 trailer
    _trailer(chk, repo, L)

    if chk.tier == "thorough":
        _enumerate(chk, L)


def _mod(key):
    from ..records import STRUCTS
    return STRUCTS[key][0]


def _name(key):
    from ..records import STRUCTS
    return STRUCTS[key][1]


def _check_multiplicity(chk, names, lf, countsym, esize, where, key):
    count = lf.extra["count"]
    chk.require(
        count == Poly.sym(countsym), "C05-F3", where,
        f"count of {lf.name} is the field {countsym}",
        f"count of {lf.name} is {count}, expected the field {countsym}",
        key=f"{key}:count", sample={"array": lf.name, "count": str(count)},
    )
    src = names.get(countsym)
    chk.require(
        src is not None and is_int_valued(src), "C05-F3", where,
        f"{countsym} is an integer-valued field parsed before {lf.name}",
        f"{countsym} is not an integer-valued field ({src!r})", key=f"{key}:countkind",
    )
    es = lf.extra["elem_size"]
    chk.require(
        es == lift(esize), "C05-F3", where,
        f"element size of {lf.name} is the constant {esize}",
        f"element size of {lf.name} is {es}, the format's element is {esize} bytes", key=f"{key}:esize",
    )


def _dynamic_fields(names):
    return [lf for lf in names.values() if lf.kind == "field" and not lf.width.is_const()]


def _domains(chk, L):
    # leader
    names = L.by_name("leader")
    dyn = _dynamic_fields(names)
    expected_dyn = 0
    for lf in dyn:
        w = lf.width
        syms = w.plain_symbols()
        where = f"sar_leader_record.{lf.name}"
        if lf.name == "attitude.blanks" or (len(syms) == 2 and "attitude.number_of_points" in syms):
            Lsym = "attitude.preamble.record_length"
            for Lval in (16384, 16 + 120, 16 + 120 * 3 + 7):
                hi = (Lval - 16) // 120
                for n, sign in ((1, 1), (hi, 1), (hi + 1, -1)):
                    v = w.subs({Lsym: Lval, "attitude.number_of_points": n})
                    good = v.is_const() and ((v.value() >= 0) if sign > 0 else (v.value() < 0))
                    chk.require(
                        good, "C05-F4", where,
                        f"padding {w} at L={Lval}, N={n} is {v} ({'>= 0 inside' if sign > 0 else '< 0 just outside'} 1..{hi})",
                        f"padding {w} at L={Lval}, N={n} is {v}: expected {'>= 0' if sign > 0 else '< 0'} (domain 1..floor((L-16)/120) = {hi})",
                        key=f"leader:{lf.name}:domain",
                        sample={"field": lf.name, "width": str(w), "L": Lval, "N": n, "value": str(v)},
                    )
            expected_dyn += 1
        elif syms == ["data_quality_summary.number_of_channels"]:
            for n, sign in ((1, 1), (16, 1)):
                v = w.subs({syms[0]: n})
                chk.require(
                    v.is_const() and v.value() >= 0, "C05-F4", where,
                    f"padding {w} at channels={n} is {v} >= 0",
                    f"padding {w} at channels={n} is {v} < 0: PaddedString fails / steals bytes",
                    key=f"leader:{lf.name}:domain",
                    sample={"field": lf.name, "width": str(w), "N": n, "value": str(v)},
                )
            expected_dyn += 1
        elif len(syms) == 1 and syms[0].startswith("facility_related_data_") and syms[0].endswith("preamble.record_length"):
            for Lval, sign in ((FACILITY_MIN, 1), (FACILITY_MIN - 1, -1), (10**6, 1)):
                v = w.subs({syms[0]: Lval})
                good = v.is_const() and ((v.value() >= 0) if sign > 0 else (v.value() < 0))
                chk.require(
                    good, "C05-F4", where,
                    f"raw data width {w} at L={Lval} is {v}",
                    f"raw data width {w} at L={Lval} is {v}: expected {'>= 0' if sign > 0 else '< 0'} (minimum record length {FACILITY_MIN})",
                    key=f"leader:{lf.name}:domain",
                )
            expected_dyn += 1
        else:
            chk.fail("C05-F4", where, f"dynamic width {w} depends on symbols with no stated domain {syms}", key=f"leader:{lf.name}:unknown-domain")
    # the data-quality record as a whole must not depend on the channel count (=F2) -- and at
    # least one of its paddings must go negative right after 16 channels
    dq = [lf for lf in dyn if lf.width.plain_symbols() == ["data_quality_summary.number_of_channels"]]
    if dq:
        neg = [lf for lf in dq if lf.width.subs({"data_quality_summary.number_of_channels": 17}).value() < 0]
        if any(lf.width.has_func_atoms() for lf in dq):
            neg = dq  # clamped paddings never go negative; the record size identity (F2) decides instead
        chk.require(
            bool(neg), "C05-F4", "sar_leader_record.data_quality_summary",
            "channel count 17 is rejected (a padding becomes negative): upper bound 16 is enforced by the layout",
            "no padding becomes negative at 17 channels: bound of 16 channels is not enforced",
            key="leader:data_quality_summary:upper",
        )
    # trailer
    names = L.by_name("trailer")
    for lf in _dynamic_fields(names):
        w = lf.width
        syms = w.symbols()
        where = f"sar_trailer.file_descriptor_record.{lf.name}"
        if syms == ["number_of_low_resolution_images"]:
            for n, sign in ((0, 1), (7, 1), (8, -1)):
                v = w.subs({syms[0]: n})
                good = v.is_const() and ((v.value() >= 0) if sign > 0 else (v.value() < 0))
                chk.require(
                    good, "C05-F4", where,
                    f"padding {w} at images={n} is {v}",
                    f"padding {w} at images={n} is {v}: expected {'>= 0' if sign > 0 else '< 0'} (domain 0..7)",
                    key=f"trailer:{lf.name}:domain",
                    sample={"field": lf.name, "width": str(w), "N": n, "value": str(v)},
                )
        else:
            chk.fail("C05-F4", where, f"dynamic width {w} depends on symbols with no stated domain {syms}", key=f"trailer:{lf.name}:unknown-domain")
    names = L.by_name("volume")
    for lf in _dynamic_fields(names):
        chk.fail("C05-F4", f"volume_directory_record.{lf.name}", f"unexpected dynamic width {lf.width}", key=f"volume:{lf.name}:unknown-domain")


def _trailer(chk, repo, L):
    leaves, end, _ = L.get("trailer")
    mod = repo.module("ceos_alos2.sar_trailer")
    fi = mod.func("read_sar_trailer")
    where = f"{mod.relpath}:read_sar_trailer"
    flow = Flow(fi)
    reads = []
    for c in calls_in(fi):
        if isinstance(c.func, ast.Attribute) and c.func.attr == "read" and isinstance(c.func.value, ast.Name) and c.func.value.id in fi.params:
            reads.append(c)
    reads.sort(key=lambda n: (n.lineno, n.col_offset))
    if len(reads) < 1:
        raise AnalysisError("anchor vanished: f.read(...) in read_sar_trailer")
    first = reads[0]
    k = None
    if first.args and isinstance(first.args[0], ast.Constant) and isinstance(first.args[0].value, int):
        k = first.args[0].value
    if k is None and first.args:
        raise AnalysisError(f"{where}: the size of the header read ({short(first)}) is not a literal; not decided")
    chk.require(
        k == 720, "C05-F5", where,
        "header read is f.read(720): image data starts at byte 720 of the trailer",
        f"header read is {short(first)}: the low-resolution images no longer start at byte 720",
        key="trailer:read720", sample={"call": short(first)},
    )
    # the parsed header is that read
    parse_ok = False
    for c in calls_in(fi):
        if isinstance(c.func, ast.Attribute) and c.func.attr == "parse":
            r = repo.resolve_expr(fi, c.func.value)
            if r.kind == "value" and r.name == "file_descriptor_record" and c.args:
                arg = flow.expand(c.args[0])
                parse_ok = norm(arg) == norm(first)
    chk.require(parse_ok, "C05-F5", where, "the trailer descriptor is parsed from exactly those 720 bytes",
                "the trailer descriptor is not parsed from the first read", key="trailer:parse-first")
    # header ends within the bytes read for every image count
    if k is not None:
        worst = end
        if not end.is_const():
            vals = [end.subs({s: n for s in end.symbols()}) for n in range(0, 8)]
            ok_end = all(v.is_const() and v.value() <= k for v in vals)
            desc = f"{end} (<= {k} for 0..7 images)"
        else:
            ok_end = end.value() <= k
            desc = f"{end.value()} for every image count"
        chk.require(ok_end, "C05-F5", where, f"descriptor fields end at byte {desc}, within the {k} bytes read",
                    f"descriptor fields end at {end}, beyond the {k} bytes read", key="trailer:overrun",
                    sample={"end": str(end), "read": k})
        if end.is_const() and end.value() != k:
            chk.note(
                f"trailer descriptor fields sum to {end.value()} bytes, not {k} (the literal 522 over-counts the fixed part, "
                f"which is {end.value() - (lift(0)).value() - 0} incl. padding); harmless because the reader parses a prefix of the 720 bytes it read"
            )
    # second read is unbounded read of the rest, after the first
    rest = [r for r in reads[1:] if not r.args and not r.keywords]
    chk.require(bool(rest), "C05-F5", where, "image data is the rest of the file (f.read()) after the header",
                "no read of the remaining bytes after the header", key="trailer:rest")
    # ranges are the running sum of the declared record lengths: read_sar_trailer is evaluated by the shape interpreter on
    # model trailers (0, 1, 3 and 7 images with distinct lengths) with a recording file object and a recording
    # parse_image_data - image i must be handed exactly data[sum(len[:i]) : sum(len[:i+1])] with its own shape and sample size
    trailer_model(chk, repo, mod, fi, where)


def trailer_model(chk, repo, mod, fi, where):
    from collections import OrderedDict
    from ..shapes import Const, DictS, Fn, Interp, ListLit, Obj, ShapeError, TupS, _Raise
    from ..repeval import from_shape, Undecided
    for lengths in ([], [5], [7, 3, 11], [2, 9, 4, 6, 1, 8, 3]):
        n = len(lengths)
        sizes = [OrderedDict(record_length=l, number_of_pixels=10 + i, number_of_lines=20 + i, number_of_bytes_per_one_sample=(1, 2, 4)[i % 3]) for i, l in enumerate(lengths)]
        data = bytes(range(65, 65 + sum(lengths)))
        reads, parsed = [], []

        def read_impl(I_, args, kwargs):
            size = args[0].v if args and isinstance(args[0], Const) else (None if not args else "?")
            reads.append(size)
            return Const(b"H" * 720) if len(reads) == 1 else Const(data)

        def parse_impl(I_, args, kwargs):
            return Obj("Container", OrderedDict(low_resolution_image_sizes=ListLit([DictS(OrderedDict((k, Const(v)) for k, v in sz.items())) for sz in sizes]),
                                                number_of_low_resolution_images=Const(n)))

        def image_impl(I_, args, kwargs):
            names = ["data", "shape", "n_bytes"]
            got = dict(zip(names, args))
            got.update(kwargs)
            parsed.append(got)
            return TupS([Const("image"), Const(len(parsed) - 1)])
        I = Interp(repo)
        sc = I.module_scope(mod)
        sc.vars["file_descriptor_record"] = Obj("Struct", OrderedDict(parse=Fn("py", impl=parse_impl, name="parse")))
        sc.vars["parse_image_data"] = Fn("py", impl=image_impl, name="parse_image_data")
        f = Obj("File", OrderedDict(read=Fn("py", impl=read_impl, name="read")))
        try:
            out = I.call(I.lookup("read_sar_trailer", sc), [f], {})
            plain = [{k: from_shape(v) for k, v in p.items()} for p in parsed]
        except (ShapeError, _Raise, Undecided, RecursionError) as e:
            raise AnalysisError(f"{where}: cannot be evaluated on a model trailer with {n} image(s) ({str(e)[:120]}); the byte ranges of the images are not decided")
        offs = [sum(lengths[:i]) for i in range(n + 1)]
        want = [{"data": data[offs[i]:offs[i + 1]], "shape": (10 + i, 20 + i), "n_bytes": (1, 2, 4)[i % 3]} for i in range(n)]
        norm_ = lambda ps: [{"data": p.get("data"), "shape": tuple(p["shape"]) if isinstance(p.get("shape"), (list, tuple)) else p.get("shape"), "n_bytes": p.get("n_bytes")} for p in ps]
        got = norm_(plain)
        detail = ""
        if got != want:
            j = next((i for i in range(min(len(got), len(want))) if got[i] != want[i]), min(len(got), len(want)))
            detail = (f"image {j} of {n} (declared lengths {lengths}) is decoded from {got[j]['data']!r} with shape {got[j]['shape']} / {got[j]['n_bytes']} byte(s) per sample, its own bytes are {want[j]['data']!r} "
                      f"with shape {want[j]['shape']} / {want[j]['n_bytes']}" if j < len(got) and j < len(want) else f"{len(got)} image(s) decoded, the descriptor declares {n}")
        chk.require(got == want, "C05-F5", where, f"{n} image(s) of lengths {lengths}: image i is decoded from [sum(len[:i]), sum(len[:i+1])) of the data block with its own shape and sample size",
                    f"low-resolution images are not cut at the running sum of the declared lengths: {detail}", key=f"trailer:ranges:{n}", sample={"lengths": lengths, "images": n})
        second = out.elts[1] if isinstance(out, TupS) and len(out.elts) == 2 else None
        order_ok = isinstance(second, ListLit) and [from_shape(x) for x in second.elts] == [("image", i) for i in range(n)]
        chk.require(order_ok, "C05-F5", where, f"{n} decoded image(s) are returned in the order of their size records",
                    f"the returned images are {second!r:.120}: not one per size record in order", key=f"trailer:order:{n}")


def _enumerate(chk, L):
    """thorough tier: every admissible N concretely (finite domains)"""
    names = L.by_name("leader")
    leaves, end, _ = L.get("leader")
    spans = top_spans(leaves, end)
    cases = 0
    bad = []
    Lsym = "attitude.preamble.record_length"
    s, e = spans["attitude"]
    for Lval in (16384, 136, 256, 1000, 4096):
        for n in range(1, (Lval - 16) // 120 + 1):
            cases += 1
            size = (e - s).subs({Lsym: Lval, "attitude.number_of_points": n})
            pad = names["attitude.blanks"].width.subs({Lsym: Lval, "attitude.number_of_points": n})
            if not (size.is_const() and size.value() == Lval and pad.value() >= 0):
                bad.append(("attitude", Lval, n, str(size), str(pad)))
    s, e = spans["data_quality_summary"]
    for n in range(1, 17):
        cases += 1
        size = (e - s).subs({"data_quality_summary.number_of_channels": n})
        pads = [lf.width.subs({"data_quality_summary.number_of_channels": n}).value()
                for lf in _dynamic_fields(names) if lf.width.symbols() == ["data_quality_summary.number_of_channels"]]
        if not (size.is_const() and size.value() == 1620 and all(p >= 0 for p in pads)):
            bad.append(("data_quality", n, str(size), pads))
    for i in range(1, 5):
        f = f"facility_related_data_{i}"
        s, e = spans[f]
        for Lval in list(range(66, 200)) + [1000, 65536, 325000, 511000, 4370000]:
            cases += 1
            size = (e - s).subs({f"{f}.preamble.record_length": Lval})
            if not (size.is_const() and size.value() == Lval):
                bad.append((f, Lval, str(size)))
    for n in (0, 1):
        cases += 1
        st = spans["platform_position"][0].subs({"file_descriptor.map_projection.number_of_records": n})
        if st.value() != 720 + 4096 + 1620 * n:
            bad.append(("map_projection", n, str(st)))
    vleaves, vend, _ = L.get("volume")
    vspans = top_spans(vleaves, vend)
    for n in range(0, 33):
        cases += 1
        st = vspans["text_record"][0].subs({"volume_descriptor.number_of_file_pointer_records": n})
        if st.value() != 360 + 360 * n:
            bad.append(("file_pointers", n, str(st)))
    tleaves, tend, _ = L.get("trailer")
    tnames = L.by_name("trailer")
    for n in range(0, 8):
        cases += 1
        endn = tend.subs({"number_of_low_resolution_images": n}) if not tend.is_const() else tend
        pads = [lf.width.subs({"number_of_low_resolution_images": n}).value() for lf in _dynamic_fields(tnames)]
        if not (endn.value() <= 720 and all(p >= 0 for p in pads)):
            bad.append(("trailer", n, str(endn), pads))
    chk.rule("C05-ENUM", "thorough: every admissible count/length substituted concretely into the layout polynomials", 100)
    for b in bad:
        chk.fail("C05-ENUM", "layout", f"framing fails for {b}", key=f"enum:{b[0]}")
    for _ in range(cases - len(bad)):
        chk.rules["C05-ENUM"]["instances"] += 1
    chk.obligations.append({"rule": "C05-ENUM", "where": "layout", "what": f"{cases} concrete (record, N, L) cases substituted; {len(bad)} failed", "holds": not bad})
    chk.extra["exhaustive"] = True
    chk.extra["enumerated_cases"] = cases


def stream_movers(chk, repo, L):
    """C05-F11: classes of the package that move the stream themselves (derived from construct.Construct / Subconstruct, a ``_parse``
    that seeks or hands the stream to another construct): on every path through ``_parse`` that returns, the stream is left the same
    number of bytes behind where it was found.  A path that forgets to seek back shifts every field after it"""
    from ..layout import moves_stream_itself, parse_paths
    chk.rule("C05-F11", "a construct class that moves the stream itself leaves it at the same place on every path that returns", 0)
    ev = L.ev

    def is_construct_class(mod, cls, depth=0):
        for b in cls.bases:
            try:
                r = repo.resolve_expr(mod, b)
            except Exception:
                continue
            if r.kind == "external" and r.fq.rsplit(".", 1)[-1] in ("Construct", "Subconstruct") and r.fq.startswith("construct"):
                return True
            if r.kind == "class" and depth < 5 and is_construct_class(r.mod, r.node, depth + 1):
                return True
        return False
    n = 0
    for mod in repo.modules.values():
        if ".tests" in mod.name or mod.name.endswith(".tests"):
            continue
        for cls in [x for x in mod.tree.body if isinstance(x, ast.ClassDef)]:
            parse = next((x for x in cls.body if isinstance(x, ast.FunctionDef) and x.name == "_parse"), None)
            if parse is None or not is_construct_class(mod, cls) or not moves_stream_itself(parse):
                continue
            n += 1
            where = f"{mod.relpath}:{cls.name}._parse"
            exits = [e for e in parse_paths(ev, mod, cls) if e[0] == "return"]
            decided = [e for e in exits if e[2] is not None]
            moves = sorted({e[2] for e in decided})
            if len(moves) > 1:
                by = {m: next(e[1] for e in decided if e[2] == m) for m in moves}
                chk.fail("C05-F11", where, "the stream is left " + ", ".join(f"{m:+d} bytes from where it was found when _parse returns at line {ln}" for m, ln in by.items()) +
                         ": which bytes the following fields are decoded from depends on the path taken", key=f"stream-mover:{cls.name}:paths-disagree")
                continue
            if len(decided) < len(exits):
                ln = next(e[1] for e in exits if e[2] is None)
                raise AnalysisError(f"{where}: where the stream stands when _parse returns at line {ln} is not decided")
            chk.ok("C05-F11", where, f"{len(exits)} returning paths, each leaves the stream {moves[0] if moves else 0:+d} bytes from where it was found")
    chk.count("stream_moving_classes", n)


def reader_classes(chk, repo, L):
    """C05-F10: classes of the package that read their field from the stream themselves (derived from construct.Construct, own
    ``_parse``): ``_parse`` is evaluated (the checker's interpreter) on model streams for every width class the layouts use -
    width 0 (a length-dependent filler is empty for one admissible record length), width 1, a longer field - given as a number and
    as a context function: it consumes exactly that many bytes and returns; a stream that ends inside a non-empty field raises"""
    from collections import OrderedDict
    from ..layout import reader_parse
    from ..shapes import Const, Fn, Interp, NonTermination, ShapeError
    chk.rule("C05-F10", "reader classes of the package consume exactly their declared width - zero included - and raise only when the stream ends inside the field", 0)
    seen = {}
    for key in ("leader", "volume", "signal", "processed", "image_descriptor", "trailer"):
        for lf in L.by_name(key).values():
            for a in lf.chain:
                wp = (a.get("raw_attrs") or {}).get("__width_param__")
                if wp is not None:
                    plain = tuple(sorted((k, repr(v)) for k, v in (a.get("raw_attrs") or {}).items() if not k.startswith("__") and isinstance(v, (int, float, str, bool, bytes, type(None)))))
                    seen.setdefault((a.get("clsmod"), a.get("cls"), wp, plain), (a, f"{key}:{lf.name}"))
    for (modname, cname, wp, plain), (a, used_at) in sorted(seen.items(), key=lambda kv: kv[0][:3]):
        mod, cls = repo.modules.get(modname), a.get("clsnode")
        where = f"{mod.relpath}:{cname}._parse"
        others = OrderedDict((k, Const(v)) for k, v in (a.get("raw_attrs") or {}).items() if not k.startswith("__") and isinstance(v, (int, float, str, bool, bytes, type(None))))
        for k in (0, 1, 6):
            for as_function in (False, True):
                how = "given as a context function" if as_function else "given as a number"
                kw = OrderedDict(others)
                kw[wp] = Fn("py", impl=lambda I_, a_, kw_, k=k: Const(k), name="<context function>") if as_function else Const(k)
                try:
                    st, out, reads, consumed = reader_parse(Interp(repo), mod, cls, kw, b"A" * k + b"zz")
                except (ShapeError, NonTermination, RecursionError) as e:
                    raise AnalysisError(f"{where}: cannot be evaluated on a model stream (width {k} {how}): {str(e)[:120]}")
                ok = st == "returned" and consumed == k
                chk.require(ok, "C05-F10", where, f"a field of width {k} ({how}) followed by other data: returns after consuming {k} bytes",
                            f"a field of width {k} ({how}; {cname} is used at {used_at}) in the middle of a record " + (f"raises {out.what[:70]}" if st == "raised" else f"consumes {consumed} bytes") +
                            (": a length-dependent filler that is empty for one admissible record length makes the whole record undecodable" if k == 0 else ": the fields after it are read from the wrong bytes"),
                            key=f"reader:{cname}:width-{'zero' if k == 0 else 'n'}")
                if k:
                    try:
                        st, out, reads, consumed = reader_parse(Interp(repo), mod, cls, kw, b"A" * (k - 1))
                    except (ShapeError, NonTermination, RecursionError) as e:
                        raise AnalysisError(f"{where}: cannot be evaluated on a short model stream (width {k} {how}): {str(e)[:120]}")
                    chk.require(st == "raised", "C05-F10", where, f"a field of width {k} ({how}) on a stream with {k - 1} bytes left raises",
                                f"a field of width {k} ({how}) on a stream with only {k - 1} bytes left returns {out!r:.40} instead of raising: a truncated record is accepted", key=f"reader:{cname}:short")
