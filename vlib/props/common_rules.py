"""small wiring / helper-contract rules shared by several properties"""
from __future__ import annotations

import ast

from ..core import AnalysisError, const_str, norm, short
from ..dataflow import Flow, calls_in
from ..interproc import resolve_callees, single_return
from ..symexpr import Undecidable, compare_paths, show_paths, summarize, summarize_source

TO_DICT_SPEC = '''
def to_dict(container):
    if isinstance(container, EnumIntegerString):
        return str(container)
    if isinstance(container, (int, float, str, bytes, complex, datetime.datetime)):
        return container
    elif isinstance(container, (list, tuple)):
        if isinstance(container, ListContainer):
            type_ = list
        else:
            type_ = type(container)
        return type_(to_dict(elem) for elem in container)
    return {name: to_dict(section) for name, section in container.items() if name != "_io"}
'''


TYPE_SUPERS = {
    "EnumIntegerString": {"EnumIntegerString", "str"}, "int": {"int"}, "bool": {"bool", "int"}, "float": {"float"}, "str": {"str"}, "bytes": {"bytes"},
    "complex": {"complex"}, "datetime": {"datetime", "date"}, "ListContainer": {"ListContainer", "list"}, "list": {"list"}, "tuple": {"tuple"},
    "Container": {"Container", "dict"}, "dict": {"dict"},
}


def _type_names(t):
    if t[0] == "name":
        return [t[1]]
    if t[0] == "attr":
        return [t[2]]
    if t[0] == "tuple":
        return [n for x in t[1] for n in _type_names(x)]
    raise Undecidable(f"type expression {t!r:.60}")


def _select_by_type(paths, cls, param=("param", 0)):
    """the result term of the path taken for an argument of class ``cls`` (conditions must be isinstance tests on the argument)"""
    from ..symexpr import alpha, lift_conditionals

    def truth(c):
        if c[0] == "not":
            return not truth(c[1])
        if c[0] == "truth":
            return truth(c[1])
        if c[0] == "call" and c[1] == ("name", "isinstance") and len(c[2]) == 2 and c[2][0] == param:
            return bool(set(_type_names(c[2][1])) & TYPE_SUPERS[cls])
        if c[0] in ("and", "or"):
            vals = [truth(x) for x in c[1]]
            return all(vals) if c[0] == "and" else any(vals)
        raise Undecidable(f"condition {c!r:.80} is not a type test on the argument")
    hits = [res for conds, res in lift_conditionals(paths) if all(truth(c) for c in conds)]
    if len(hits) != 1:
        raise Undecidable(f"{len(hits)} paths apply to a {cls}")
    return alpha(hits[0])


def to_dict_contract(chk, repo, rule):
    """utils.to_dict turns parsed Containers into the plain dict/list/tuple shapes the pipelines (and the
    shape inference) assume: enums -> str, ListContainer -> list, tuples (Metadata pairs) stay tuples,
    the '_io' entry is dropped.  Decided per class of argument (the function only dispatches on the argument's type)."""
    from ..symexpr import Canon
    um = repo.module("ceos_alos2.utils")
    fi = um.func("to_dict")
    where = f"{um.relpath}:to_dict"
    # module-level tuples of types used in the tests
    extra = {}
    for name, exprs in um.assigns.items():
        if len(exprs) == 1 and isinstance(exprs[0], ast.Tuple) and all(isinstance(e, (ast.Name, ast.Attribute)) for e in exprs[0].elts):
            extra[name] = Canon({})(exprs[0])
    try:
        _, got = summarize(fi.node, extra_env=extra)
        _, want = summarize_source(TO_DICT_SPEC)
    except Undecidable as e:
        raise AnalysisError(f"{where} outside the decidable fragment: {e}")
    v = compare_paths(got, want)
    if v == "equal":
        chk.ok(rule, where, "to_dict: enums -> str, scalars unchanged, ListContainer -> list, other sequences keep their type (Metadata pairs stay tuples), Containers -> dict without '_io'",
               sample={"normal form": show_paths(got)[:200]})
        return
    # same decision, written differently?  one case per class of argument
    diffs = []
    try:
        for cls in TYPE_SUPERS:
            g, w = _select_by_type(got, cls), _select_by_type(want, cls)
            if g != w:
                diffs.append(f"{cls}: {__import__('vlib.symexpr', fromlist=['show']).show(g)[:80]} instead of {__import__('vlib.symexpr', fromlist=['show']).show(w)[:80]}")
    except Undecidable as e:
        raise AnalysisError(f"{where}: normal form differs in shape from its specification and the per-type case analysis does not apply ({e}); {show_paths(got)[:200]}")
    chk.require(not diffs, rule, where, f"to_dict agrees with its specification for every class of argument ({', '.join(TYPE_SUPERS)})",
                f"to_dict treats {diffs[:3]}: parsed values no longer reach the pipelines in the shape they expect ((value, attrs) pairs / enum names / list containers)",
                key="to_dict:contract", sample={"normal form": show_paths(got)[:200]})


def to_dict_eval(chk, repo, rule):
    """utils.to_dict evaluated (the checker's interpreter) on model parse results: a Container with the `_io` entry construct adds,
    nested Containers, lists of Containers, (value, attrs) pairs, scalars of every kind the adapters produce: dicts without `_io` at
    every depth, lists stay lists, pairs stay tuples (in order), scalars come back unchanged"""
    import datetime
    from collections import OrderedDict
    from ..repeval import from_shape, Undecided
    from ..shapes import Const, DictS, Interp, ListLit, NonTermination, ShapeError, TupS, _Raise
    um = repo.module("ceos_alos2.utils")
    where = f"{um.relpath}:to_dict"
    I = Interp(repo)
    sc = I.module_scope(um)
    dt = datetime.datetime(2016, 2, 29, 23, 59, 59, 999000)
    io = Const("<stream>")
    inner = lambda: DictS(OrderedDict([("_io", io), ("a", Const(1)), ("pair", TupS([Const(2.5), DictS(OrderedDict(units=Const("m")))]))]))

    def LC(elts):
        # what `subcon[count]` parses to: construct's ListContainer, a list subclass
        lst = ListLit(elts)
        lst.pyname, lst.pybases = "ListContainer", ("list",)
        return lst
    model = DictS(OrderedDict([("_io", io), ("n", Const(7)), ("x", Const(1.5)), ("s", Const("text")), ("b", Const(b"raw")), ("z", Const(complex(1, -2))), ("t", Const(dt)),
                               ("sub", inner()), ("items", LC([inner(), inner()])), ("empty", LC([])), ("numbers", LC([Const(1.5), Const(2.5)])), ("pairs", LC([TupS([Const(1), DictS(OrderedDict(units=Const("s")))])])), ("nested", DictS(OrderedDict([("_io", io), ("deep", inner())])))]))
    want_inner = {"a": 1, "pair": (2.5, {"units": "m"})}
    want = {"n": 7, "x": 1.5, "s": "text", "b": b"raw", "z": complex(1, -2), "t": dt, "sub": want_inner, "items": [want_inner, want_inner], "empty": [], "numbers": [1.5, 2.5], "pairs": [(1, {"units": "s"})], "nested": {"deep": want_inner}}
    try:
        got = from_shape(I.call(I.lookup("to_dict", sc), [model], {}))
    except _Raise as e:
        chk.fail(rule, where, f"to_dict raises on a model parse result ({e.what[:80]})", key="to_dict:eval")
        return
    except (ShapeError, NonTermination, RecursionError, Undecided) as e:
        raise AnalysisError(f"{where}: cannot be evaluated on a model parse result: {str(e)[:140]}")

    def typed(v):
        if isinstance(v, dict):
            return ("dict", [(k, typed(x)) for k, x in v.items()])
        if isinstance(v, (list, tuple)):
            return (type(v).__name__, [typed(x) for x in v])
        return (type(v).__name__, v)
    chk.require(typed(got) == typed(want), rule, where, "to_dict on a model parse result: dicts without `_io` at every depth, lists stay lists, (value, attrs) pairs stay tuples, scalars unchanged",
                f"to_dict turns a model parse result into {str(got)[:160]}, expected {str(want)[:120]}: parsed values no longer reach the pipelines in the shape they expect", key="to_dict:eval")


def to_dict_rules(chk, repo, rule):
    """the evaluation decides; the normal-form comparison adds the per-type case analysis where to_dict is written as a dispatch"""
    chk.attempt(to_dict_eval, chk, repo, rule)
    chk.attempt(to_dict_contract, chk, repo, rule, covered_by="to_dict_eval")


def parse_and_transform(chk, repo, rule, modname, struct_name, transform_name, opener):
    """<opener>(mapper, path): data = mapper[path]; metadata = to_dict(<struct>.parse(data)); return <transform>(metadata)"""
    mod = repo.module(modname)
    pd = mod.func("parse_data")
    r = single_return(pd)
    ok = r is not None and norm(r) == f"to_dict({struct_name}.parse({pd.positional_params[0]}))"
    if not ok:
        t = norm(r) if r is not None else ""
        other_struct = ".parse(" in t and struct_name not in t
        no_to_dict = ".parse(" in t and "to_dict(" not in t
        if not (other_struct or no_to_dict):
            raise AnalysisError(f"{mod.relpath}:parse_data is {t[:80]}: not the recognised form to_dict({struct_name}.parse(data)); not decided")
    chk.require(ok, rule, f"{mod.relpath}:parse_data", f"parse_data = to_dict({struct_name}.parse(data))",
                f"parse_data is {short(r, 70) if r is not None else None}: parsed with another struct / without the to_dict conversion", key=f"{modname}:parse_data")
    op = mod.func(opener)
    flow = Flow(op)
    rets = [n for n in op.own_nodes() if isinstance(n, ast.Return)]
    e = flow.expand(rets[0].value) if len(rets) == 1 else None
    txt = norm(e) if e is not None else ""
    ok = txt == f"{transform_name}(parse_data({op.positional_params[0]}[{op.positional_params[1]}]))"
    if not ok:
        if not ("parse_data(" in txt and transform_name not in txt):
            raise AnalysisError(f"{mod.relpath}:{opener} returns {txt[:100]}: not the recognised form {transform_name}(parse_data(mapper[path])); not decided")
    chk.require(ok, rule, f"{mod.relpath}:{opener}", f"{opener} = {transform_name}(parse_data(mapper[path]))",
                f"{opener} returns {txt[:100]}: the parsed records do not go through {transform_name}", key=f"{modname}:{opener}")
    # the names resolve to the intended struct / transform
    rs = repo.resolve_module_name(mod, struct_name)
    rt = repo.resolve_module_name(mod, transform_name)
    chk.require(rs.kind == "value" and rt.kind == "func", rule, f"{mod.relpath}", f"{struct_name} and {transform_name} resolve to the record struct and its transform",
                f"{struct_name}/{transform_name} resolve to {rs.kind}/{rt.kind}", key=f"{modname}:resolution")
    return rs, rt


def opener_eval(chk, repo, rule, modname, transform_name, opener, attrs_cases, names):
    """<opener>(mapper, path) evaluated (the checker's interpreter) with recording stubs: the mapper hands out the file's bytes,
    parse_data gives a marker for those bytes, <transform> gives a group whose attributes hold the text under test.  Whatever
    the attributes hold and whatever the file is called, the opener returns that very group, with those attributes, and does not
    raise: nothing between the transform and the caller looks at the contents"""
    from collections import OrderedDict
    from ..shapes import Const, DictS, Fn, Interp, NonTermination, Obj, ShapeError, _Raise
    mod = repo.module(modname)
    where = f"{mod.relpath}:{opener}"
    chk.rule(rule, f"{opener} returns what {transform_name} built from the parsed bytes of that file, for any field contents and file name (evaluated with recording stubs)", len(attrs_cases) * len(names))
    for name in names:
        for label, attrs in attrs_cases:
            I = Interp(repo)
            sc = I.module_scope(mod)
            seen = {}
            raw = Const(b"raw bytes of " + name.encode())
            parsed = DictS(OrderedDict(marker=Const("parsed")))
            group = Obj("Group", OrderedDict(path=Const("/"), url=Const(None), data=DictS(), attrs=DictS(OrderedDict((k, Const(v)) for k, v in attrs.items()))))

            def getitem(I_, a, kw):
                seen.setdefault("keys", []).append(a[0].v if isinstance(a[0], Const) else repr(a[0]))
                return raw

            def parse_data(I_, a, kw):
                seen["parsed_from"] = a[0] if a else None
                return parsed

            def transform(I_, a, kw):
                seen["transformed"] = a[0] if a else None
                return group
            mapper = Obj("Mapper", OrderedDict(root=Const("memory://product"), __getitem__=Fn("py", impl=getitem, name="__getitem__"),
                                               __contains__=Fn("py", impl=lambda I_, a, kw: Const(True), name="__contains__")))
            mapper.fields["get"] = Fn("py", impl=lambda I_, a, kw: getitem(I_, a[:1], {}), name="get")
            sc.vars["parse_data"] = Fn("py", impl=parse_data, name="parse_data")
            sc.vars[transform_name] = Fn("py", impl=transform, name=transform_name)
            sit = f"file {name!r}, fields {label}"
            try:
                out = I.call(I.lookup(opener, sc), [mapper, Const(name)], {})
            except _Raise as e:
                if "transformed" not in seen:
                    raise AnalysisError(f"{where}: raises before {transform_name} is reached with recording stubs ({sit}: {e.what[:80]}); the opener is not in a form the stubs fit, not decided")
                chk.fail(rule, where, f"{sit}: {opener} raises {e.what[:90]} although the file is there and parses: the result depends on what the text fields hold", key=f"{opener}:eval:raises")
                continue
            except (ShapeError, NonTermination, RecursionError) as e:
                raise AnalysisError(f"{where}: cannot be evaluated with recording stubs ({sit}): {str(e)[:140]}")
            if seen.get("parsed_from") is not raw or seen.get("transformed") is not parsed:
                raise AnalysisError(f"{where}: parse_data / {transform_name} are not reached as module-level collaborators ({sit}); the opener is not in a form the stubs fit, not decided")
            ok = out is group and seen.get("keys") == [name]
            now = {k: (v.v if isinstance(v, Const) else repr(v)) for k, v in group.fields["attrs"].items.items()} if isinstance(group.fields.get("attrs"), DictS) else None
            chk.require(ok and now == attrs, rule, where, f"{sit}: the group built from the file's parsed bytes is returned unchanged",
                        f"{sit}: {opener} " + ("does not return the group the transform built" if out is not group else f"reads {seen.get('keys')}" if seen.get("keys") != [name] else
                                                "does not transform the parsed bytes of that file" if not ok else f"changes the attributes to {str(now)[:100]}"), key=f"{opener}:eval:passthrough")


def record_type_dispatch(chk, repo, rule):
    """sar_image.io: record type 10 -> signal data record, 11 -> processed data record; preamble is the first 12 bytes"""
    io = repo.module("ceos_alos2.sar_image.io")
    from ..interproc import dict_entries
    e = io.assigns.get("record_types")
    entries = dict_entries(repo, io, e[-1]) if e else None
    if not entries:
        raise AnalysisError("anchor vanished: sar_image.io.record_types")
    got = {}
    for k, v in entries.items():
        r = repo.resolve_expr(io, v)
        got[k] = (r.mod.name, r.name) if r.kind == "value" else norm(v)
    want = {10: ("ceos_alos2.sar_image.signal_data", "signal_data_record"), 11: ("ceos_alos2.sar_image.processed_data", "processed_data_record")}
    chk.require(got == want, rule, f"{io.relpath}:record_types", "record type 10 -> signal_data_record, 11 -> processed_data_record",
                f"record type dispatch is {got}", key="record_types", sample={"table": {k: v[1] if isinstance(v, tuple) else v for k, v in got.items()}})
    pc = io.func("parse_chunk")
    txt = " ".join(norm(s) for s in pc.node.body)
    ok = "record_preamble.parse(content[:12]).record_type" in txt and "record_types.get(record_type)" in txt and "data_record[n_elements]" in txt and "parser.parse(content)" in txt
    if not ok:
        raise AnalysisError(f"{io.relpath}:parse_chunk: dispatch on the preamble's record type is not in the recognised form; not decided")
    chk.ok(rule, f"{io.relpath}:parse_chunk", "the record type is read from the 12-byte preamble of the chunk and selects the struct repeated n_elements times")


def variable_conversion(chk, repo, rule):
    """xarray.to_variable passes dims, data and attrs of the hierarchy Variable through unchanged"""
    xm = repo.module("ceos_alos2.xarray")
    tv = xm.func("to_variable")
    rets = [n for n in tv.own_nodes() if isinstance(n, ast.Return)]
    ok = False
    detail = ""
    if len(rets) == 1 and isinstance(rets[0].value, ast.Call):
        c = rets[0].value
        a = [norm(x) for x in c.args]
        detail = norm(c)[:100]
        ok = norm(c.func) in ("xr.Variable", "xarray.Variable") and a[:3] == ["var.dims", "data", "var.attrs"]
    if not ok and not (len(rets) == 1 and isinstance(rets[0].value, ast.Call) and norm(rets[0].value.func) in ("xr.Variable", "xarray.Variable") and sorted(a[:3]) == sorted(["var.dims", "data", "var.attrs"])):
        raise AnalysisError(f"{xm.relpath}:to_variable builds {detail}: not the recognised form; not decided")
    chk.require(ok, rule, f"{xm.relpath}:to_variable", "xr.Variable(var.dims, data, var.attrs, encoding=...)", f"to_variable builds {detail}: dims/data/attrs are passed in the wrong positions", key="to_variable:passthrough")
    # non-Array data passes through as is; Array data is wrapped lazily
    txt = " ".join(norm(s) for s in tv.node.body)
    ok2 = "isinstance(var.data, Array)" in txt and "LazilyIndexedWrapper(var.data, lock)" in txt and "data = var.data" in txt
    if not ok2:
        raise AnalysisError(f"{xm.relpath}:to_variable: lazy wrapping of Array data is not in the recognised form; not decided")
    chk.ok(rule, f"{xm.relpath}:to_variable", "Array data is wrapped lazily, other data passes through")


def spec_compare(chk, rule, fi, spec, good, bad, key):
    """three-way comparison of a function's normal form with a specification written as Python:
    equal -> holds; same constructor skeleton, different scalar content -> violation; different shape -> analysis error"""
    where = f"{fi.module.relpath}:{fi.qualname}"
    try:
        _, got = summarize(fi.node)
        _, want = summarize_source(spec)
    except Undecidable as e:
        raise AnalysisError(f"{where} is outside the decidable fragment: {e}")
    v = compare_paths(got, want)
    if v == "incomparable":
        raise AnalysisError(f"{where}: normal form {show_paths(got)[:200]} differs in shape from its specification; equivalence not decided")
    return chk.require(v == "equal", rule, where, good, f"{bad}: {show_paths(got)[:200]}", key=key)


CONSTRUCT_BASES = {"Construct", "Adapter", "Subconstruct", "SymmetricAdapter", "Validator", "Tunnel"}
PARSE_METHODS = ("_parse", "_decode", "_sizeof", "_actualsize", "_build", "_encode")


def stateless_constructs(chk, repo, rule):
    """the record layouts are module-level singletons shared by every file parsed in the process: a construct class of the
    package must not store anything on itself while parsing / decoding / sizing, or what one file (or record) left behind
    decides how the next one is read"""
    from ..effects import stores
    chk.rule(rule, "construct classes of the package are stateless: parsing never stores on the (shared, module-level) construct", 8)

    def is_construct(mod, cls, depth=0):
        for b in cls.bases:
            r = repo.resolve_expr(mod, b)
            if r.kind == "external" and r.fq.split(".")[0] == "construct" and r.fq.split(".")[-1][:1].isupper():
                return True
            if r.kind == "class" and depth < 5 and is_construct(r.mod, r.node, depth + 1):
                return True
        return False

    n = 0
    for mod in repo.modules.values():
        if mod.name.endswith(".testing"):
            continue
        for q, cls in mod.classes.items():
            if not is_construct(mod, cls):
                continue
            for m in PARSE_METHODS:
                fi = mod.funcs.get(f"{q}.{m}")
                if fi is None:
                    continue
                n += 1
                flow = Flow(fi)
                per_call = set(fi.params) - {"self"}
                bad = []
                for kind, root, target, node in stores(repo, fi):
                    if root != "self":
                        continue
                    val = getattr(node, "value", None)
                    deps = flow.deps(val) if isinstance(val, ast.AST) else per_call
                    if kind == "mutate" and isinstance(node, ast.Call):
                        deps = set().union(*[flow.deps(a) for a in node.args]) if node.args else set()
                    if deps & per_call:
                        bad.append(short(node, 60))  # what is kept depends on the record being parsed

                chk.require(not bad, rule, f"{mod.relpath}:{q}.{m}", f"{q}.{m} stores nothing on the construct",
                            f"{q}.{m} stores on the construct itself ({bad[:2]}): the struct is a module-level object, so the value computed for one record / file is reused for every later one "
                            f"(sizes, reference dates) - later records are decoded with the first one's state", key=f"{mod.name}:{q}.{m}:stateful")
    if n == 0:
        raise AnalysisError("anchor vanished: no construct subclass with parse methods in the package")
    # ... nor in what all records of one parse call share: the context's `_params` (parse-wide), `_root` and `_` (enclosing
    # structs).  Its own context entries are per record; these are not.
    SHARED = ("_params", "_root", "_", "_parsing", "_index")
    for mod in repo.modules.values():
        if mod.name.endswith(".testing"):
            continue
        for q, cls in mod.classes.items():
            if not is_construct(mod, cls):
                continue
            for st in cls.body:
                if not isinstance(st, ast.FunctionDef):
                    continue
                fi = mod.funcs.get(f"{q}.{st.name}")
                if fi is None:
                    continue
                ctx_params = [p_ for p_ in fi.params if p_ in ("context", "ctx")]
                if not ctx_params:
                    continue

                def shared_path(e, aliases):
                    """does the access path ``e`` lead into a part of the context that outlives the record?"""
                    cur = e
                    through = False
                    while isinstance(cur, (ast.Attribute, ast.Subscript, ast.Call)):
                        if isinstance(cur, ast.Call):
                            # context.get("_params") / context.get("_params", {}) / getattr(context, "_params")
                            f_ = cur.func
                            if isinstance(f_, ast.Attribute) and f_.attr in ("get", "__getitem__", "setdefault") and cur.args and isinstance(cur.args[0], ast.Constant) and cur.args[0].value in SHARED:
                                through = True
                                cur = f_.value
                                continue
                            if isinstance(f_, ast.Name) and f_.id == "getattr" and len(cur.args) >= 2 and isinstance(cur.args[1], ast.Constant) and cur.args[1].value in SHARED:
                                through = True
                                cur = cur.args[0]
                                continue
                            break
                        if isinstance(cur, ast.Attribute) and cur.attr in SHARED:
                            through = True
                        if isinstance(cur, ast.Subscript) and isinstance(cur.slice, ast.Constant) and cur.slice.value in SHARED:
                            through = True
                        cur = cur.value
                    if isinstance(cur, ast.Name):
                        if cur.id in aliases:
                            return True
                        if cur.id in ctx_params:
                            return through
                    return False
                aliases = set()
                changed = True
                while changed:
                    changed = False
                    for n_ in fi.own_nodes():
                        if isinstance(n_, ast.Assign) and len(n_.targets) == 1 and isinstance(n_.targets[0], ast.Name) and n_.targets[0].id not in aliases and shared_path(n_.value, aliases):
                            aliases.add(n_.targets[0].id)
                            changed = True
                bad = []
                for kind, root, target, node in stores(repo, fi):
                    if kind == "global_store" or isinstance(target, ast.Name):
                        continue
                    # the object that is changed: x in `x.a = v`, `x[k] = v`, `x.update(..)`
                    container = target.value if isinstance(target, (ast.Attribute, ast.Subscript)) else target
                    if shared_path(container, aliases) or (isinstance(container, ast.Name) and container.id in aliases):
                        bad.append(short(node, 60))
                chk.require(not bad, rule, f"{mod.relpath}:{q}.{st.name}", f"{q}.{st.name} keeps nothing in the parse-wide part of the context",
                            f"{q}.{st.name} stores into the part of the parse context that all records of one parse call share ({bad[:2]}): what the first record of a request leaves there "
                            f"is used for every later record of that request, so the result depends on how many records are parsed at once (records_per_chunk)", key=f"{mod.name}:{q}.{st.name}:context-state")



SNIFFING = {"Optional", "Select", "GreedyRange", "GreedyBytes", "GreedyString", "Peek", "RepeatUntil", "NullTerminated", "CString", "StopIf"}


def declared_multiplicities(chk, L, rule, keys):
    """the number of repeated / optional records is what the file declares, never what the following bytes happen to look
    like: a layout that contains a content-sniffing construct (GreedyRange, Optional, Select, RepeatUntil, Peek ...) takes
    as many records as *parse*, so a record that follows and happens to parse is swallowed.
    -> keys whose layout could be evaluated"""
    from ..layout import UnmodelledConstruct
    chk.rule(rule, "repeated and optional records are delimited by declared counts / lengths, not by sniffing the content", len(keys))
    good = []
    for key in keys:
        try:
            L.get(key)
        except UnmodelledConstruct as e:
            if e.name in SNIFFING:
                chk.fail(rule, key, f"construct.{e.name} in the {key} layout: how many records are taken depends on whether the following bytes happen to parse, not on the declared count - "
                                    f"a record that follows (and parses) is swallowed, a blank one ends the sequence early; everything after it is decoded from the wrong bytes", key=f"{key}:{e.name}:sniffing")
                continue
            if e.name == "Pointer" and getattr(e, "from_end", False):
                chk.fail(rule, key, f"construct.Pointer with a negative offset in the {key} layout: the record is read at a position counted from the END of the bytes that were received, "
                                    f"not where the preceding records end - when the file is cut short (or records are missing) other bytes are decoded instead of the parse failing", key=f"{key}:Pointer:from-end")
                continue
            raise
        chk.ok(rule, key, "no content-sniffing construct in the layout")
        good.append(key)
    return good



def parse_chunk_run(repo, code, nbytes, L=24):
    """parse_chunk evaluated on one model block of ``nbytes`` bytes whose preamble says record type ``code`` (record length L):
    -> (("ok", records) | ("raise", classes, what), what the stubs saw)"""
    from collections import OrderedDict
    from ..shapes import Const, DictS, Fn, Interp, ListLit, Obj, ShapeError, _Raise
    io = repo.module("ceos_alos2.sar_image.io")
    where = f"{io.relpath}:parse_chunk"
    I = Interp(repo)
    sc = I.module_scope(io)
    seen = {}

    def pre(I_, a, kw):
        b = a[0]
        seen["preamble_from"] = b.v if isinstance(b, Const) else None
        if not isinstance(b, Const) or len(b.v) < 12:
            raise _Raise("StreamError: preamble", ["StreamError", "ConstructError", "Exception", "BaseException", "object"])
        return Obj("Container", OrderedDict(record_type=Const(code)))
    sc.vars["record_preamble"] = Obj("Struct", OrderedDict(parse=Fn("py", impl=pre, name="parse")))

    def struct(tag):
        def rep(I_, a, kw):
            n = a[0].v if isinstance(a[0], Const) else None

            def parse(I2, a2, k2):
                seen["parsed"] = (tag, n, len(a2[0].v) if isinstance(a2[0], Const) else None)
                return ListLit([Const((tag, i)) for i in range(n or 0)])
            return Obj("Struct", OrderedDict(parse=Fn("py", impl=parse, name="parse")))
        return Obj("Struct", OrderedDict(__getitem__=Fn("py", impl=rep, name="__getitem__")))
    # the table itself is the repository's (however it is built): only the line-record structs it names are replaced
    structs = 0
    for name in list(io.imports) + list(io.assigns):
        r = repo.resolve_module_name(io, name)
        if r.kind == "value" and r.mod is not io and r.mod.name in ("ceos_alos2.sar_image.signal_data", "ceos_alos2.sar_image.processed_data") and r.name.endswith("_record"):
            sc.vars[name] = struct(r.name)
            structs += 1
    if structs < 2:
        raise AnalysisError("anchor vanished: the line-record structs imported by sar_image.io")
    try:
        table = I.resolve_global(io, "record_types")
    except (ShapeError, _Raise) as ex:
        raise AnalysisError(f"sar_image.io.record_types cannot be evaluated: {ex}")
    if not isinstance(table, DictS) or not table.items:
        raise AnalysisError(f"anchor vanished: sar_image.io.record_types is {table!r:.60}")
    block = bytes(range(256))[:nbytes] if nbytes <= 256 else bytes(nbytes)
    try:
        out = I.call(I.lookup("parse_chunk", sc), [Const(block), Const(L)], {})
    except _Raise as ex:
        return ("raise", ex.classes, ex.what), seen
    except ShapeError as ex:
        raise AnalysisError(f"{where}: cannot be evaluated on a model block: {ex}")
    return ("ok", [x.v for x in out.elts] if isinstance(out, ListLit) else repr(out)), seen


def record_dispatch_eval(chk, repo, rule):
    """parse_chunk evaluated on model blocks (construct replaced by stubs that follow its contract, see vlib/tracemodel.py): the
    record type read from the preamble selects the struct (10 -> signal, 11 -> processed), the struct is repeated
    len(block) / record length times and parses the whole block; an unknown type and a block that is not a whole number
    of records raise ValueError"""
    io = repo.module("ceos_alos2.sar_image.io")
    where = f"{io.relpath}:parse_chunk"
    L = 24

    def run(code, nbytes):
        return parse_chunk_run(repo, code, nbytes, L)

    for code, want in ((10, "signal_data_record"), (11, "processed_data_record")):
        for n in (1, 3):
            res, seen = run(code, n * L)
            ok = res[0] == "ok" and res[1] == [(want, i) for i in range(n)] and seen.get("parsed") == (want, n, n * L) and seen.get("preamble_from") is not None and len(seen["preamble_from"]) >= 12
            chk.require(ok, rule, where, f"record type {code}: {n} x {want} parsed from the whole block",
                        f"a block of {n} records of type {code} is parsed as {res[1] if res[0] == 'ok' else res[2]!r:.80} (struct / multiplicity / bytes: {seen.get('parsed')}), expected {n} x {want} from all {n * L} bytes",
                        key=f"parse_chunk:dispatch:{code}")
    res, _ = run(99, 2 * L)
    chk.require(res[0] == "raise" and res[1] is not None and "ValueError" in res[1], rule, where, "an unknown record type raises ValueError",
                f"a block with record type 99 gives {res!r:.100} instead of ValueError", key="parse_chunk:unknown-type")
    res, _ = run(10, 2 * L + 5)
    chk.require(res[0] == "raise", rule, where, "a block that is not a whole number of records raises", f"a block of {2 * L + 5} bytes (record length {L}) is accepted: {res!r:.80}", key="parse_chunk:partial-record")


def variable_conversion_eval(chk, repo, rule):
    """xarray.to_variable evaluated on model hierarchy Variables: dims, data and attrs reach xr.Variable in their own positions;
    Array data is wrapped lazily (LazilyIndexedArray(LazilyIndexedWrapper(array, lock))), other data passes through"""
    from collections import OrderedDict
    from ..shapes import Const, DictS, Fn, Interp, ListLit, Obj, ShapeError, Top, _Raise
    xm = repo.module("ceos_alos2.xarray")
    where = f"{xm.relpath}:to_variable"
    for kind in ("plain", "array"):
        I = Interp(repo)
        sc = I.module_scope(xm)
        got = {}

        def xrvar(I_, a, kw):
            names = ["dims", "data", "attrs", "encoding", "fastpath"]
            got.update(dict(zip(names, a)))
            got.update(kw)
            return Obj("xrVariable", OrderedDict())
        sc.vars["xr"] = Obj("xarray", OrderedDict(Variable=Fn("py", impl=xrvar, name="xr.Variable")))
        sc.vars["SerializableLock"] = Fn("py", impl=lambda I_, a, k: Obj("SerializableLock", OrderedDict()), name="SerializableLock")
        sc.vars["indexing"] = Obj("indexing", OrderedDict(LazilyIndexedArray=Fn("py", impl=lambda I_, a, k: Obj("LazilyIndexedArray", OrderedDict(array=a[0])), name="LazilyIndexedArray")))
        sc.vars["LazilyIndexedWrapper"] = Fn("py", impl=lambda I_, a, k: Obj("LazilyIndexedWrapper", OrderedDict(array=a[0] if a else k.get("array"), lock=a[1] if len(a) > 1 else k.get("lock"))), name="LazilyIndexedWrapper")
        sc.vars["extract_encoding"] = Fn("py", impl=lambda I_, a, k: DictS({"marker": Const("encoding-of-var")}), name="extract_encoding")
        arr_cls = repo.resolve_module_name(xm, "Array")
        data = Obj("Array", OrderedDict(shape=Const((3, 4)), dtype=Const("uint16")), klass=(arr_cls.mod, arr_cls.node) if arr_cls.kind == "class" else None) if kind == "array" else ListLit([Const(1), Const(2)])
        var_cls = repo.resolve_module_name(repo.module("ceos_alos2.hierarchy"), "Variable")
        var = Obj("Variable", OrderedDict(dims=ListLit([Const("rows")]), data=data, attrs=DictS({"units": Const("m")})), klass=(var_cls.mod, var_cls.node) if var_cls.kind == "class" else None)
        try:
            I.call(I.lookup("to_variable", sc), [var], {})
        except (ShapeError, _Raise) as e:
            raise AnalysisError(f"{where}: cannot be evaluated on a model variable ({kind} data): {e}")
        ok = got.get("dims") is var.fields["dims"] and got.get("attrs") is var.fields["attrs"]
        chk.require(ok, rule, where, f"{kind} data: dims and attrs of the hierarchy Variable reach xr.Variable in their own positions",
                    f"{kind} data: xr.Variable receives dims={got.get('dims')!r:.40}, attrs={got.get('attrs')!r:.40}: not the Variable's own dims / attrs", key=f"to_variable:passthrough:{kind}")
        d = got.get("data")
        if kind == "plain":
            chk.require(d is data, rule, where, "non-Array data passes through as is", f"non-Array data reaches xr.Variable as {d!r:.60}", key="to_variable:plain")
        else:
            inner = d.fields.get("array") if isinstance(d, Obj) and d.cls == "LazilyIndexedArray" else None
            ok2 = isinstance(inner, Obj) and inner.cls == "LazilyIndexedWrapper" and inner.fields.get("array") is data  # which lock (if any) is C19's business
            chk.require(ok2, rule, where, "Array data is wrapped as LazilyIndexedArray(LazilyIndexedWrapper(array, ...))",
                        f"Array data reaches xr.Variable as {d!r:.80}: not the lazily indexed wrapper around the variable's own array", key="to_variable:lazy")


MODEL_PRODUCTS = {
    # type code: (bits per sample, samples per data group (pixel), bytes per data group)
    "IU2": (16, 1, 2),
    "C*8": (32, 2, 8),
}


def array_metadata_on_model(repo, L, code, n_declared=6, n_parsed=4, pixels=5):
    """sar_image.metadata.transform_metadata evaluated on a model descriptor of product kind ``code`` (every field of the layout
    present: the ones the format defines for this kind filled consistently, all others blank: -1 / '') and ``n_parsed`` line
    records whose sample areas are exactly pixels x bytes-per-pixel long, with the per-line and attribute conversions stubbed.
    -> {"shape": (..), "byte_ranges": [(..)], "type_code": .., "dtype": .., "want_ranges": [(..)]} or None when the evaluation does
    not get there"""
    from collections import OrderedDict
    from ..shapes import Const, DictS, Fn, Interp, ListLit, Obj, ShapeError, TupS, _Raise
    md = repo.module("ceos_alos2.sar_image.metadata")
    bits, samples, nbytes = MODEL_PRODUCTS[code]
    known = {"sample_group_data.bit_length_per_sample": bits, "sample_group_data.number_of_samples_per_data_group": samples, "sample_group_data.number_of_bytes_per_data_group": nbytes,
             "sar_related_data_in_the_record.number_of_lines_per_dataset": n_declared, "sar_related_data_in_the_record.number_of_data_groups_per_line": pixels,
             "sar_related_data_in_the_record.number_of_sar_data_per_record": 1, "prefix_suffix_data_locators.sar_data_format_type_code": code,
             "number_of_sar_data_records": n_declared, "sar_data_record_length": 544 + pixels * nbytes}
    header = DictS()
    for name, lf in L.by_name("image_descriptor").items():
        if lf.kind != "field":
            continue
        classes = [a.get("cls") for a in lf.chain]
        if name in known:
            v = known[name]
        elif "AsciiInteger" in classes:
            v = -1
        elif "AsciiFloat" in classes:
            v = float("nan")
        elif lf.base in ("PaddedString",) or "PaddedString" in classes:
            v = ""
        else:
            v = b""
        cur = header
        parts = name.split(".")
        for p_ in parts[:-1]:
            cur = cur.items.setdefault(p_, DictS())
        cur.items[parts[-1]] = Const(v)
    I = Interp(repo)
    sc = I.module_scope(md)
    group = Obj("Group", OrderedDict(path=Const("/"), url=Const(None), data=DictS(), attrs=DictS()))
    sc.vars["transform_line_metadata"] = Fn("py", impl=lambda I_, a, kw: group, name="transform_line_metadata")
    sc.vars["extract_attrs"] = Fn("py", impl=lambda I_, a, kw: DictS(), name="extract_attrs")
    want = [(720 + i * (544 + pixels * nbytes) + 544, 720 + (i + 1) * (544 + pixels * nbytes)) for i in range(n_parsed)]
    records = ListLit([DictS(OrderedDict(record_start=Const(a - 544), data=DictS(OrderedDict(start=Const(a), stop=Const(b))))) for a, b in want])
    try:
        out = I.call(I.resolve_global(md, "transform_metadata"), [header, records], {})
    except (_Raise, ShapeError, RecursionError):
        return None
    if not (isinstance(out, TupS) and len(out.elts) == 2 and isinstance(out.elts[1], DictS)):
        return None
    am = out.elts[1]

    def plain(v):
        if isinstance(v, Const):
            return tuple(v.v) if isinstance(v.v, list) else v.v
        if isinstance(v, (TupS, ListLit)):
            xs = [plain(x) for x in v.elts]
            return None if any(x is None and not (isinstance(e, Const) and e.v is None) for x, e in zip(xs, v.elts)) else (tuple(xs) if isinstance(v, TupS) else xs)
        return None
    res = {k: plain(am.items.get(k)) for k in ("shape", "byte_ranges", "type_code")}
    res["want_ranges"] = want
    res["want_shape"] = (n_declared, pixels)
    return res
