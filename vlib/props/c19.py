"""C19 -- concurrent reads are safe (race-freedom by confinement)"""
from __future__ import annotations

import ast

from .. import effects
from ..callgraph import CallGraph
from ..core import AnalysisError, norm, parents, short
from ..dataflow import Flow, calls_in
from ..interproc import bind_args, dataclass_fields, resolve_callees

LEVEL = "other"

GETITEM = "ceos_alos2.array:Array.__getitem__"
WRAPPER = "ceos_alos2.xarray:LazilyIndexedWrapper"
UNPICKLABLE_LOCKS = {"threading.Lock", "threading.RLock", "threading.Condition", "threading.Semaphore", "_thread.allocate_lock",
                     "multiprocessing.Lock", "asyncio.Lock"}


UNPICKLABLE_OBJECTS = {"types.MappingProxyType", "weakref.ref", "weakref.proxy", "weakref.WeakValueDictionary", "weakref.WeakKeyDictionary", "builtins.open", "builtins.iter", "builtins.memoryview",
                       "mmap.mmap", "io.BufferedReader", "itertools.count", "itertools.cycle", "functools.lru_cache", "functools.cache", "contextvars.ContextVar", "threading.local", "socket.socket"}


def run(chk, repo):
    g = CallGraph(repo)
    chk.explanation = (
        "Race freedom is decided by confinement: the handle returned by fs.open in a load is bound only by "
        "`with ... as f`, flows only into read_chunk (which uses it for seek/read and lets it go), and is never "
        "stored, returned or captured; nothing reachable from a load stores into self, into a parameter or into a "
        "global, so all state shared between threads and pickled copies is read-only after construction. Any lock kept "
        "in the tree must be picklable and acquisitions must not nest. With that, each load is a function of immutable "
        "data and its private handle; interleavings cannot be observed. The lock itself is not required."
    )
    chk.trusted = ["fsspec's open() is thread-safe and returns an independent handle per call", "xarray's SerializableLock pickles"]
    chk.rule("C19-T1", "the file handle of a load is confined to the with-block and to read_chunk", 2)
    chk.rule("C19-T2", "nothing reachable from a load writes shared state; Array attributes are assigned only during construction", 2)
    chk.rule("C19-T3", "locks stored in the tree are picklable; no nested acquisition", 2)
    chk.rule("C19-T5", "every explicit lock.acquire() is released on all exits (try/finally); `with lock:` is the accepted idiom", 0)
    chk.rule("C19-T4", "no unpicklable member (lambda, handle, thread lock) is stored in Array / LazilyIndexedWrapper", 2)
    mod = repo.module("ceos_alos2.array")
    gi = mod.func("Array.__getitem__")
    where = f"{mod.relpath}:Array.__getitem__"
    chk.attempt(_t1, chk, repo, g, mod, gi, where)
    chk.attempt(_t2, chk, repo, g, mod)
    chk.attempt(_t34, chk, repo, g)
    chk.attempt(locked_loads, chk, repo)
    chk.attempt(one_lock_per_image, chk, repo)
    chk.count("functions", len(g.funcs))


def _t1(chk, repo, g, mod, gi, where):
    # ------------------------------------------------------------ T1
    # a stored context manager entered by every load (with self.<x> as f) carries its enter/exit state on a shared object
    shared_cm = []
    for k in sorted(g.reachable([GETITEM])):
        fi2 = g.funcs[k]
        for n in fi2.own_nodes():
            if isinstance(n, (ast.With, ast.AsyncWith)):
                for it in n.items:
                    e = it.context_expr
                    txt = norm(e)
                    if isinstance(e, ast.Attribute) and txt.startswith("self.") and "lock" not in txt.lower() and it.optional_vars is not None:
                        shared_cm.append(f"{fi2.qualname}: with {txt} as {norm(it.optional_vars)}")
    chk.require(not shared_cm, "C19-T1", where, "every load enters a context manager created for that load (no `with self.<stored object> as f`)",
                f"a load enters a context manager stored on the shared Array ({shared_cm[:2]}): what __enter__ / __exit__ keep on that object (the open handles of an fsspec OpenFile) is shared by all "
                f"concurrent loads - one load's exit closes the handle another load is reading from", key="shared-context-manager")
    opens = [e for e in effects.scan(repo, gi) if "open" in e.detail]
    if not opens:
        # the open moved into a helper: where does the handle live?
        helper_opens = []
        for k in sorted(g.reachable([GETITEM])):
            fi2 = g.funcs[k]
            for e in effects.scan(repo, fi2):
                if "open" in e.detail:
                    helper_opens.append((fi2, e))
        if not helper_opens and shared_cm:
            return  # reported above
        if not helper_opens:
            raise AnalysisError("anchor vanished: no fs.open reachable from Array.__getitem__")
        for fi2, e in helper_opens:
            shared = []
            for kind, root, target, node in effects.stores(repo, fi2):
                v = getattr(node, "value", None)
                involves = v is not None and (any(x is e.node for x in ast.walk(v)) or any(isinstance(x, ast.Name) and x.id in {n for n, ent in fi2.local_bindings().items() for kk, vv in ent if kk == "assign" and isinstance(vv, ast.AST) and any(y is e.node for y in ast.walk(vv))} for x in ast.walk(v)))
                if kind in ("item_store", "attr_store") and involves and (root == "self" or root in fi2.params or (root not in fi2.local_bindings())):
                    shared.append(short(node, 60))
            chk.require(not shared, "C19-T1", f"{fi2.module.relpath}:{fi2.qualname}", f"{short(e.node, 40)} hands a fresh handle to its caller",
                        f"the handle opened by {short(e.node, 40)} is kept in shared state ({shared[:2]}): concurrent loads (other variables, other threads) seek/read/close one another's handle",
                        key="handle-cached-shared")
        opens = []
    for o in opens:
        item = getattr(o.node, "_parent", None)
        if not isinstance(item, ast.withitem) or not isinstance(item.optional_vars, ast.Name):
            chk.fail("C19-T1", where, f"{short(o.node, 50)} is not bound by `with ... as f`: the handle outlives the load or is shared", key="getitem:handle-binding")
            continue
        h = item.optional_vars.id
        leaks = handle_leaks(repo, gi, h, set())
        chk.require(not leaks, "C19-T1", where, f"handle `{h}` is used only as an argument of read_chunk (seek/read) inside the with-block",
                    f"handle `{h}` escapes: {leaks[:3]}", key="getitem:handle-confinement", sample={"handle": h, "uses": handle_uses(gi, h)})
    # handles cached on self anywhere in Array / wrapper?
    cached = []
    for q, fi in list(mod.funcs.items()) + list(repo.module("ceos_alos2.xarray").funcs.items()):
        for kind, root, target, node in effects.stores(repo, fi):
            if kind == "attr_store" and root == "self":
                v = getattr(node, "value", None)
                if v is not None and any(isinstance(c, ast.Call) and isinstance(c.func, ast.Attribute) and c.func.attr == "open" for c in ast.walk(v)):
                    cached.append(f"{fi.qualname}: {short(node, 60)}")
    chk.require(not cached, "C19-T1", "Array / LazilyIndexedWrapper", "no open file handle is stored on an object",
                f"an open handle is stored on a shared object: {cached}", key="handle-cached-on-self")


def _t2(chk, repo, g, mod):
    # ------------------------------------------------------------ T2
    reach = g.reachable([GETITEM, repo.func(f"{WRAPPER}.__getitem__").key, repo.func(f"{WRAPPER}._raw_indexing_method").key])
    bad = []
    for k in sorted(reach):
        fi = g.funcs[k]
        for kind, root, target, node in effects.stores(repo, fi):
            if kind == "global_store":
                bad.append(f"{fi.qualname}: {short(node, 50)}")
            elif root == "self" or (root in fi.params and kind in ("attr_store", "item_store", "mutate")):
                # a parameter that is a fresh local container in every caller is still shared in principle
                bad.append(f"{fi.qualname}: {short(node, 50)}")
            elif root is not None and root not in fi.params and root not in fi.local_bindings():
                r = repo.resolve_name(fi, root)
                if r.kind in ("value", "module", "class"):
                    bad.append(f"{fi.qualname}: {short(node, 50)} (module-level {root})")
        for d in effects.memo_decorators(fi):
            bad.append(f"{fi.qualname}: @{d}")
    # dunder comparison helpers are reachable by name only; stores there would be reported all the same
    chk.require(not bad, "C19-T2", "load path", f"{len(reach)} functions reachable from a load: no store to self, to a parameter's state, or to a global",
                f"shared state is written during a load: {bad[:3]}", key="load:shared-writes", sample={"functions": len(reach)})
    arr = mod.classes.get("Array")
    late = []
    for q, fi in mod.funcs.items():
        if q.startswith("Array.") and q not in ("Array.__post_init__", "Array.__init__"):
            for kind, root, target, node in effects.stores(repo, fi):
                if root == "self":
                    late.append(f"{q}: {short(node, 50)}")
    chk.require(not late, "C19-T2", f"{mod.relpath}:Array", "Array attributes are assigned only in __post_init__", f"Array mutates itself after construction: {late[:3]}", key="array:late-stores")


def _t34(chk, repo, g):
    reach = g.reachable([GETITEM, repo.func(f"{WRAPPER}.__getitem__").key, repo.func(f"{WRAPPER}._raw_indexing_method").key])
    # ------------------------------------------------------------ T3 / T4
    xr = repo.module("ceos_alos2.xarray")
    bad_locks = []
    for fi in repo.all_funcs():
        if fi.module.name.endswith(".testing"):
            continue
        for c in calls_in(fi):
            r = repo.resolve_expr(fi, c.func) if isinstance(c.func, (ast.Name, ast.Attribute)) else None
            if r is not None and r.kind == "external" and r.fq in UNPICKLABLE_LOCKS:
                bad_locks.append(f"{fi.key}: {short(c, 40)}")
    chk.require(not bad_locks, "C19-T3", "package", "no threading/multiprocessing lock object is created (pickled copies of the tree stay loadable)",
                f"unpicklable lock objects: {bad_locks}", key="unpicklable-lock")
    # lock-order graph over the load path: an edge A -> B when B is acquired (in the same function or in something it calls) while
    # A is held.  A cycle - including A -> A for a non-reentrant lock or a counting semaphore - is a possible deadlock.
    def ident(detail):
        t = detail.replace("with ", "").split(" (")[0].strip()
        return t
    edges = {}
    for k in sorted(reach):
        fi = g.funcs[k]
        holders = [(e.detail, e.node.body) for e in effects.scan(repo, fi) if e.kind == "lock" and isinstance(e.node, (ast.With, ast.AsyncWith))]
        holders += [(dl.split(" holds ")[1].split(" around")[0], list(fi.node.body)) for dl in effects.decorator_locks(repo, fi)]
        for held, body in holders:
            inner = set()
            for st in body:
                for c in ast.walk(st):
                    if isinstance(c, ast.Call):
                        for cal in resolve_callees(repo, fi, c.func):
                            inner.add(cal.key)
                    if isinstance(c, ast.Subscript) and isinstance(c.ctx, ast.Load):
                        r_ = norm(c.value)
                        if r_.startswith("self.") and r_ != "self":
                            inner |= {m.key for m in g.methods_by_name.get("__getitem__", ()) if m.key != fi.key}
                    if isinstance(c, (ast.With, ast.AsyncWith)) and c not in (getattr(st, "_w", None),):
                        for it in c.items:
                            if "lock" in norm(it.context_expr).lower() or effects.sync_object(repo, fi, it.context_expr):
                                edges.setdefault(ident(held), set()).add((ident(norm(it.context_expr)), f"{fi.qualname}: nested `with`"))
            for k2 in g.reachable(inner):
                f2 = g.funcs[k2]
                for e2 in effects.scan(repo, f2):
                    # the holder's own `with` is not an inner acquisition - unless the function calls itself from inside the block
                    # (a retry by recursion acquires the lock it already holds)
                    if e2.kind == "lock" and not (k2 == fi.key and ident(e2.detail) == ident(held) and fi.key not in inner):
                        edges.setdefault(ident(held), set()).add((ident(e2.detail), f"{fi.qualname} -> {f2.qualname}" + (" (recursive call inside the block)" if k2 == fi.key else "")))
                for dl in effects.decorator_locks(repo, f2):
                    edges.setdefault(ident(held), set()).add((ident(dl.split(" holds ")[1].split(" around")[0]), f"{fi.qualname} -> {f2.qualname} (decorator)"))
    # several items of one `with a, b:` are acquired in order: a -> b
    for k in sorted(reach):
        fi = g.funcs[k]
        for n in fi.own_nodes():
            if isinstance(n, (ast.With, ast.AsyncWith)) and len(n.items) > 1:
                locks = [norm(it.context_expr) for it in n.items if "lock" in norm(it.context_expr).lower() or effects.sync_object(repo, fi, it.context_expr)]
                for a_, b_ in zip(locks, locks[1:]):
                    edges.setdefault(ident(a_), set()).add((ident(b_), f"{fi.qualname}: `with {a_}, {b_}`"))
    cycles = []
    nodes = set(edges) | {t for v in edges.values() for t, _ in v}
    for start in sorted(nodes):
        stack, seen = [(start, [start])], set()
        while stack:
            cur, path = stack.pop()
            for nxt, why in sorted(edges.get(cur, ())):
                if nxt == start:
                    cycles.append(" -> ".join(path + [nxt]) + f" ({why})")
                elif nxt not in seen and len(path) < 6:
                    seen.add(nxt)
                    stack.append((nxt, path + [nxt]))
    nested = sorted(set(cycles))
    chk.require(not nested, "C19-T3", "load path", f"lock-order graph of the load path is acyclic ({sum(len(v) for v in edges.values())} edge(s): {sorted((a_, t) for a_, v in edges.items() for t, _ in v)[:4]})",
                f"the lock-order graph of the load path has a cycle: {nested[:2]} - two loads that each hold one unit and wait for the next block each other forever", key="nested-locks")
    # T5: pairing - an explicit acquire() is released on every exit (try/finally), also inside generator-based context managers,
    # where an exception raised in the with-block surfaces at the `yield`
    n_acq = 0
    for fi in repo.all_funcs():
        if fi.module.name.endswith(".testing"):
            continue
        for c in calls_in(fi):
            if not (isinstance(c.func, ast.Attribute) and c.func.attr == "acquire"):
                continue
            n_acq += 1
            recv = norm(c.func.value)
            st = c
            while not isinstance(st, ast.stmt):
                st = st._parent
            block = None
            par = getattr(st, "_parent", None)
            for field in ("body", "orelse", "finalbody"):
                b = getattr(par, field, None)
                if isinstance(b, list) and st in b:
                    block = b
            ok = False
            why = "no try/finally follows the acquire"
            if block is not None:
                rest = block[block.index(st) + 1:]
                if rest and isinstance(rest[0], ast.Try) and any(isinstance(x, ast.Call) and isinstance(x.func, ast.Attribute) and x.func.attr == "release" and norm(x.func.value) == recv
                                                                  for fs in rest[0].finalbody for x in ast.walk(fs)):
                    ok = True
                else:
                    rel = [x for s2 in rest for x in ast.walk(s2) if isinstance(x, ast.Call) and isinstance(x.func, ast.Attribute) and x.func.attr == "release" and norm(x.func.value) == recv]
                    between = [x for s2 in rest for x in ast.walk(s2) if isinstance(x, (ast.Call, ast.Yield, ast.YieldFrom, ast.Subscript, ast.Raise)) and (not rel or (x.lineno, x.col_offset) < (rel[0].lineno, rel[0].col_offset))]
                    if rel and not between:
                        ok = True  # nothing that can raise lies between acquire and release
                    elif rel:
                        why = f"`{short(between[0], 40)}` lies between {recv}.acquire() and {recv}.release() without try/finally: an exception there leaves the lock held"
                    else:
                        why = f"{recv}.release() is not in this block"
            chk.require(ok, "C19-T5", f"{fi.module.relpath}:{fi.qualname}", f"{recv}.acquire() is paired with a release in `finally`",
                        f"{why}; the lock is shared by every copy of the variable, so each later load of that image blocks forever", key=f"{fi.key}:acquire-release")
    chk.count("explicit_acquires", n_acq)
    # T4: constructor arguments of the wrapper and of Array
    tv = xr.func("to_variable")
    flow = Flow(tv)
    for c in calls_in(tv):
        for cal in resolve_callees(repo, tv, c.func):
            if cal.cls is not None and cal.cls.name == "LazilyIndexedWrapper":
                for a in list(c.args) + [k.value for k in c.keywords]:
                    d = flow.expand(a)
                    bad_arg = isinstance(d, ast.Lambda) or (isinstance(d, ast.Call) and (norm(d.func).endswith(".open") or (repo.resolve_expr(tv, d.func).kind == "external" and repo.resolve_expr(tv, d.func).fq in UNPICKLABLE_LOCKS)))
                    chk.require(not bad_arg, "C19-T4", f"{xr.relpath}:to_variable", f"wrapper member {short(d, 40)} is picklable",
                                f"wrapper member {short(d, 40)} cannot be pickled", key=f"wrapper-arg:{norm(a)}")
    init = xr.func("LazilyIndexedWrapper.__init__")
    stored_bad = []
    for kind, root, target, node in effects.stores(repo, init):
        v = getattr(node, "value", None)
        if v is not None and (isinstance(v, ast.Lambda) or any(isinstance(x, ast.Lambda) for x in ast.walk(v))):
            stored_bad.append(short(node, 50))
    chk.require(not stored_bad, "C19-T4", f"{xr.relpath}:LazilyIndexedWrapper.__init__", "no lambda/closure is stored on the wrapper", f"unpicklable members: {stored_bad}", key="wrapper:lambda")
    # every attribute the two classes store on themselves, in any method: not an object pickle refuses (the tree is shipped to workers)
    for m_, cname in ((repo.module("ceos_alos2.array"), "Array"), (xr, "LazilyIndexedWrapper")):
        bad = []
        for q, fi in m_.funcs.items():
            if not q.startswith(cname + ".") or q.count(".") != 1:
                continue
            fl = Flow(fi)
            for kind, root, target, node in effects.stores(repo, fi):
                if kind != "attr_store" or root != "self":
                    continue
                v = getattr(node, "value", None)
                if v is None:
                    continue
                v = fl.expand(v)
                for x in ast.walk(v):
                    why = None
                    if isinstance(x, (ast.Lambda, ast.GeneratorExp)):
                        why = "a lambda / generator"
                    elif isinstance(x, ast.Call):
                        r_ = repo.resolve_expr(fi, x.func) if isinstance(x.func, (ast.Name, ast.Attribute)) else None
                        fq = r_.fq if r_ is not None and r_.kind == "external" else (f"builtins.{x.func.id}" if isinstance(x.func, ast.Name) and x.func.id in ("open", "iter", "memoryview") else None)
                        if fq in UNPICKLABLE_LOCKS or fq in UNPICKLABLE_OBJECTS:
                            why = fq
                    if why:
                        bad.append(f"{q}: self.{target.attr} = ... {why}")
        chk.require(not bad, "C19-T4", f"{m_.relpath}:{cname}", f"nothing {cname} stores on itself is an object pickle refuses",
                    f"{bad[:2]}: pickle (and deepcopy) of the tree raises TypeError, no copy of the tree can be made or loaded from", key=f"{cname}:unpicklable-member")




def handle_uses(fi, h):
    return [short(getattr(n, "_parent", n), 50) for n in fi.own_nodes() if isinstance(n, ast.Name) and n.id == h and isinstance(n.ctx, ast.Load)]


def handle_leaks(repo, fi, h, seen):
    """uses of handle variable h that let it escape the activation"""
    leaks = []
    if (fi.key, h) in seen:
        return leaks
    seen.add((fi.key, h))
    for n in fi.own_nodes():
        if not (isinstance(n, ast.Name) and n.id == h and isinstance(n.ctx, ast.Load)):
            continue
        par = getattr(n, "_parent", None)
        # method call on the handle itself: f.seek / f.read / f.close / f.tell
        if isinstance(par, ast.Attribute) and par.value is n:
            gp = getattr(par, "_parent", None)
            if isinstance(gp, ast.Call) and gp.func is par and par.attr in ("seek", "read", "readinto", "tell", "close", "readline", "seekable", "readable"):
                continue
            leaks.append(f"{fi.qualname}: {short(gp or par, 50)}")
            continue
        # passed to a repo function: follow the parameter
        if isinstance(par, ast.Call) and (n in par.args or any(k.value is n for k in par.keywords)):
            cs = resolve_callees(repo, fi, par.func)
            if not cs:
                leaks.append(f"{fi.qualname}: passed to unresolved callee {short(par, 50)}")
                continue
            for cal in cs:
                if cal.func is None:
                    leaks.append(f"{fi.qualname}: stored in object {short(par, 50)}")
                    continue
                bound, unknown = bind_args(cal, par)
                pname = [p for p, v in bound.items() if v is n]
                if not pname:
                    leaks.append(f"{fi.qualname}: {short(par, 50)} (binding unknown)")
                    continue
                leaks.extend(handle_leaks(repo, cal.func, pname[0], seen))
            continue
        leaks.append(f"{fi.qualname}: {short(par if par is not None else n, 60)}")
    # captured by a nested function / lambda
    for lam in fi.lambdas + list(fi.children.values()):
        if any(isinstance(x, ast.Name) and x.id == h for x in ast.walk(lam.node)) and h not in lam.params:
            leaks.append(f"{fi.qualname}: captured by {lam.qualname}")
    return leaks


REAL_LOCKS = ("SerializableLock", "Lock", "RLock", "CombinedLock")
NOOP_LOCKS = ("DummyLock", "nullcontext")


def locked_loads(chk, repo):
    """C19-T6: to_variable evaluated on model image variables (one chunk; several chunks), then one load through the wrapper it
    built: at the moment the array is indexed a real lock is held.  fsspec's in-memory file system hands the SAME file object to
    every open, so two loads of one variable that are not serialised seek and read on each other's position; a no-op lock (or none)
    on some path is that race."""
    from collections import OrderedDict
    from ..shapes import Const, DictS, Fn, Interp, ListLit, Obj, ShapeError, TupS, _Raise
    xm = repo.module("ceos_alos2.xarray")
    where = f"{xm.relpath}:to_variable"
    chk.rule("C19-T6", "every load through the backend wrapper indexes the array while a real (not a no-op) lock is held, for single- and multi-chunk images alike", 2)
    arr_cls = repo.resolve_module_name(xm, "Array")
    var_cls = repo.resolve_module_name(repo.module("ceos_alos2.hierarchy"), "Variable")
    if arr_cls.kind != "class" or var_cls.kind != "class":
        raise AnalysisError("anchor vanished: Array / Variable classes as seen from ceos_alos2.xarray")
    for n_chunks, protocol in ((1, "memory"), (3, "memory"), (3, "file"), (3, ("file", "local")), (3, "s3")):
        I = Interp(repo)
        sc = I.module_scope(xm)
        held = [0]
        seen = []

        def real_lock(I_, a, kw):
            lk = Obj("Lock", OrderedDict(kind=Const("real")))

            def enter(I2, a2, k2):
                held[0] += 1
                return lk

            def leave(I2, a2, k2):
                held[0] -= 1
                return Const(None)
            lk.fields["__enter__"] = Fn("py", impl=enter, name="__enter__")
            lk.fields["__exit__"] = Fn("py", impl=leave, name="__exit__")
            lk.fields["acquire"] = Fn("py", impl=lambda I2, a2, k2: (enter(I2, a2, k2), Const(True))[1], name="acquire")
            lk.fields["release"] = Fn("py", impl=leave, name="release")
            return lk

        def noop_lock(I_, a, kw):
            lk = Obj("Lock", OrderedDict(kind=Const("no-op")))
            lk.fields["__enter__"] = Fn("py", impl=lambda I2, a2, k2: lk, name="__enter__")
            lk.fields["__exit__"] = Fn("py", impl=lambda I2, a2, k2: Const(None), name="__exit__")
            lk.fields["acquire"] = Fn("py", impl=lambda I2, a2, k2: Const(True), name="acquire")
            lk.fields["release"] = Fn("py", impl=lambda I2, a2, k2: Const(None), name="release")
            return lk
        for name in list(xm.imports):
            r = repo.resolve_module_name(xm, name)
            last = r.fq.split(".")[-1] if r.kind == "external" else None
            if last in REAL_LOCKS:
                sc.vars[name] = Fn("py", impl=real_lock, name=name)
            elif last in NOOP_LOCKS:
                sc.vars[name] = Fn("py", impl=noop_lock, name=name)
        wrapped = {}
        sc.vars["xr"] = Obj("xarray", OrderedDict(Variable=Fn("py", impl=lambda I_, a, k: Obj("xrVariable", OrderedDict()), name="xr.Variable")))
        sc.vars["np"] = Obj("numpy", OrderedDict(dtype=Fn("py", impl=lambda I_, a, k: a[0] if a else Const(None), name="np.dtype")))

        def lazily(I_, a, kw):
            wrapped["w"] = a[0] if a else kw.get("array")
            return Obj("LazilyIndexedArray", OrderedDict(array=wrapped["w"]))
        sc.vars["indexing"] = Obj("indexing", OrderedDict(LazilyIndexedArray=Fn("py", impl=lazily, name="LazilyIndexedArray")))
        sc.vars["extract_encoding"] = Fn("py", impl=lambda I_, a, k: DictS(), name="extract_encoding")

        def getitem(I_, a, kw):
            seen.append(held[0])
            return Obj("Block", OrderedDict())
        offsets = DictS(OrderedDict((i, DictS(OrderedDict(offset=Const(720 + 100 * i), size=Const(100)))) for i in range(n_chunks)))
        proto = Const(protocol) if isinstance(protocol, str) else TupS([Const(p_) for p_ in protocol])
        inner_fs = Obj("FileSystem", OrderedDict(protocol=proto, async_impl=Const(False)))
        dirfs = Obj("DirFileSystem", OrderedDict(fs=inner_fs, path=Const("/product"), protocol=Const("dir")))
        data = Obj("Array", OrderedDict(shape=Const((n_chunks * 2, 4)), dtype=Const("uint16"), chunk_offsets=offsets, records_per_chunk=Const(2), chunks=Const((2, 4)), byte_ranges=ListLit([]), url=Const("IMG-X"),
                                        fs=dirfs, type_code=Const("IU2"), __getitem__=Fn("py", impl=getitem, name="__getitem__")), klass=(arr_cls.mod, arr_cls.node))
        var = Obj("Variable", OrderedDict(dims=ListLit([Const("rows"), Const("columns")]), data=data, attrs=DictS()), klass=(var_cls.mod, var_cls.node))
        label = f"an image of {n_chunks} chunk(s) on a {protocol!r} file system"
        try:
            I.call(I.lookup("to_variable", sc), [var], {})
            w = wrapped.get("w")
            if not isinstance(w, Obj):
                raise ShapeError("to_variable does not wrap the array in LazilyIndexedArray(<wrapper>)")
            I.call(I.getattr(w, "_raw_indexing_method"), [TupS([Const(slice(0, 2, 1)), Const(slice(None))])], {})
        except (ShapeError, _Raise, RecursionError) as e:
            raise AnalysisError(f"{where}: the lazy wrapping / a load through it cannot be evaluated on {label}: {str(e)[:140]}")
        if not seen:
            raise AnalysisError(f"{where}: a load through the wrapper does not index the array ({label}); not decided")
        if protocol != "memory":
            # opens on these file systems give independent file objects: the load is evaluated (it must be decidable), a lock is not demanded
            chk.ok("C19-T6", where, f"{label}: a load through the wrapper evaluates ({'under a real lock' if all(h >= 1 for h in seen) else 'without a lock; file objects are not shared there'})")
            continue
        chk.require(all(h >= 1 for h in seen), "C19-T6", where, f"{label}: the array is indexed while a real lock is held",
                    f"{label}: the array is indexed with no real lock held (the lock is a no-op, is missing, or is released before the read): on a file system that shares one file object between opens "
                    f"(fsspec memory://) two loads of this variable seek and read on each other's position", key=f"locked-load:{'single' if n_chunks == 1 else 'multi'}-chunk:{'memory' if protocol == 'memory' else 'local' if 'file' in protocol else 'remote'}")


def one_lock_per_image(chk, repo):
    """C19-T7: xarray.to_dataset evaluated on a model image group (pixel variable on a model Array, per-line variables in memory):
    every lazy wrapper that ends up around the same Array holds the same lock.  Two variables served from one image file under two
    different locks are not serialised against each other: on a file system that shares one file object between opens they seek and
    read on each other's position."""
    from collections import OrderedDict
    from ..shapes import Const, DictS, Fn, Interp, ListLit, NonTermination, Obj, ShapeError, Top, TupS, _Raise
    xm = repo.module("ceos_alos2.xarray")
    hm = repo.module("ceos_alos2.hierarchy")
    where = f"{xm.relpath}:to_dataset"
    chk.rule("C19-T7", "all lazy wrappers built around one image array share one lock (one file, one lock)", 1)
    arr_cls = repo.resolve_module_name(xm, "Array")
    var_cls = repo.resolve_module_name(hm, "Variable")
    grp_cls = repo.resolve_module_name(hm, "Group")
    wr_cls = repo.resolve_module_name(xm, "LazilyIndexedWrapper")
    if any(r.kind != "class" for r in (arr_cls, var_cls, grp_cls, wr_cls)):
        raise AnalysisError("anchor vanished: Array / Variable / Group / LazilyIndexedWrapper classes")
    I = Interp(repo)
    sc = I.module_scope(xm)
    n_locks = [0]

    def new_lock(I_, a, kw):
        n_locks[0] += 1
        lk = Obj("Lock", OrderedDict(number=Const(n_locks[0])))
        lk.fields["__enter__"] = Fn("py", impl=lambda I2, a2, k2: lk, name="__enter__")
        lk.fields["__exit__"] = Fn("py", impl=lambda I2, a2, k2: Const(None), name="__exit__")
        return lk
    for name in list(xm.imports):
        r = repo.resolve_module_name(xm, name)
        last = r.fq.split(".")[-1] if r.kind == "external" else None
        if last in REAL_LOCKS or last in NOOP_LOCKS:
            sc.vars[name] = Fn("py", impl=new_lock, name=name)
    wrappers = []
    real_ctor = Fn("classctor", cls=wr_cls.node, mod=wr_cls.mod, name=wr_cls.node.name)

    def wrapper(I_, a, kw):
        w = I_.call(real_ctor, a, kw)
        wrappers.append(w)
        return w
    sc.vars["LazilyIndexedWrapper"] = Fn("py", impl=wrapper, name="LazilyIndexedWrapper")

    def dataset(I_, a, kw):
        variables = a[0] if a else kw.get("data_vars", DictS())
        attrs = kw.get("attrs", DictS())
        ds = Obj("Dataset", OrderedDict(variables=variables, data_vars=variables, attrs=attrs.copy() if isinstance(attrs, DictS) else attrs, dims=ListLit([Const("rows"), Const("columns")])))
        ds.fields["pipe"] = Fn("py", impl=lambda I2, a2, k2: I2.call(a2[0], [ds] + list(a2[1:]), k2), name="pipe")
        ds.fields["set_coords"] = Fn("py", impl=lambda I2, a2, k2: ds, name="set_coords")
        ds.fields["chunk"] = Fn("py", impl=lambda I2, a2, k2: ds, name="chunk")
        return ds
    sc.vars["xr"] = Obj("xarray", OrderedDict(Variable=Fn("py", impl=lambda I_, a, k: Obj("xrVariable", OrderedDict(data=a[1] if len(a) > 1 else k.get("data", Const(None)))), name="xr.Variable"),
                                              Dataset=Fn("py", impl=dataset, name="xr.Dataset")))
    sc.vars["np"] = Obj("numpy", OrderedDict(dtype=Fn("py", impl=lambda I_, a, k: a[0] if a else Const(None), name="np.dtype")))
    sc.vars["indexing"] = Obj("indexing", OrderedDict(LazilyIndexedArray=Fn("py", impl=lambda I_, a, k: Obj("LazilyIndexedArray", OrderedDict(array=a[0] if a else Const(None))), name="LazilyIndexedArray")))
    arrays = {}
    for pol in ("HH",):
        arrays[pol] = Obj("Array", OrderedDict(shape=TupS([Const(6), Const(4)]), dtype=Const("uint16"), records_per_chunk=Const(2), type_code=Const("IU2"), byte_ranges=ListLit([]), url=Const(f"IMG-{pol}"),
                                               chunk_offsets=DictS()), klass=(arr_cls.mod, arr_cls.node))
    V = lambda dims, data: Obj("Variable", OrderedDict(dims=ListLit([Const(d) for d in dims]), data=data, attrs=DictS()), klass=(var_cls.mod, var_cls.node))
    group = Obj("Group", OrderedDict(path=Const("/imagery/HH"), url=Const("u"), data=DictS(OrderedDict([("time", V(["rows"], ListLit([Const(1), Const(2)]))), ("data", V(["rows", "columns"], arrays["HH"]))])),
                                     attrs=DictS(OrderedDict(coordinates=ListLit([Const("time")])))), klass=(grp_cls.mod, grp_cls.node))
    try:
        I.call(I.lookup("to_dataset", sc), [group], {})
    except (ShapeError, _Raise, RecursionError, NonTermination) as e:
        raise AnalysisError(f"{where}: cannot be evaluated on a model image group: {str(e)[:140]}")
    by_array = {}
    for w in wrappers:
        a, lk = w.fields.get("array"), w.fields.get("lock")
        if not isinstance(a, Obj) or not isinstance(lk, Obj) or lk.cls != "Lock":
            raise AnalysisError(f"{where}: a lazy wrapper does not keep its array and lock as `array` / `lock` ({w!r:.80}); not decided")
        by_array.setdefault(id(a), set()).add(lk.fields["number"].v)
    if not by_array:
        raise AnalysisError(f"{where}: no lazy wrapper is built around the image array of the model group; not decided")
    for k, locks in by_array.items():
        chk.require(len(locks) == 1, "C19-T7", where, "one lock guards every access path to the image array",
                    f"{len(locks)} different locks guard the lazy wrappers built around ONE image array ({len(wrappers)} wrappers): variables served from the same image file are not serialised against each other - on a file system "
                    f"that shares one file object between opens (fsspec memory://) their loads seek and read on each other's position", key="one-lock-per-image")
