"""C17 -- one calendar convention, stored resolution kept"""
from __future__ import annotations

import ast
import re

from ..core import AnalysisError, const_str, norm, short
from ..dataflow import Flow, calls_in
from ..layout import This
from ..records import Layouts
from ..symexpr import Canon, Undecidable, compare_paths, show, show_paths, summarize, summarize_source

LEVEL = "other"

DT = "ceos_alos2.datatypes"
ATT = "ceos_alos2.sar_leader.attitude"
LMD = "ceos_alos2.sar_leader.metadata"

YDMS_SPEC = """
def _decode(self, obj, context, path):
    return datetime.datetime(obj["year"], 1, 1) + datetime.timedelta(days=obj["day_of_year"] - 1, milliseconds=obj["milliseconds"])
"""

YDUS_SPEC = """
def _decode(self, obj, context, path):
    reference_date = self.reference_date(context) if callable(self.reference_date) else self.reference_date
    return datetime.datetime.combine(reference_date.date(), datetime.time.min) + datetime.timedelta(microseconds=obj)
"""


def run(chk, repo):
    chk.explanation = (
        "Contradiction rule over the sites that turn a day-of-year quantity into a date offset: each must subtract one "
        "(day 1 = 1 January). Sites are discovered (functions that use a 'day_of_year' key and build a timedelta / "
        "timedelta64) and each is decided on the normalised expression. Further: both line-time overrides are "
        "datetime64[ns]; unit literals on time paths never narrow resolution; the microsecond stamp is anchored to the "
        "same record's acquisition date; strptime formats fit their field widths. Does NOT decide datetime arithmetic "
        "inside the standard library."
    )
    chk.trusted = ["datetime / numpy datetime64 arithmetic", "day-of-year fields are 1-based in the CEOS format (1 = 1 January)"]
    chk.rule("C17-M1", "every conversion of a day_of_year quantity into a date offset subtracts one", 2)
    chk.rule("C17-M2", "time variables are datetime64[ns]; no unit literal narrows the stored resolution", 4)
    chk.rule("C17-M3", "the microsecond stamp is rebased on the same record's acquisition date", 2)
    chk.rule("C17-M4", "the (year, day_of_year, milliseconds) triple is three Int32ub in that order", 2)
    chk.rule("C17-M5", "strptime formats fit the field shapes", 2)
    chk.attempt(m1, chk, repo)
    chk.attempt(m2, chk, repo)
    chk.attempt(m6, chk, repo)
    chk.attempt(m7, chk, repo)
    chk.attempt(time_adapters, chk, repo)
    chk.attempt(m3, chk, repo)
    chk.attempt(decode_forms, chk, repo, covered_by="time_adapters", rules=("C17-M3", "C17-M4"))
    chk.attempt(m5, chk, repo)
    from .common_rules import stateless_constructs
    chk.attempt(stateless_constructs, chk, repo, "C05-F8")
    chk.count("functions", 8)


# ---------------------------------------------------------------------------
def doy_sites(repo):
    """functions that read a 'day_of_year' key and construct a timedelta-like value"""
    out = []
    for fi in repo.all_funcs():
        if fi.module.name.endswith(".testing") or fi.is_lambda:
            continue
        uses_doy = any(const_str(n) == "day_of_year" for n in fi.own_nodes() if isinstance(n, ast.Constant))
        if not uses_doy:
            continue
        makes_delta = any(isinstance(n, ast.Call) and ("timedelta" in norm(n.func)) for n in fi.own_nodes()) or \
            any(isinstance(n, (ast.Constant, ast.JoinedStr)) and "timedelta64" in norm(n) for n in fi.own_nodes())
        if makes_delta:
            out.append(fi)
    return out


def m1(chk, repo):
    sites = doy_sites(repo)
    keys = {f.key for f in sites}
    for need in (f"{DT}:DatetimeYdms._decode", f"{ATT}:transform_time"):
        if need not in keys:
            raise AnalysisError(f"anchor vanished: day-of-year conversion site {need}")
    for fi in sites:
        where = f"{fi.module.relpath}:{fi.qualname}"
        flow = Flow(fi)
        corrected, how = doy_corrected(repo, fi)
        key = f"{fi.key}:day_of_year-base"
        if fi.key == f"{ATT}:transform_time" and not corrected:
            # the correction may also sit where the reference date is added
            fx = repo.module(LMD).funcs.get("fix_attitude_time")
            if fx is not None:
                c2, how2 = reference_corrected(fx)
                if c2:
                    corrected, how = True, how2
            key = f"{ATT}:transform_time+{LMD}:fix_attitude_time:day_of_year-as-whole-days"
        chk.require(corrected, "C17-M1", where, f"day_of_year is turned into an offset with the -1 correction ({how})",
                    f"day_of_year is used as a number of whole days ({how}): day 1 becomes 2 January, so the same instant reads back one day later than in the line records "
                    f"(which use day_of_year - 1)", key=key, sample={"site": fi.qualname, "how": how})


def doy_corrected(repo, fi):
    """is there a `x - 1` on a day_of_year-derived value, or a one-day timedelta subtracted?"""
    flow = Flow(fi)
    # values derived from the day_of_year key
    doy_exprs = []
    for n in fi.own_nodes():
        if isinstance(n, ast.Subscript) and const_str(n.slice) == "day_of_year" and isinstance(n.ctx, ast.Load):
            doy_exprs.append(n)
    how = "no correction found"
    for n in fi.own_nodes():
        if isinstance(n, ast.BinOp) and isinstance(n.op, (ast.Sub, ast.Add)):
            try:
                c = Canon({})
                t = c(flow.expand(n))
            except Undecidable:
                continue
            if t[0] == "poly":
                d = dict(t[1])
                const_term = d.get((), 0)
                atoms = [m for m in d if m != ()]
                for m in atoms:
                    exact = len(m) == 1 and m[0][0] == "sub" and m[0][2] == ("const", "str", "day_of_year")
                    if exact and d[m] == 1 and const_term == -1 and len(atoms) == 1:
                        return True, f"{short(n, 40)} = day_of_year - 1"
                    if len(m) == 1 and d[m] == 1 and "day_of_year" in repr(m[0]) and not exact and const_term == -1:
                        return False, f"day_of_year is not used as written but as {show(m[0])[:80]} before the -1 correction (admissible days are altered, e.g. day 366 of a leap year)"
        if isinstance(n, ast.BinOp) and isinstance(n.op, ast.Sub):
            r = norm(flow.expand(n.right))
            if re.search(r"timedelta(64)?\((days=)?1(, *'D')?\)", r.replace('"', "'")):
                return True, f"one-day timedelta subtracted: {short(n, 50)}"
    # keyword days=<expr>
    for c in calls_in(fi):
        if "timedelta" in norm(c.func):
            for k in c.keywords:
                if k.arg == "days":
                    how = f"days={short(flow.expand(k.value), 40)}"
    for n in fi.own_nodes():
        if isinstance(n, ast.Dict):
            for k, v in zip(n.keys, n.values):
                if const_str(k) == "day_of_year" and const_str(v) is not None:
                    how = f"units[day_of_year]={const_str(v)!r} applied to the raw field"
    return False, how


def reference_corrected(fx):
    flow = Flow(fx)
    for n in fx.own_nodes():
        if isinstance(n, ast.BinOp) and isinstance(n.op, ast.Sub):
            r = norm(flow.expand(n.right)).replace('"', "'")
            if re.search(r"timedelta64\(1, *'D'\)|timedelta\(days=1\)", r):
                return True, f"fix_attitude_time subtracts one day: {short(n, 50)}"
    return False, ""


# ---------------------------------------------------------------------------
def m2(chk, repo):
    md = repo.module("ceos_alos2.sar_image.metadata")
    # the conversion chain of both line-time variables, as inferred for transform_line_metadata on both record types
    from ..records import Layouts
    from ..schema import flatten
    from ..shapes_rules import pipelines
    P = pipelines(repo, Layouts(repo))
    seen = 0
    for pipe, names in (("lines:signal", ("sensor_acquisition_date", "sensor_acquisition_date_microseconds")), ("lines:processed", ("sensor_acquisition_date",))):
        sch = flatten(P.get(pipe))
        for k in names:
            d = sch.get(f"/{k}")
            if d is None:
                raise AnalysisError(f"{pipe}: variable {k} not found by shape inference; its stored resolution is not decided")
            seen += 1
            if "TOP(" in d:
                raise AnalysisError(f"{pipe}: the conversion chain of {k} is not determined by shape inference ({d[d.find('data='):][:120]}); its stored resolution is not decided")
            units = re.findall(r"(?:datetime64|timedelta64)\[(\w+)\]", d)
            conv = re.findall(r"\|(?:np\.)?(?:array|asarray|astype)\[([^\]\[]*(?:\[\w+\])?)\]", d)
            ok = bool(units) and units[-1] == "ns" and all(u in ("ns",) for u in units)
            chk.require(ok, "C17-M2", f"{md.relpath}:transform_line_metadata ({pipe})", f"{k} is stored as datetime64[ns] ({d[d.find('data='):][:90]})",
                        f"{k} is stored through {conv or 'no datetime64 conversion'} ({d[d.find('data='):][:110]}): the line time is not kept as datetime64[ns] - the microsecond stamp loses resolution / stays an object array",
                        key=f"override:{k}", sample={"variable": k, "pipeline": pipe, "conversion": conv})
    m2_attitude(chk, repo, P)


def m2_attitude(chk, repo, P):
    """attitude times, from the conversion chain shape inference finds for /attitude/*/time of the leader pipeline (whatever the
    shape of transform_time / fix_attitude_time): day_of_year counts days, millisecond_of_day milliseconds, the sum keeps at least
    millisecond resolution and is added to 1 January of the platform-position year at sub-second resolution"""
    from ..schema import flatten
    sch = flatten(P.get("leader"))
    keys = [k for k in sch if re.fullmatch(r"/attitude/\w+/time", k)]
    if not keys:
        raise AnalysisError("leader pipeline: no /attitude/*/time variable found by shape inference; the attitude time units are not decided")
    COARSE = ("s", "m", "h", "D", "W", "M", "Y")
    for k in keys:
        d = sch[k]
        where = f"{ATT.replace('.', '/')}.py:transform_time ({k})"
        chain = d[d.find("data="):]
        if "TOP(" in d:
            raise AnalysisError(f"{k}: the conversion chain is not determined by shape inference ({chain[:120]}); not decided")
        if "day_of_year" not in d or "millisecond_of_day" not in d:
            chk.fail("C17-M2", where, f"{k} is no longer computed from both day_of_year and millisecond_of_day ({chain[:100]})", key=f"attitude:{k}:sources")
            continue
        deltas = re.findall(r"(?:np\.)?(?:asarray|array)\[timedelta64\[(\w+)\]\]", chain)
        final = re.findall(r"astype\[timedelta64\[(\w+)\]\]", chain)
        refs = re.findall(r"(?:np\.)?(?:asarray|array)\[datetime64\[(\w+)\]\]", chain)
        if len(deltas) != 2 or len(refs) != 1:
            raise AnalysisError(f"{k}: conversion chain {chain[:140]} is not of the recognised kind (two timedelta64 components added to one datetime64 reference); not decided")
        chk.require(sorted(deltas) == ["D", "ms"], "C17-M2", where, f"day_of_year is read as days, millisecond_of_day as milliseconds ({k})",
                    f"the attitude time components are read with units {deltas}: day_of_year must count 'D', millisecond_of_day 'ms'", key="attitude:units")
        chk.require(not final or final[-1] not in COARSE, "C17-M2", where, f"the summed offset keeps at least millisecond resolution ({final[-1] if final else 'ms by promotion'})",
                    f"the summed offset is cast to timedelta64[{final[-1] if final else ''}]: milliseconds are truncated", key="attitude:final-unit")
        chk.require(refs[0] not in COARSE, "C17-M2", where, f"the reference date has sub-second resolution (datetime64[{refs[0]}])",
                    f"the attitude reference date is datetime64[{refs[0]}]: adding the millisecond offsets to it truncates them", key="attitude:reference")
        if "-01-01" not in chain:
            raise AnalysisError(f"{k}: the reference date is not built from '<year>-01-01' ({chain[:140]}); which day the offsets count from is not decided")
        chk.ok("C17-M2", where, "offsets count from 1 January of the platform-position year")


def m3(chk, repo):
    L = Layouts(repo)
    names = L.by_name("signal")
    lf = names.get("sensor_acquisition_date_microseconds")
    if lf is None:
        raise AnalysisError("anchor vanished: sensor_acquisition_date_microseconds")
    ydus = [a for a in lf.chain if a.get("cls") == "DatetimeYdus"]
    ref = ydus[0]["raw_attrs"].get("reference_date") if ydus else None
    ok = isinstance(ref, This) and ref.ups == 0 and ref.names == ("sensor_acquisition_date",)
    earlier = "sensor_acquisition_date" in names and names["sensor_acquisition_date"].offset.t.get((), 0) < lf.offset.t.get((), 0)
    chk.require(ok and earlier, "C17-M3", "signal_data_record.sensor_acquisition_date_microseconds", "anchored to this.sensor_acquisition_date of the same record (parsed earlier)",
                f"the microsecond stamp is anchored to {ref!r}: not the acquisition date of its own record", key="ydus:anchor", sample={"reference": repr(ref)})
    chk.require(lf.base == "Int64ub", "C17-M3", "signal_data_record.sensor_acquisition_date_microseconds", "microseconds of day are a 64-bit big-endian integer",
                f"microseconds field is {lf.base}", key="ydus:width")
    dt = repo.module(DT)
    # M4
    chk.rule("C17-M4", "", 2)
    for key in ("signal", "processed"):
        nm = L.by_name(key)
        comp = nm.get("sensor_acquisition_date")
        parts = [nm.get(f"sensor_acquisition_date.{p}") for p in ("year", "day_of_year", "milliseconds")]
        ok = comp is not None and comp.kind == "composite" and [a.get("cls") for a in comp.chain] == ["DatetimeYdms"] and all(p is not None and p.base == "Int32ub" and not p.chain for p in parts) \
            and [p.offset - comp.offset for p in parts] == [0, 4, 8]
        chk.require(ok, "C17-M4", f"{key}_data_record.sensor_acquisition_date", "DatetimeYdms(Struct(year, day_of_year, milliseconds)) as Int32ub at +0, +4, +8",
                    f"acquisition date layout is {[repr(p) for p in parts]}", key=f"{key}:ydms-layout")
    # the text / integer fields that hold timestamps in the leader and the volume directory sit where the format puts them, with
    # their full width (a time text cut short loses its last fraction digits)
    from ..reference import compare
    TIME_FIELDS = {"leader": ("dataset_summary.scene_center_time", "platform_position.datetime_of_first_point.date", "platform_position.datetime_of_first_point.day_of_year",
                              "platform_position.datetime_of_first_point.seconds_of_day", "platform_position.time_interval_between_data_points",
                              "attitude.data_points[].time.day_of_year", "attitude.data_points[].time.millisecond_of_day"),
                   "volume": ("volume_descriptor.logical_volume_creation_datetime",)}
    for key, fields in TIME_FIELDS.items():
        compare(chk, "C17-M4", L, key, select=lambda p_, fields=fields: p_ in fields)


LOCAL_TIME_APIS = {"timestamp": "datetime.timestamp() reads a naive datetime in the process's local time zone", "mktime": "time.mktime interprets its argument in local time",
                   "localtime": "time.localtime converts to local time", "fromtimestamp": "datetime.fromtimestamp without tz= returns local time", "astimezone": "astimezone() on a naive datetime assumes local time",
                   "today": "date/datetime.today() depends on the clock and the local zone", "now": "datetime.now() depends on the clock"}


def m6(chk, repo):
    """no time conversion of the package goes through an API whose result depends on the time zone (or clock) of the reading
    process: the timestamps of a file must read back the same everywhere"""
    chk.rule("C17-M6", "no conversion on a time path uses a local-time dependent API (datetime.timestamp on naive values, fromtimestamp without tz, mktime, localtime, now/today)", 0)
    n = 0
    for fi in repo.all_funcs():
        if fi.module.name.endswith(".testing") or fi.module.name.endswith(".cli"):
            continue
        for c in calls_in(fi):
            if not isinstance(c.func, ast.Attribute) or c.func.attr not in LOCAL_TIME_APIS:
                continue
            a = c.func.attr
            if a == "fromtimestamp" and (len(c.args) > 1 or any(k.arg == "tz" for k in c.keywords)):
                continue
            if a == "astimezone" and (c.args or c.keywords):
                continue
            if a in ("now", "today") and (c.args or c.keywords):
                continue
            if a in ("now", "today", "timestamp", "fromtimestamp", "mktime", "localtime", "astimezone"):
                recv = norm(c.func.value)
                if a in ("now", "today", "fromtimestamp") and not any(x in recv for x in ("datetime", "date")):
                    continue
                if a in ("mktime", "localtime") and "time" not in recv:
                    continue
                n += 1
                chk.fail("C17-M6", f"{fi.module.relpath}:{fi.qualname}", f"{short(c, 50)}: {LOCAL_TIME_APIS[a]} - the same file yields different timestamps under another TZ setting, "
                                                                          f"so times of different records no longer agree", key=f"{fi.key}:{a}")
    if n == 0:
        chk.ok("C17-M6", "package", f"no local-time dependent conversion in {len(list(repo.all_funcs()))} functions")


def m7(chk, repo):
    """a time quantity is not cast to timedelta64 / datetime64 from floating-point arithmetic: `astype` truncates toward zero, so a
    value that the binary fraction puts a hair below a whole unit comes out one unit early - for some stored instants only"""
    chk.rule("C17-M7", "no cast to timedelta64 / datetime64 from an expression computed in floating point (the cast truncates; integer ticks are exact)", 0)
    n = 0
    sites = 0
    for fi in repo.all_funcs():
        if fi.module.name.endswith(".testing") or ".tests" in fi.module.name:
            continue
        flow = Flow(fi)
        for c in calls_in(fi):
            if not (isinstance(c.func, ast.Attribute) and c.func.attr in ("astype", "view") and c.args):
                continue
            t = const_str(c.args[0]) or ""
            if isinstance(c.args[0], ast.JoinedStr):
                t = "".join(x.value for x in c.args[0].values if isinstance(x, ast.Constant) and isinstance(x.value, str))
            if not t.startswith(("timedelta64", "datetime64", "m8", "M8")):
                continue
            sites += 1
            src = flow.expand(c.func.value, depth=4)
            floaty = []
            for x in ast.walk(src):
                if isinstance(x, ast.Constant) and isinstance(x.value, float):
                    floaty.append(repr(x.value))
                elif isinstance(x, ast.Constant) and isinstance(x.value, str) and x.value.lstrip("<>=").startswith(("float", "f8", "f4")):
                    floaty.append(repr(x.value))
                elif isinstance(x, ast.BinOp) and isinstance(x.op, ast.Div):
                    floaty.append("/")
                elif isinstance(x, ast.Attribute) and x.attr in ("float64", "float32", "float_"):
                    floaty.append(norm(x))
                elif isinstance(x, ast.Name) and x.id == "float" and isinstance(getattr(x, "ctx", None), ast.Load):
                    floaty.append("float")
            # module-level tables of float factors referenced by name
            for x in ast.walk(src):
                if isinstance(x, ast.Name):
                    r = repo.resolve_name(fi, x.id)
                    if r.kind == "value" and len(r.exprs) == 1 and any(isinstance(y, ast.Constant) and isinstance(y.value, float) for y in ast.walk(r.exprs[0])):
                        floaty.append(f"{x.id} (float constants)")
            # local tables of float factors
            for name in {x.id for x in ast.walk(src) if isinstance(x, ast.Name)}:
                d = flow.single_def(name)
                if d is not None and isinstance(d, (ast.Dict, ast.List, ast.Tuple)) and any(isinstance(y, ast.Constant) and isinstance(y.value, float) for y in ast.walk(d)):
                    floaty.append(f"{name} (float constants)")
            if floaty:
                n += 1
                chk.fail("C17-M7", f"{fi.module.relpath}:{fi.qualname}", f"`{short(c, 60)}` casts a value computed in floating point ({', '.join(sorted(set(floaty)))[:80]}) to {t}: "
                         f"the cast truncates, so instants whose product falls a binary hair below a whole unit come out one unit early - the same instant no longer reads the same in every record type",
                         key=f"{fi.key}:float-to-{t.split('[')[0]}")
    if n == 0:
        chk.ok("C17-M7", "package", f"{sites} casts to timedelta64 / datetime64, none from floating-point arithmetic")


def strptime_width(fmt):
    lo = hi = 0
    i = 0
    W = {"Y": (4, 4), "m": (1, 2), "d": (1, 2), "H": (1, 2), "M": (1, 2), "S": (1, 2), "f": (1, 6), "j": (1, 3), "y": (2, 2)}
    while i < len(fmt):
        if fmt[i] == "%" and i + 1 < len(fmt):
            a, b = W.get(fmt[i + 1], (1, 99))
            lo += a
            hi += b
            i += 2
        else:
            lo += 1
            hi += 1
            i += 1
    return lo, hi


def m5(chk, repo):
    """the two text-to-timestamp conversions evaluated (constant folding; strptime / timedelta folded by the standard library)
    on representative stamps: every fraction digit pattern of the 16- and 17-character compact stamps, date texts with one-
    and two-digit fields, seconds of day with and without fraction.  Oracle: the fields of the stamp, read positionally."""
    import datetime
    from ..shapes import Const, DictS, Interp, ShapeError, _Raise
    tr = repo.module("ceos_alos2.transformers")
    pp = repo.module("ceos_alos2.sar_leader.platform_position")
    I = Interp(repo)
    try:
        nd = I.resolve_global(tr, "normalize_datetime")
        cases = []
        for frac in ("00", "05", "50", "99", "07", "10", "123", "005", "050", "999", "120", "001"):
            for base in ("20140102030405", "20200229235959", "20491231000000"):
                cases.append(base + frac)
        bad = None
        for stamp in cases:
            y, mo, d, h, mi, sec = int(stamp[:4]), int(stamp[4:6]), int(stamp[6:8]), int(stamp[8:10]), int(stamp[10:12]), int(stamp[12:14])
            want = datetime.datetime(y, mo, d, h, mi, sec, int(stamp[14:].ljust(6, "0"))).isoformat()
            try:
                got = I.call(nd, [Const(stamp)], {})
            except _Raise as e:
                got = Const(f"<raises {e.what[:50]}>")
            if not (isinstance(got, Const) and got.v == want) and bad is None:
                bad = (stamp, got.v if isinstance(got, Const) else repr(got), want)
        chk.require(bad is None, "C17-M5", f"{tr.relpath}:normalize_datetime", f"{len(cases)} compact stamps (16 characters with hundredths, 17 with milliseconds) read back field by field, fraction kept as written",
                    f"normalize_datetime({bad[0]!r}) gives {bad[1]!r}, the stamp says {bad[2]!r}: the sub-second part is not kept at its stored resolution" if bad else "", key="normalize_datetime:format",
                    sample={"stamps": len(cases)})
        cd = I.resolve_global(pp, "transform_composite_datetime")
        bad = None
        comp = [("2020 02 29", 0.0), ("2014  1  2", 86399.999), ("2049 12 31", 43200.123456), ("2016 12 31", 3661.5), ("2018 7 26", 1.0e-3), ("2030 10 05", 59.25)]
        for date_text, secs in comp:
            yy, mm, dd = (int(x) for x in date_text.split())
            want = (datetime.datetime(yy, mm, dd) + datetime.timedelta(seconds=secs)).isoformat()
            try:
                got = I.call(cd, [DictS({"date": Const(date_text), "seconds_of_day": Const(secs)})], {})
            except _Raise as e:
                got = Const(f"<raises {e.what[:50]}>")
            if not (isinstance(got, Const) and got.v == want) and bad is None:
                bad = (date_text, secs, got.v if isinstance(got, Const) else repr(got), want)
        chk.require(bad is None, "C17-M5", f"{pp.relpath}:transform_composite_datetime", f"{len(comp)} (date text, seconds of day) pairs give date + seconds, fraction kept",
                    f"transform_composite_datetime(date={bad[0]!r}, seconds_of_day={bad[1]}) gives {bad[2]!r}, the record says {bad[3]!r}" if bad else "", key="composite_datetime:format")
    except ShapeError as e:
        chk.note(f"C17-M5: the conversions cannot be evaluated on representative stamps ({str(e)[:100]}); decided on their syntactic form")
        return m5_syntactic(chk, repo)


def m5_syntactic(chk, repo):
    tr = repo.module("ceos_alos2.transformers")
    nd = tr.func("normalize_datetime")
    fmt = None
    for c in calls_in(nd):
        if isinstance(c.func, ast.Attribute) and c.func.attr == "strptime" and len(c.args) == 2:
            fmt = const_str(c.args[1])
    iso = any(isinstance(c.func, ast.Attribute) and c.func.attr == "isoformat" for c in calls_in(nd))
    # creation_datetime is a 16-character stamp YYYYMMDDhhmmssff; scene_center_time YYYYMMDDhhmmssttt (17)
    ok = fmt is not None and fmt.startswith("%Y%m%d%H%M%S") and fmt.endswith("%f") and strptime_width(fmt)[0] <= 16 <= strptime_width(fmt)[1] and strptime_width(fmt)[1] >= 17
    chk.require(ok and iso, "C17-M5", f"{tr.relpath}:normalize_datetime", f"format {fmt!r} consumes the 16/17-character compact stamps and yields ISO 8601",
                f"normalize_datetime uses {fmt!r} (isoformat={iso}): it does not consume YYYYMMDDhhmmss + fraction", key="normalize_datetime:format", sample={"format": fmt})
    pp = repo.module("ceos_alos2.sar_leader.platform_position")
    cd = pp.func("transform_composite_datetime")
    fmt2 = None
    for c in calls_in(cd):
        if isinstance(c.func, ast.Attribute) and c.func.attr == "strptime" and len(c.args) == 2:
            fmt2 = const_str(c.args[1])
    join = None
    for c in calls_in(cd):
        if isinstance(c.func, ast.Attribute) and c.func.attr == "join":
            join = const_str(c.func.value)
    secs = any("timedelta" in norm(c.func) and any(k.arg == "seconds" and "seconds_of_day" in norm(k.value) for k in c.keywords) for c in calls_in(cd))
    ok = fmt2 is not None and join is not None and fmt2 == f"%Y{join}%m{join}%d" and secs
    chk.require(ok, "C17-M5", f"{pp.relpath}:transform_composite_datetime", f"date text joined with {join!r} parsed by {fmt2!r}, plus seconds_of_day as seconds",
                f"first-point time uses format {fmt2!r} with join {join!r} (seconds={secs})", key="composite_datetime:format")


def decode_forms(chk, repo):
    """normal forms of the two time adapters' `_decode` (form rule; what they compute is decided by `time_adapters`)"""
    dt = repo.module(DT)
    for cname, spec, rule, good, key in (("DatetimeYdus", YDUS_SPEC, "C17-M3", "midnight of the reference date + obj microseconds", "ydus:decode"),
                                         ("DatetimeYdms", YDMS_SPEC, "C17-M4", "1 January of obj['year'] + (day_of_year - 1) days + obj['milliseconds'] ms", "ydms:decode")):
        cls = dt.classes.get(cname)
        if cls is None:
            raise AnalysisError(f"anchor vanished: {cname}")
        dec = [s_ for s_ in cls.body if isinstance(s_, ast.FunctionDef) and s_.name == "_decode"][0]
        try:
            _, got = summarize(dec)
            _, want = summarize_source(spec)
        except Undecidable as e:
            raise AnalysisError(f"{cname}._decode outside the fragment: {e}")
        v = compare_paths(got, want)
        if v == "incomparable":
            raise AnalysisError(f"{cname}._decode has a different shape than its specification: {show_paths(got)[:200]}")
        chk.require(v == "equal", rule, f"{dt.relpath}:{cname}._decode", good, f"{cname} decodes to {show_paths(got)[:200]}", key=key)


def time_adapters(chk, repo):
    """C17-M8: `_decode` of the two time adapters evaluated (the checker's interpreter) on representative raw values - first and last
    day of ordinary and leap years, the last millisecond / microsecond of a day, a reference date that is not at midnight - and asked
    twice in a row (a decoder that remembers something from the previous record gives itself away): the result is the instant the
    format defines.  Indifferent to how `_decode` is written"""
    import datetime
    from collections import OrderedDict
    from ..repeval import from_shape, Undecided
    from ..shapes import Const, DictS, Fn, Interp, NonTermination, Obj, ShapeError, _Raise
    chk.rule("C17-M8", "the time adapters decode representative raw values to the instants the format defines, whatever was decoded before", 8)
    dt = repo.module(DT)
    ydms = [dict(year=2014, day_of_year=1, milliseconds=0), dict(year=2016, day_of_year=60, milliseconds=1), dict(year=2015, day_of_year=60, milliseconds=43200123),
            dict(year=2016, day_of_year=366, milliseconds=86399999), dict(year=2020, day_of_year=366, milliseconds=5), dict(year=2049, day_of_year=365, milliseconds=86399999),
            dict(year=2016, day_of_year=1, milliseconds=0), dict(year=2015, day_of_year=1, milliseconds=0)]
    refs = [datetime.datetime(2016, 2, 29, 13, 14, 15, 250000), datetime.datetime(2015, 12, 31, 23, 59, 59, 999000), datetime.datetime(2014, 1, 1)]
    ydus = [(r, us) for r in refs for us in (0, 1, 86399999999, 43200000123)]
    I = Interp(repo)
    sc = I.module_scope(dt)

    def instance(cname, **attrs):
        cls = dt.classes.get(cname)
        if cls is None:
            raise AnalysisError(f"anchor vanished: {cname}")
        obj = Obj(cname, OrderedDict(attrs), klass=(dt, cls))
        return obj

    def decode(obj, raw, ctx):
        try:
            out = I.call(I.getattr(obj, "_decode"), [raw, ctx, Const("path")], {})
            return "value", from_shape(out)
        except _Raise as e:
            return "raises", e.what
        except (ShapeError, NonTermination, RecursionError, Undecided) as e:
            raise AnalysisError(f"{dt.relpath}:{type_name}._decode cannot be evaluated on {raw!r:.80}: {str(e)[:120]}")
    type_name = "DatetimeYdms"
    a = instance("DatetimeYdms")
    for d in ydms:
        want = datetime.datetime(d["year"], 1, 1) + datetime.timedelta(days=d["day_of_year"] - 1, milliseconds=d["milliseconds"])
        kind, got = decode(a, DictS(OrderedDict((k, Const(v)) for k, v in d.items())), Const(None))
        chk.require(kind == "value" and got == want, "C17-M8", f"{dt.relpath}:DatetimeYdms._decode", f"{d} -> {want.isoformat()}",
                    f"year {d['year']}, day {d['day_of_year']}, {d['milliseconds']} ms decodes to {got.isoformat() if isinstance(got, datetime.datetime) else got!r:.60} instead of {want.isoformat()}"
                    f" (decoded after {ydms[ydms.index(d) - 1] if ydms.index(d) else 'nothing'})", key="ydms:value")
    type_name = "DatetimeYdus"
    for as_function in (True, False):
        for ref, us in ydus:
            rd = Fn("py", impl=lambda I_, a_, kw_, ref=ref: Const(ref), name="<this.sensor_acquisition_date>") if as_function else Const(ref)
            b = instance("DatetimeYdus", reference_date=rd)
            want = datetime.datetime.combine(ref.date(), datetime.time.min) + datetime.timedelta(microseconds=us)
            kind, got = decode(b, Const(us), Obj("Context", OrderedDict(sensor_acquisition_date=Const(ref))))
            chk.require(kind == "value" and got == want, "C17-M8", f"{dt.relpath}:DatetimeYdus._decode", f"{us} us after midnight of {ref.date()} -> {want.isoformat()}",
                        f"{us} microseconds with the acquisition date {ref.isoformat()} decodes to {got.isoformat() if isinstance(got, datetime.datetime) else got!r:.60} instead of {want.isoformat()}", key="ydus:value")
