"""rules decided on the model evaluation of the cache codec (vlib/codecmodel.py: decode(encode(g)) on model hierarchies), shared by C07, C08, C10"""
from __future__ import annotations

from ..codecmodel import judge, run_roundtrip
from ..core import AnalysisError

_CACHE = {}
WHERE = "ceos_alos2/sar_image/caching/__init__.py:encode/decode"

# (group path, generated hierarchy with nested groups?)  - flat ones are named after construction, like sar_image.open_image does
QUICK = [("HH_scan3", False), ("HH", False), ("", False), ("/", False), (None, True), ("/g", True), ("a/b", True)]
THOROUGH = QUICK + [("HV_scan1", False), ("VV", False), ("x", True), ("/a/b/c", True), ("/", True)]


def runs(repo, tier="quick"):
    key = (id(repo), tier)
    if key not in _CACHE:
        out = []
        for path, nested in (QUICK if tier == "quick" else THOROUGH):
            for rpc in ((7, 1024) if tier == "quick" else (1, 7, 1024, None)):
                out.append(((path, nested, rpc), run_roundtrip(repo, path, rpc, nested)))
        _CACHE[key] = out
    return _CACHE[key]


def codec_rules(chk, repo, rule, keys, text):
    rs = runs(repo, getattr(chk, "tier", "quick"))
    chk.rule(rule, text, len(rs) // 2)
    undecided, failed, n_ok = [], {}, 0
    for (path, nested, rpc), R in rs:
        for k, ok, good, bad in judge(R, path, rpc):
            if ok is None:
                undecided.append(((path, nested, rpc), bad))
                continue
            if k not in keys:
                continue
            if ok:
                n_ok += 1
            else:
                failed.setdefault((k, bad), []).append((path, nested, rpc))
    seen = set()
    for (k, bad), sits in failed.items():
        # one report per distinct difference
        sig = (k, bad.split(": ", 1)[-1][:160])
        if sig in seen:
            continue
        seen.add(sig)
        chk.fail(rule, WHERE, bad[:700] + (f" (in {len(sits)} of {len(rs)} model hierarchies)" if len(sits) > 1 else f" (model hierarchy: group path {sits[0][0]!r}{', nested groups' if sits[0][1] else ''})"),
                 key=f"codec:{k}:{len(seen)}")
    if undecided and not failed:
        raise AnalysisError(f"{WHERE}: the round trip cannot be evaluated on {len(undecided)} of {len(rs)} model hierarchies (e.g. path {undecided[0][0][0]!r}: {str(undecided[0][1])[:200]})")
    if not failed:
        chk.ok(rule, WHERE, f"{len(rs)} model hierarchies (group paths {sorted({repr(p) for (p, _, _), _ in rs})}, flat and nested, 13 dtype cases incl. datetime64/timedelta64 with unit multipliers, "
               f"list-held data, nested list/tuple/dict attributes, non-ASCII strings, 2**63-1): {', '.join(keys)} hold", sample={"hierarchies": len(rs), "obligations": list(keys), "discharged": n_ok})
        for _ in range(len(rs) - 1):
            chk.ok(rule, WHERE, "model hierarchy")


def missing_stamps(chk, repo, rule):
    """the line time stamps the reader can produce versus what the index codec can store: the two time adapters are evaluated on an
    unset (all-zero) stamp.  When one of them decodes it to a missing value (None -> NaT) instead of raising, the reader can produce a
    datetime column whose first element is missing, and the round trip is evaluated on such a hierarchy: a codec that stores a column
    as offsets from its first element reads back NaT for every line"""
    from collections import OrderedDict
    from ..shapes import Const, DictS, Fn, Interp, NonTermination, Obj, ShapeError, Top, _Raise
    from .adapter_eval import adapter_instance
    chk.rule(rule, "a time stamp the reader may decode to 'missing' survives the index round trip (or no adapter produces one)", 1)
    dt = repo.module("ceos_alos2.datatypes")
    producers = []
    for cls, raw in (("DatetimeYdms", {"year": 0, "day_of_year": 0, "milliseconds": 0}), ("DatetimeYdus", 0)):
        r = repo.resolve_module_name(dt, cls)
        if r.kind != "class":
            raise AnalysisError(f"anchor vanished: datatypes.{cls}")
        I = Interp(repo)
        obj = Obj(cls, OrderedDict(reference_date=Const(None)), klass=(r.mod, r.node))
        arg = Const(raw) if not isinstance(raw, dict) else Obj("Container", {k: Const(v) for k, v in raw.items()})
        if isinstance(raw, dict):
            arg.fields["__getitem__"] = Fn("py", impl=lambda I_, a_, k_, _o=arg: _o.fields[a_[0].v], name="__getitem__")
        try:
            out = I.call(I.getattr(obj, "_decode"), [arg, Obj("Context", OrderedDict()), Const("path")], {})
        except _Raise:
            continue  # an unset stamp is rejected: no missing value enters the tree through this adapter
        except (ShapeError, NonTermination, RecursionError) as e:
            raise AnalysisError(f"{dt.relpath}:{cls}._decode cannot be evaluated on an unset (all-zero) stamp: {str(e)[:120]}")
        if isinstance(out, Const) and out.v is None:
            producers.append(cls)
        elif isinstance(out, (Top,)):
            raise AnalysisError(f"{dt.relpath}:{cls}._decode on an unset stamp gives {out!r:.60}; not decided")
    if not producers:
        chk.ok(rule, f"{dt.relpath}", "the time adapters reject an unset (all-zero) stamp: no missing time value enters the tree")
        return
    R = run_roundtrip(repo, "HH", 7, False, nat_first=True)
    res = judge(R, "HH", 7)
    und = [bad for k, ok, good, bad in res if ok is None]
    if und:
        raise AnalysisError(f"{WHERE}: the round trip with a missing first time stamp cannot be evaluated: {str(und[0])[:160]}")
    bad = [b for k, ok, good, b in res if ok is False and "time_gap" in str(b)]
    chk.require(not bad, rule, WHERE, "a datetime column whose first element is missing (NaT) survives decode(encode(g))",
                f"{' and '.join(producers)} decode an unset (all-zero) stamp to a missing value, so a time column can start with NaT - and the index codec does not keep such a column: {str(bad[0])[:300] if bad else ''}",
                key="codec:missing-first-stamp")
