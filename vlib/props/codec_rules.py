"""rules decided on the model evaluation of the cache codec (vlib/codecmodel.py: decode(encode(g)) on model hierarchies), shared by C07, C08, C10"""
from __future__ import annotations

from ..codecmodel import judge, run_roundtrip
from ..core import AnalysisError

_CACHE = {}
WHERE = "ceos_alos2/sar_image/caching/__init__.py:encode/decode"

# (group path, generated hierarchy with nested groups?)  - flat ones are named after construction, like sar_image.open_image does
QUICK = [("HH_scan3", False), ("HH", False), ("", False), ("/", False), (None, True), ("/g", True), ("a/b", True)]
THOROUGH = QUICK + [("HV_scan1", False), ("VV", False), ("x", True), ("/a/b/c", True), ("/", True)]


def runs(repo, tier="quick"):
    key = (id(repo), tier)
    if key not in _CACHE:
        out = []
        for path, nested in (QUICK if tier == "quick" else THOROUGH):
            for rpc in ((7, 1024) if tier == "quick" else (1, 7, 1024, None)):
                out.append(((path, nested, rpc), run_roundtrip(repo, path, rpc, nested)))
        _CACHE[key] = out
    return _CACHE[key]


def codec_rules(chk, repo, rule, keys, text):
    rs = runs(repo, getattr(chk, "tier", "quick"))
    chk.rule(rule, text, len(rs) // 2)
    undecided, failed, n_ok = [], {}, 0
    for (path, nested, rpc), R in rs:
        for k, ok, good, bad in judge(R, path, rpc):
            if ok is None:
                undecided.append(((path, nested, rpc), bad))
                continue
            if k not in keys:
                continue
            if ok:
                n_ok += 1
            else:
                failed.setdefault((k, bad), []).append((path, nested, rpc))
    seen = set()
    for (k, bad), sits in failed.items():
        # one report per distinct difference
        sig = (k, bad.split(": ", 1)[-1][:160])
        if sig in seen:
            continue
        seen.add(sig)
        chk.fail(rule, WHERE, bad[:700] + (f" (in {len(sits)} of {len(rs)} model hierarchies)" if len(sits) > 1 else f" (model hierarchy: group path {sits[0][0]!r}{', nested groups' if sits[0][1] else ''})"),
                 key=f"codec:{k}:{len(seen)}")
    if undecided and not failed:
        raise AnalysisError(f"{WHERE}: the round trip cannot be evaluated on {len(undecided)} of {len(rs)} model hierarchies (e.g. path {undecided[0][0][0]!r}: {str(undecided[0][1])[:200]})")
    if not failed:
        chk.ok(rule, WHERE, f"{len(rs)} model hierarchies (group paths {sorted({repr(p) for (p, _, _), _ in rs})}, flat and nested, 13 dtype cases incl. datetime64/timedelta64 with unit multipliers, "
               f"list-held data, nested list/tuple/dict attributes, non-ASCII strings, 2**63-1): {', '.join(keys)} hold", sample={"hierarchies": len(rs), "obligations": list(keys), "discharged": n_ok})
        for _ in range(len(rs) - 1):
            chk.ok(rule, WHERE, "model hierarchy")
