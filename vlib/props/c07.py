"""C07 -- cache transparency"""
from __future__ import annotations

import ast

from ..cachecodec import DEC, ENC, check_codec
from ..callgraph import catches, enclosing_handlers, guards_of, handler_reraises
from ..core import AnalysisError, const_str, norm, short
from ..dataflow import Flow, calls_in
from ..interproc import bind_args, resolve_callees
from ..openpath import (
    CLI_CREATE, CREATE_CACHE, ENTRY, IO_OPEN, LOCAL_LOC, OPEN_IMAGE, OPTIONS, READ_CACHE, REMOTE_LOC, OpenPath,
)

LEVEL = "other"

PROTOCOL_FACTORIES = {"fsspec.get_mapper", "fsspec.filesystem", "fsspec.core.url_to_fs", "fsspec.url_to_fs", "fsspec.open",
                      "fsspec.open_files", "fsspec.core.get_fs_token_paths"}


def open_protocol(chk, repo):
    """C07-G8: the cache protocol of open_image, evaluated in every combination of use_cache / create_cache / cache state (vlib/openmodel.py)"""
    from .open_rules import open_rules
    open_rules(chk, repo, "C07-G8", ('lookup', 'lookup-args', 'hit', 'write', 'write-args'), "open_image with recording collaborators: the cache is consulted exactly when use_cache is set, a hit is returned without opening the image, the cache is written exactly when create_cache is set and holds the returned group")


def codec_hit(chk, repo):
    """C07-K8: what a cache hit returns is what was written: decode(encode(g)) evaluated on model hierarchies (vlib/codecmodel.py)"""
    from .codec_rules import codec_rules
    codec_rules(chk, repo, "C07-K8", ("total", "roundtrip", "input-untouched"), "the tree a cache hit returns, decode(encode(g)) with the records_per_chunk of the reading call, equals the tree g that was written "
                "(evaluated on model hierarchies), and writing the cache leaves g - the tree returned by that open - unchanged")


def run(chk, repo):
    op = OpenPath(repo)
    chk.explanation = (
        "Decides the structural clauses of cache transparency: cache lookups are control-dependent on use_cache, "
        "cache creation on create_cache; the three options are passed unchanged along every call edge of the open "
        "path (incl. curry/partial bindings and literal dispatch tables); a cache hit returns before any product "
        "read and a CachingError falls through to the parse; writer and reader of the index agree on tags, keys and "
        "array fields; option/CLI/reader agree on the cache file name; filesystems used to read pixels derive from "
        "the live mapper. Does NOT decide equality of the cached and uncached trees as values (relation between two "
        "executions)."
    )
    chk.trusted = ["call graph over-approximates calls (references to functions count as calls)", "fsspec.get_mapper infers the protocol from its URL argument"]
    chk.attempt(open_protocol, chk, repo)
    chk.attempt(g1_g2, chk, op, covered_by="open_protocol", rules=("C07-G1", "C07-G2"))
    chk.attempt(g3_threading, chk, op, "C07-G3")
    chk.attempt(g4, chk, op, covered_by="open_protocol", rules=("C07-G4", "C07-G7"))
    chk.attempt(codec_hit, chk, repo)
    from .codec_rules import missing_stamps
    chk.attempt(missing_stamps, chk, repo, "C07-K9")
    chk.attempt(check_codec, chk, repo, "C07", covered_by="codec_hit", rules=tuple(f"C07-K{i}" for i in range(1, 8)))
    chk.attempt(write_then_read, chk, repo)
    chk.attempt(cli_index, chk, repo)
    chk.attempt(naming, chk, op)
    chk.attempt(naming_cli, chk, op, covered_by="cli_index", rules=("C07-N",))
    chk.attempt(naming_writer_reader, chk, op, covered_by="write_then_read", rules=("C07-N",))
    chk.attempt(cache_key, chk, op)
    chk.attempt(provenance, chk, op)
    chk.attempt(serialised_last, chk, op, "C07-G6")
    chk.attempt(cache_independent_of_options, chk, op, "C07-G9")
    from .c10 import w3
    chk.rule("C10-W3", "no module-level state / memoisation on the open path: a later open must honour its own records_per_chunk and cache options (C07-G5)", 1)
    chk.attempt(w3, chk, op)
    chk.count("functions", len(op.reach))


# ----------------------------------------------------------------------------
def cache_independent_of_options(chk, op, rule):
    """the group handed to create_cache in open_image is computed from the file alone: no parameter of open_image other than the file
    (mapper, path), the two cache switches and records_per_chunk (which is not stored: decode takes it from the reading call) flows
    into it.  An index written under an option of one call is read by every later call without it"""
    from ..interproc import bind_args
    chk.rule(rule, "what open_image writes to the cache does not depend on further options of the call that writes it", 1)
    fi = op.fi(OPEN_IMAGE)
    known = {"mapper", "path", "use_cache", "create_cache", "records_per_chunk"}
    a = fi.node.args
    params = [x.arg for x in a.posonlyargs + a.args + a.kwonlyargs] + ([a.vararg.arg] if a.vararg else []) + ([a.kwarg.arg] if a.kwarg else [])
    extra = [p_ for p_ in params if p_ not in known]
    sites = [n for n in op.g.sites.get((fi.key, CREATE_CACHE), [])]
    calls = []
    for n in sites:
        if not isinstance(n, ast.Call) and isinstance(getattr(n, "_parent", None), ast.Call) and n._parent.func is n:
            n = n._parent
        if isinstance(n, ast.Call):
            calls.append(n)
    if not calls:
        raise AnalysisError(f"{op.where(fi)}: no direct call of create_cache in open_image; what is written is not decided by this rule")
    if not extra:
        chk.ok(rule, op.where(fi), f"open_image has no option besides {sorted(known)}")
        return
    # names that carry (something computed from) an extra option: a fixpoint over the assignments of the function body
    tainted = set(extra)
    changed = True

    def mentions(e):
        return any(isinstance(x, ast.Name) and x.id in tainted for x in ast.walk(e))
    while changed:
        changed = False
        for n in fi.own_nodes():
            targets, value = [], None
            if isinstance(n, ast.Assign):
                targets, value = n.targets, n.value
            elif isinstance(n, (ast.AugAssign, ast.AnnAssign)) and n.value is not None:
                targets, value = [n.target], n.value
            elif isinstance(n, (ast.For, ast.comprehension)):
                targets, value = [n.target], n.iter
            elif isinstance(n, ast.Expr) and isinstance(n.value, ast.Call) and isinstance(n.value.func, ast.Attribute) and n.value.func.attr in ("update", "append", "extend", "setdefault", "pop", "__setitem__", "insert"):
                targets, value = [n.value.func.value], n.value
            if value is None or not mentions(value):
                continue
            for t in targets:
                for x in ast.walk(t):
                    if isinstance(x, ast.Name) and x.id not in tainted and (isinstance(x.ctx, ast.Store) or x is t or isinstance(t, (ast.Attribute, ast.Subscript))):
                        tainted.add(x.id)
                        changed = True
    for n in calls:
        cs = [x for x in resolve_callees(op.repo, fi, n.func) if x.key == CREATE_CACHE]
        if not cs:
            continue
        b, _ = bind_args(cs[0], n)
        data = b.get(op.fi(CREATE_CACHE).positional_params[2])
        dep = sorted({x.id for x in ast.walk(data) if isinstance(x, ast.Name) and x.id in tainted}) if data is not None else []
        chk.require(not dep, rule, op.where(fi), f"{short(n, 50)}: the group written does not depend on {extra}",
                    f"{short(n, 60)} writes `{short(data, 30)}`, which is computed from the option(s) {[e_ for e_ in extra if e_ in tainted][:3]} of this call (through {dep[:3]}): the index of the image then holds "
                    f"what this call asked for, and every later open that reads it - with other options, from other code - gets that instead of what the file says", key="cache-depends-on-option")


def serialised_last(chk, op, rule):
    """typestate: the group handed to create_cache is final - nothing stores into it afterwards.  A later store (name,
    variable, attribute) reaches the caller of this open but not the index file, so a cached open returns another tree"""
    from ..effects import stores
    from ..interproc import bind_args
    chk.rule(rule, "the group written to the cache is not modified after create_cache (the cached tree equals the returned tree)", 1)
    lib = op.reach
    sites = [(c, n) for c in op.g.callers(CREATE_CACHE) if c in lib or c == CLI_CREATE for n in op.g.sites[(c, CREATE_CACHE)]]
    if not sites:
        raise AnalysisError(f"anchor vanished: no call of {CREATE_CACHE}")
    for ckey, n in sites:
        fi = op.g.funcs[ckey]
        if not isinstance(n, ast.Call) and isinstance(getattr(n, "_parent", None), ast.Call) and n._parent.func is n:
            n = n._parent
        if not isinstance(n, ast.Call):
            raise AnalysisError(f"{op.where(fi)}: create_cache is referenced as a value ({short(n, 40)}); what it serialises is not decided")
        cs = [x for x in resolve_callees(op.repo, fi, n.func) if x.key == CREATE_CACHE]
        if not cs:
            continue
        b, _ = bind_args(cs[0], n)
        data = b.get(op.fi(CREATE_CACHE).positional_params[2])
        if not isinstance(data, ast.Name):
            chk.ok(rule, op.where(fi), f"{short(n, 60)}: the cached object is an expression, nothing can store into it afterwards")
            continue
        later = []
        for kind, root, target, node in stores(op.repo, fi):
            if root == data.id and (node.lineno, node.col_offset) > (n.lineno, n.col_offset):
                # stores in the other branch of a conditional that excludes the call cannot follow it
                from ..core import parents
                anc_call = list(parents(n))
                excl = False
                for p in parents(node):
                    if isinstance(p, ast.If) and p in anc_call:
                        in_body_call = any(any(x is a for a in [n] + anc_call) for x in p.body)
                        in_body_store = any(any(x is a for a in [node] + list(parents(node))) for x in p.body)
                        excl = in_body_call != in_body_store
                        break
                if not excl:
                    later.append(short(node, 60))
        chk.require(not later, rule, op.where(fi), f"nothing stores into `{data.id}` after {short(n, 50)}",
                    f"`{data.id}` is modified after it was written to the cache ({later[:2]}): the index file holds the group without that change, so a later open that uses the cache "
                    f"returns a different tree (e.g. an unnamed image group)", key=f"{fi.key}:mutated-after-create_cache", sample={"site": short(n, 60)})


def g1_g2(chk, op):
    chk.rule("C07-G1", "every cache lookup on the open path is control-dependent on use_cache", 1)
    chk.rule("C07-G2", "every cache creation on the open path is control-dependent on create_cache", 1)
    lib = op.reach
    for callee, opt, rule in ((READ_CACHE, "use_cache", "C07-G1"), (CREATE_CACHE, "create_cache", "C07-G2")):
        sites = [(c, n) for c in op.g.callers(callee) if c in lib for n in op.g.sites[(c, callee)]]
        if not sites:
            raise AnalysisError(f"anchor vanished: no call of {callee} on the open path")
        for ckey, n in sites:
            fi = op.g.funcs[ckey]
            ok = op.site_guarded(fi, n, opt, True)
            chk.require(ok, rule, op.where(fi), f"{short(n, 60)} runs only when {opt} is true",
                        f"{short(n, 60)} is not control-dependent on the {opt} option: the cache is "
                        f"{'consulted' if opt == 'use_cache' else 'written'} regardless of it",
                        key=f"{fi.key}:{callee.split(':')[1]}:{opt}", sample={"site": short(n, 80), "guard": opt})
    # cache location helpers and cache-file reads outside read_cache/create_cache
    for loc in (LOCAL_LOC, REMOTE_LOC):
        for ckey in op.g.callers(loc):
            if ckey in (READ_CACHE, CREATE_CACHE) or ckey not in lib:
                continue
            fi = op.g.funcs[ckey]
            for n in op.g.sites[(ckey, loc)]:
                ok = op.site_guarded(fi, n, "use_cache", True) or op.site_guarded(fi, n, "create_cache", True)
                chk.require(ok, "C07-G1", op.where(fi), f"{short(n, 60)} guarded by a cache option",
                            f"cache location computed outside read_cache/create_cache and not guarded by use_cache/create_cache: {short(n, 80)}",
                            key=f"{fi.key}:{loc.split(':')[1]}")
    # read_cache itself must not write, create_cache must not be reachable from read_cache
    rc_reach = op.g.reachable([READ_CACHE])
    chk.require(CREATE_CACHE not in rc_reach, "C07-G2", "caching.read_cache", "reading a cache never creates one",
                "create_cache is reachable from read_cache", key="read_cache->create_cache")


# ----------------------------------------------------------------------------
def g3_threading(chk, op, rule, options=OPTIONS):
    chk.rule(rule, "options are passed unchanged along every call edge of the open path", 10)
    repo = op.repo
    scope = set(op.reach) | {CLI_CREATE}
    seen = 0
    for ckey in sorted(scope):
        fi = op.g.funcs[ckey]
        if fi.module.name.endswith(".testing"):
            continue
        shared_names = [o for o in options if o in _params_in_scope(fi)]
        if not shared_names:
            continue
        for call in calls_in(fi, include_lambdas=True):
            is_partial = False
            fr = repo.resolve_expr(fi, call.func) if isinstance(call.func, (ast.Name, ast.Attribute)) else None
            if fr is not None and fr.kind == "external" and fr.fq.split(".")[-1] in ("curry", "partial"):
                callees = resolve_callees(repo, fi, call)
                is_partial = True
            else:
                callees = resolve_callees(repo, fi, call.func)
            for cal in callees:
                pos, kwonly = cal.params()
                cparams = set(pos) | set(kwonly)
                for o in shared_names:
                    if o not in cparams:
                        continue
                    if is_partial:
                        bound, unknown = bind_args(cal, call, partial=True)
                    else:
                        bound, unknown = bind_args(cal, call)
                    seen += 1
                    where = op.where(fi)
                    key = f"{fi.key}->{cal.key}:{o}"
                    if o not in bound:
                        if unknown:
                            chk.note(f"{where}: {short(call, 60)} passes *args/**kwargs; binding of {o} not decided")
                            continue
                        if is_partial and _later_binds(fi, call, o):
                            continue
                        chk.fail(rule, where, f"{short(call, 70)} does not pass {o}: the callee's default silently replaces the caller's option", key=key)
                        continue
                    v = bound[o]
                    ok = isinstance(v, ast.Name) and v.id == o
                    chk.require(ok, rule, where, f"{cal.key.split(':')[1]}({o}={o})",
                                f"{short(call, 70)} binds {o} to {short(v, 40)} instead of the caller's {o}", key=key,
                                sample={"edge": f"{fi.qualname} -> {cal.key.split(':')[1]}", "option": o})
    if seen == 0:
        raise AnalysisError("no option-carrying call edge found on the open path")
    # the entry point hands the caller's dict to io.open unchanged
    entry = op.fi(ENTRY)
    ok = False
    for call in calls_in(entry):
        for cal in resolve_callees(repo, entry, call.func):
            if cal.key == IO_OPEN:
                for k in call.keywords:
                    if k.arg is None:
                        v = Flow(entry).expand(k.value)
                        t = norm(v)
                        if t in ("backend_options", "dict(backend_options)", "backend_options.copy()", "{**backend_options}", "copy.copy(backend_options)", "copy.deepcopy(backend_options)"):
                            ok = True
    chk.require(ok, rule, op.where(entry), "open_alos2 forwards **backend_options to io.open", "open_alos2 does not forward **backend_options unchanged", key="open_alos2->io.open:**backend_options")


def _params_in_scope(fi):
    out = set(fi.params)
    p = fi.parent
    while p is not None:
        out |= set(p.params)
        p = p.parent
    return out


def _later_binds(fi, call, o):
    return False


# ----------------------------------------------------------------------------
def g4(chk, op):
    chk.rule("C07-G4", "a cache hit returns before any product read; CachingError falls through to the parse; read_cache raises CachingError when no cache exists", 3)
    chk.rule("C07-G7", "a tree decoded from the cache is returned unconditionally (nothing after the lookup can discard a usable cache)", 1)
    repo = op.repo
    fi = op.fi(OPEN_IMAGE)
    where = op.where(fi)
    sites = op.g.sites.get((OPEN_IMAGE, READ_CACHE), [])
    if not sites:
        raise AnalysisError("anchor vanished: read_cache call in open_image")
    # product reads in open_image
    reads = []
    for c in calls_in(fi):
        if isinstance(c.func, ast.Attribute) and c.func.attr == "open":
            reads.append(c)
        for cal in resolve_callees(repo, fi, c.func):
            if cal.key.endswith(":read_metadata"):
                reads.append(c)
    if not reads:
        raise AnalysisError("anchor vanished: product read in open_image")
    first_read = min((r.lineno, r.col_offset) for r in reads)
    for n in sites:
        call = n if isinstance(n, ast.Call) else getattr(n, "_parent", None)
        st = call
        while st is not None and not isinstance(st, ast.stmt):
            st = getattr(st, "_parent", None)
        returned = isinstance(st, ast.Return)
        if not returned and isinstance(st, ast.Assign) and len(st.targets) == 1 and isinstance(st.targets[0], ast.Name):
            # value assigned, then returned before the first product read
            name = st.targets[0].id
            for r in fi.own_nodes():
                if isinstance(r, ast.Return) and isinstance(r.value, ast.Name) and r.value.id == name and (r.lineno, r.col_offset) < first_read:
                    returned = True
        before = (call.lineno, call.col_offset) < first_read
        chk.require(returned and before, "C07-G4", where, "the cache hit is returned before fs.open/read_metadata (line records are not re-read)",
                    "the result of read_cache is not returned before the image file is opened and parsed", key="open_image:early-return",
                    sample={"site": short(st, 80)})
        # handler
        trs = enclosing_handlers(call, fi.node)
        caching = repo.module("ceos_alos2.sar_image.caching")
        ce = caching.classes.get("CachingError")
        if ce is None:
            raise AnalysisError("anchor vanished: class CachingError")
        handled = None
        for tr in trs:
            for h in tr.handlers:
                if catches(repo, fi, h, ("repo", caching, ce)):
                    handled = h
                    break
            if handled:
                break
        chk.require(handled is not None and not handler_reraises(handled) and not _returns(handled), "C07-G4", where,
                    "CachingError from the cache lookup is handled by falling through to the parse path",
                    "CachingError from the cache lookup is not handled (or re-raised / returned): with no cache present the product is not parsed",
                    key="open_image:fallback")
        # G7: once read_cache has produced a tree, it is what open_image returns: nothing between the lookup and the
        # return may send a usable cache down the fallback (a raise of a class the fallback handler catches, a condition)
        if handled is not None and isinstance(st, ast.Assign):
            tr_body = None
            for tr in trs:
                if handled in tr.handlers:
                    tr_body = tr.body
            after = []
            if tr_body is not None and st in tr_body:
                after = tr_body[tr_body.index(st) + 1:]
            raisers = _may_raise(op, lambda cls: catches(repo, fi, handled, cls))
            bad = []
            for s2 in after:
                for n2 in ast.walk(s2):
                    if isinstance(n2, ast.Raise):
                        bad.append(short(n2, 50))
                    if isinstance(n2, ast.Call):
                        for cal in resolve_callees(repo, fi, n2.func):
                            if cal.func is not None and cal.func.key in raisers:
                                bad.append(f"{short(n2, 50)} (may raise {raisers[cal.func.key]})")
                if isinstance(s2, ast.If) and any(isinstance(x, ast.Return) for x in ast.walk(s2)):
                    bad.append(f"return under `if {short(s2.test, 40)}`")
            chk.require(not bad, "C07-G7", where, "a tree decoded from the cache is returned as it is (no further validation that could discard it)",
                        f"after the cache lookup succeeded, {bad[0] if bad else ''} can still send open_image down the parse path: a usable cache is discarded and the line records are re-read",
                        key="open_image:hit-unconditional", sample={"between lookup and return": [short(x, 50) for x in after]})
        else:
            chk.ok("C07-G7", where, "the result of read_cache is returned directly")
    # read_cache: every raise is a CachingError-family class, and the function never falls off the end
    rc = op.fi(READ_CACHE)
    raises = [n for n in rc.own_nodes() if isinstance(n, ast.Raise)]
    caching = repo.module("ceos_alos2.sar_image.caching")
    ce = caching.classes["CachingError"]
    from ..callgraph import _terminates, superclasses
    good = bool(raises)
    for r in raises:
        exc = r.exc.func if isinstance(r.exc, ast.Call) else r.exc
        rr = repo.resolve_expr(rc, exc) if exc is not None else None
        if rr is None or rr.kind != "class":
            good = False
            continue
        sup = superclasses(repo, ("repo", rr.mod, rr.node))
        if f"{caching.name}.CachingError" not in sup:
            good = False
    chk.require(good and _terminates(rc.node.body), "C07-G4", op.where(rc),
                "read_cache ends in `raise CachingError` when neither cache exists",
                "read_cache does not signal a missing cache with CachingError (raises something else, or returns None)", key="read_cache:miss")


def _may_raise(op, caught):
    """{function key: class text} for repo functions that can raise (themselves or through repo callees) a class for which
    ``caught(cls)`` holds; classes are resolved, the closure is over the call graph"""
    repo = op.repo
    direct = {}
    for k, f in op.g.funcs.items():
        for n in f.own_nodes():
            if isinstance(n, ast.Raise) and n.exc is not None:
                exc = n.exc.func if isinstance(n.exc, ast.Call) else n.exc
                r = repo.resolve_expr(f, exc)
                cls = ("repo", r.mod, r.node) if r.kind == "class" else (r.fq[len("builtins."):] if r.kind == "external" and r.fq.startswith("builtins.") else None)
                if cls is None and isinstance(exc, ast.Name):
                    cls = exc.id
                try:
                    if cls is not None and caught(cls):
                        direct[k] = norm(exc)
                except Exception:
                    continue
    out = dict(direct)
    changed = True
    while changed:
        changed = False
        for k in op.g.funcs:
            if k in out:
                continue
            for callee in op.g.edges.get(k, ()):
                if callee in out:
                    out[k] = out[callee]
                    changed = True
                    break
    return out


def _returns(handler):
    return any(isinstance(n, ast.Return) for st in handler.body for n in ast.walk(st))


# ----------------------------------------------------------------------------
def _fstring_suffix(node):
    """constant tail of an f-string/str concatenation, and the name of the leading variable"""
    if isinstance(node, ast.JoinedStr) and node.values:
        last = node.values[-1]
        first = node.values[0]
        var = norm(first.value) if isinstance(first, ast.FormattedValue) else None
        if isinstance(last, ast.Constant) and len(node.values) == 2:
            return var, last.value
    if isinstance(node, ast.BinOp) and isinstance(node.op, ast.Add) and isinstance(node.right, ast.Constant):
        return norm(node.left), node.right.value
    return None, None


def naming(chk, op):
    chk.rule("C07-N", "option writer, reader (local and adjacent) and CLI agree on <image file name>.index", 3)
    repo = op.repo
    found = {}
    # local: the last component of the location returned by local_cache_location, evaluated (constant folding of the
    # function's own statements in the shape interpreter) on representative image paths: CEOS names contain dots, the
    # path may have directories
    loc = op.fi(LOCAL_LOC)
    reps = ["IMG-HH-ALOS2012345678-140102-WBDR1.1__D-B3", "IMG-HH-ALOS2012345678-140102-WBDR1.1__D-B1", "IMG-HV-ALOS2012345678-140102-UBSR2.1GUD",
            "sub/dir/IMG-HH-ALOS2012345678-140102-WBDR1.1__D-B1", "a.b/IMG-VV-X", "IMG-NODOT"]
    names = {p: _local_name(repo, loc, p) for p in reps}
    sufs_seen = set()
    bad = None
    for p, n in names.items():
        base = p.rsplit("/", 1)[-1]
        if not n.startswith(base) or "/" in n:
            bad = (p, n)
            break
        sufs_seen.add(n[len(base):])
    if bad is not None:
        p, n = bad
        chk.fail("C07-N", op.where(loc), f"local cache name for image {p!r} is {n!r}: not <image file name> + suffix. It replaces / cuts part of the file name (CEOS names contain dots: "
                                         f"...1.1__D-B3), so all scans of a product share one cache file and the last one written is served for every scan", key="naming:local:fname")
        return
    if len(sufs_seen) != 1:
        chk.fail("C07-N", op.where(loc), f"local cache name suffix depends on the image name: {sorted(sufs_seen)}", key="naming:local:fname")
        return
    chk.ok("C07-N", op.where(loc), f"local cache name is <image file name>{next(iter(sufs_seen))!r} on {len(reps)} representative paths (dotted names, sub-directories)")
    found["local"] = (None, next(iter(sufs_seen)), loc)
    rem = op.fi(REMOTE_LOC)
    # adjacent: remote_cache_location evaluated on the same representatives (it names a key of the product's mapper)
    from ..shapes import Const as _Const, Interp as _Interp, ShapeError as _ShapeError, _Raise as _RaiseX
    adj = set()
    for p in reps:
        I_ = _Interp(repo)
        try:
            v_ = I_.call(I_.lookup(rem.qualname, I_.module_scope(rem.module)), [_Const("memory://root"), _Const(p)], {})
        except (_ShapeError, _RaiseX) as ex:
            raise AnalysisError(f"{rem.key}: cannot evaluate the adjacent cache name for image {p!r}: {str(ex)[:120]}")
        if not (isinstance(v_, _Const) and isinstance(v_.v, str)):
            raise AnalysisError(f"{rem.key}: the adjacent cache name for image {p!r} does not fold to a constant ({v_!r:.60}); not decided")
        if not v_.v.startswith(p):
            chk.fail("C07-N", op.where(rem), f"adjacent cache name for image {p!r} is {v_.v!r}: not <image path> + suffix - the index is not looked up next to its image", key="naming:adjacent")
            return
        adj.add(v_.v[len(p):])
    if len(adj) != 1:
        chk.fail("C07-N", op.where(rem), f"adjacent cache name suffix depends on the image name: {sorted(adj)}", key="naming:adjacent")
        return
    found["adjacent"] = (None, next(iter(adj)), rem)
    sufs = {k: v[1] for k, v in found.items()}
    for k, (var, suf, fi) in found.items():
        chk.require(suf is not None and suf == sufs["local"] and suf.startswith("."), "C07-N", op.where(fi),
                    f"{k} cache name is <file name>{suf!r}",
                    f"{k} cache name suffix is {suf!r}, the library's local cache uses {sufs['local']!r}: caches written there are never found",
                    key=f"naming:{k}", sample={"site": k, "suffix": suf})
    return sufs["local"]


def naming_cli(chk, op):
    """C07-N (form): the stand-alone tool writes `<directory> / f"{name}<suffix>"` with the suffix of the library's local cache.  When the
    target expression has another form, what the tool writes is decided by evaluating it on a model directory (C07-N4)"""
    repo = op.repo
    loc = op.fi(LOCAL_LOC)
    local = {(_local_name(repo, loc, p))[len(p.rsplit("/", 1)[-1]):] for p in ("IMG-HH-ALOS2012345678-140102-WBDR1.1__D-B3", "a.b/IMG-VV-X")}
    if len(local) != 1:
        raise AnalysisError(f"{loc.key}: the local cache name has no single suffix; not decided by the form rule")
    local = next(iter(local))
    cli = op.fi(CLI_CREATE)
    cflow = Flow(cli)
    tgt = None
    for c in calls_in(cli):
        if isinstance(c.func, ast.Attribute) and c.func.attr in ("write_text", "write_bytes"):
            t = cflow.expand(c.func.value)
            if isinstance(t, ast.BinOp) and isinstance(t.op, ast.Div):
                tgt = t.right
    var, suf = _fstring_suffix(tgt) if tgt is not None else (None, None)
    if suf is None:
        raise AnalysisError(f"{op.where(cli)}: the target of the tool's write is not `<directory> / f\"{{name}}<suffix>\"`; decided by evaluating the tool (C07-N4)")
    chk.require(suf == local and suf.startswith("."), "C07-N", op.where(cli), f"cli cache name is <file name>{suf!r}",
                f"cli cache name suffix is {suf!r}, the library's local cache uses {local!r}: caches written there are never found", key="naming:cli", sample={"site": "cli", "suffix": suf})


def naming_writer_reader(chk, op):
    """C07-N (form): create_cache and read_cache call local_cache_location with the same arguments"""
    repo = op.repo
    # writer/reader use the same key: create_cache writes where read_cache looks first
    cc = op.fi(CREATE_CACHE)
    rc = op.fi(READ_CACHE)

    def loc_calls(fi):
        out = []
        for c in calls_in(fi):
            for cal in resolve_callees(repo, fi, c.func):
                if cal.key == LOCAL_LOC:
                    out.append(norm(c))
        return out

    a, b = loc_calls(cc), loc_calls(rc)
    if not (bool(a) and a == b[: len(a)] or (bool(a) and set(a) <= set(b))):
        # whether the reader finds what the writer stored is decided by evaluation (C07-N3)
        raise AnalysisError(f"{op.where(cc)}: create_cache locates the cache with {a}, read_cache with {b}: not the same expression; decided by evaluating both (C07-N3)")
    chk.ok("C07-N", op.where(cc), f"create_cache and read_cache locate the local cache with the same expression {a}")


def write_then_read(chk, repo):
    """C07-N3: what create_cache stores is what read_cache finds, and only for that image of that product: both are evaluated
    against a model of the user cache directory and of the product mapper (vlib/cachefs.py) with the real location functions"""
    from ..cachefs import World, call
    from ..shapes import Const, NonTermination, Obj, ShapeError
    from collections import OrderedDict
    chk.rule("C07-N3", "after create_cache(mapper, path, g), read_cache(mapper, path) returns g; another image / another product root does not find it", 8)
    cach = repo.module("ceos_alos2.sar_image.caching")
    where = f"{cach.relpath}:create_cache/read_cache"
    images = ["IMG-HH-ALOS2012345678-140102-WBDR1.1__D-B3", "sub/dir/IMG-HV-ALOS2012345678-140102-UBSR2.1GUD"]
    others = {"IMG-HH-ALOS2012345678-140102-WBDR1.1__D-B3": "IMG-HH-ALOS2012345678-140102-WBDR1.1__D-B1", "sub/dir/IMG-HV-ALOS2012345678-140102-UBSR2.1GUD": "sub/dir/IMG-HH-ALOS2012345678-140102-UBSR2.1GUD"}
    for root in ("memory://product", "/data/ALOS2/scene"):
        for img in images:
            W = World(repo)
            if root.startswith("/"):
                W.links.add(root)  # a local product directory reached through a link (scratch area, mounted archive)
            try:
                I, sc = W.interp()
                m = W.mapper(root)
                g = Obj("Group", OrderedDict(path=Const("HH"), tag=Const(f"{root}:{img}")))
                sit = f"product {root!r}" + (" (a local directory reached through a link)" if root in W.links else "") + f", image {img!r}"
                k0, v0 = call(I, sc, "read_cache", [m, Const(img), Const(7)])
                chk.require(k0 == "CachingError", "C07-N3", where, f"{sit}: with no cache anywhere read_cache raises CachingError",
                            f"{sit}: with no cache anywhere read_cache {k0} {str(v0)[:60]}", key="write-read:empty")
                kd, vd = call(I, sc, "read_cache", [W.mapper(root, missing="PermissionError"), Const(img), Const(7)])
                chk.require(kd == "CachingError", "C07-N3", where, f"{sit}: with no cache anywhere, on a store that answers the read of a missing object with 'permission denied', read_cache raises CachingError",
                            f"{sit}: with no cache anywhere, on a store that answers the read of a missing object with 'permission denied' (FSMap only turns FileNotFoundError into KeyError; `in` answers False), "
                            f"read_cache {kd} {str(vd)[:60]}: not a CachingError, so the open does not fall back to parsing the image", key="write-read:empty-denied")
                kw, vw = call(I, sc, "create_cache", [m, Const(img), g])
                if kw != "returned":
                    chk.fail("C07-N3", where, f"{sit}: create_cache on an empty cache directory {kw}: {str(vw)[:80]}", key="write-read:write")
                    continue
                kr, vr = call(I, sc, "read_cache", [m, Const(img), Const(7)])
                chk.require(kr == "returned" and vr is g, "C07-N3", where, f"{sit}: read_cache finds what create_cache stored",
                            f"{sit}: after create_cache, read_cache {'returns something else than the stored group' if kr == 'returned' else kr + ' ' + str(vr)[:60]} (written: {sorted('/'.join(p) for p in W.local)}): the writer and the reader do not agree on the location, the cache is never hit",
                            key="write-read:same-image")
                ko, vo = call(I, sc, "read_cache", [m, Const(others[img]), Const(7)])
                chk.require(ko == "CachingError", "C07-N3", where, f"{sit}: another image of the product does not find it",
                            f"{sit}: read_cache for the other image {others[img]!r} {'returns the group stored for ' + img if ko == 'returned' else ko}: images share a cache entry", key="write-read:other-image")
                m2 = W.mapper(root + "-2")
                kp, vp = call(I, sc, "read_cache", [m2, Const(img), Const(7)])
                chk.require(kp == "CachingError", "C07-N3", where, f"{sit}: the same image name under another product root does not find it",
                            f"{sit}: read_cache under product root {root + '-2'!r} {'returns the group stored for ' + root if kp == 'returned' else kp}: products share a cache entry", key="write-read:other-root")
            except (ShapeError, NonTermination, RecursionError) as e:
                raise AnalysisError(f"{where}: cannot be evaluated on the model cache places ({root!r}, {img!r}): {str(e)[:160]}")


def cache_key(chk, op):
    """C07-N2: two different products never share a cache file: the location of the local cache is evaluated (constant
    folding in the shape interpreter, digests by the standard library) on pairs of product roots that are different
    locations and on pairs of image names; different (root, image) must give different locations"""
    chk.rule("C07-N2", "the local cache location separates different product roots and different image files", 6)
    repo = op.repo
    loc = op.fi(LOCAL_LOC)
    img = "IMG-HH-ALOS2012345678-140102-WBDR1.5RUD"
    pairs = [("/archive/ALOS2/scene", "/archive/alos2/scene", "letter case"), ("s3://bucket/Scene-A", "s3://bucket/scene-a", "letter case of the key"),
             ("/data/a b", "/data/ab", "blanks"), ("/data/a", "/data/a/b", "nesting depth"), ("memory://x/p", "file://x/p", "protocol"),
             ("/a/b", "/a_b", "separator characters"), ("/orders/0000276461#1", "/orders/0000276461#2", "text after '#'"), ("/orders/x?v=1", "/orders/x?v=2", "text after '?'"),
             ("/data/scene ", "/data/scene", "trailing blank"), ("/data/Scène", "/data/Scene", "accents"), ("/data/scene.1", "/data/scene.2", "dotted suffix"), ("/data/0123456789/scene", "/data/0123456780/scene", "long common prefix")]
    for r1, r2, what in pairs:
        l1, l2 = _local_parts(repo, loc, r1, img), _local_parts(repo, loc, r2, img)
        chk.require(l1 != l2, "C07-N2", op.where(loc), f"roots differing in {what} get different cache locations",
                    f"product roots {r1!r} and {r2!r} (different locations: {what}) share the cache location {'/'.join(l1)}: the index written for one product is served for the other "
                    f"(its byte ranges, its root)", key=f"cache-key:root:{what}", sample={"roots": [r1, r2], "differ in": what})
    for p1, p2, what in (("IMG-HH-ALOS2012345678-140102-WBDR1.1__D-B1", "IMG-HH-ALOS2012345678-140102-WBDR1.1__D-B2", "scan number"),
                         ("IMG-HH-ALOS2012345678-140102-WBDR1.5RUD", "IMG-HV-ALOS2012345678-140102-WBDR1.5RUD", "polarisation")):
        l1, l2 = _local_parts(repo, loc, "/data/p", p1), _local_parts(repo, loc, "/data/p", p2)
        chk.require(l1 != l2, "C07-N2", op.where(loc), f"images differing in {what} get different cache files",
                    f"images {p1!r} and {p2!r} of one product share the cache location {'/'.join(l1)}", key=f"cache-key:image:{what}")


def _local_parts(repo, loc, root, path):
    """components (below the cache root) of local_cache_location(root, path): the function is evaluated with the user cache
    directory replaced by the model path /CACHE (pathlib and hashlib folded on constants)"""
    import pathlib
    from ..shapes import Const, Interp, ShapeError, _Raise
    I = Interp(repo)
    msc = I.module_scope(loc.module)
    msc.vars["cache_root"] = Const(pathlib.PurePosixPath("/CACHE"))
    try:
        v = I.call(I.lookup(loc.qualname, msc), [Const(root), Const(path)], {})
    except (ShapeError, _Raise) as ex:
        raise AnalysisError(f"{loc.key}: cannot evaluate the cache location for root {root!r}, image {path!r}: {str(ex)[:120]}")
    if not isinstance(v, Const):
        raise AnalysisError(f"{loc.key}: the cache location for root {root!r} does not fold to a constant ({v!r:.80}); not decided")
    p_ = pathlib.PurePosixPath(str(v.v))
    try:
        rel = p_.relative_to("/CACHE")
    except ValueError:
        return ["<outside the user cache directory>"] + list(p_.parts)
    return list(rel.parts)


def _local_name(repo, loc, path):
    parts = _local_parts(repo, loc, "memory://root", path)
    if not parts:
        raise AnalysisError(f"{loc.key}: the cache location for {path!r} is the cache root itself")
    return parts[-1]


# ----------------------------------------------------------------------------
def provenance(chk, op):
    chk.rule("C07-F1", "filesystems used to read product data derive from the live mapper; no protocol-stripped path reaches a protocol-inferring factory", 1)
    repo = op.repo
    enc = repo.module(ENC)
    ea = enc.func("encode_array")
    writer = {}
    from ..cachecodec import _tagged_dicts
    doc = _tagged_dicts(ea).get("backend_array")  # the literal, completed by the entries stored into it afterwards
    if doc is not None:
        for k, v in zip(doc.keys, doc.values):
            if k is not None:
                writer[const_str(k)] = v
    reach = op.g.reachable([OPEN_IMAGE])
    n_sites = 0
    for k in sorted(reach):
        fi = op.g.funcs[k]
        flow = Flow(fi)
        for c in calls_in(fi):
            r = repo.resolve_expr(fi, c.func) if isinstance(c.func, (ast.Name, ast.Attribute)) else None
            if r is None or r.kind != "external" or r.fq not in PROTOCOL_FACTORIES:
                continue
            n_sites += 1
            arg = flow.expand(c.args[0]) if c.args else None
            where = op.where(fi)
            if arg is None:
                continue
            stripped = None
            # fed from a cache key?
            if isinstance(arg, ast.Subscript) and const_str(arg.slice) is not None:
                key = const_str(arg.slice)
                w = writer.get(key)
                if w is not None and _protocol_stripped(w):
                    stripped = f"{ea.qualname} writes {key!r} <- {norm(w)} (protocol stripped); {fi.qualname} feeds it to {r.fq}"
                    fkey = f"encode_array:{key}<-{_rootless(w)}|{fi.qualname}:{r.fq.split('.')[-1]}"
            elif _protocol_stripped(arg):
                stripped = f"{fi.qualname} feeds the protocol-stripped path {norm(arg)} to {r.fq}"
                fkey = f"{fi.qualname}:{_rootless(arg)}|{r.fq.split('.')[-1]}"
            if stripped:
                chk.fail("C07-F1", where, stripped + ": a product on a non-local filesystem is reopened on the local disk", key=fkey)
            else:
                chk.ok("C07-F1", where, f"{short(c, 70)} is not fed a protocol-stripped path")
    # the uncached path builds its filesystem from the live mapper
    oi = op.fi(OPEN_IMAGE)
    ok = False
    for c in calls_in(oi):
        if norm(c.func).endswith("DirFileSystem"):
            kw = {k.arg: norm(k.value) for k in c.keywords}
            ok = kw.get("fs") == "mapper.fs" and kw.get("path") == "mapper.root"
    chk.require(ok, "C07-F1", op.where(oi), "uncached path: fs = DirFileSystem(path=mapper.root, fs=mapper.fs) derives from the live mapper",
                "uncached path does not build its filesystem from the live mapper", key="open_image:dirfs")


def _rootless(e):
    """attribute chain without the name of the variable it starts from (keys of findings survive a renamed local)"""
    t = norm(e)
    root = e
    while isinstance(root, (ast.Attribute, ast.Subscript, ast.Call)):
        root = root.value if not isinstance(root, ast.Call) else root.func
    if isinstance(root, ast.Name) and t.startswith(root.id):
        return "<x>" + t[len(root.id):]
    return t


def _protocol_stripped(e):
    t = norm(e)
    return t.endswith(".fs.path") or t.endswith("mapper.root") or t.endswith(".root") or t.endswith("._strip_protocol(path)")


def cli_index(chk, repo):
    """C07-N4: the stand-alone tool (sar_image.cli.create_cache) evaluated on a model directory (vlib/cachefs.py) with open_image,
    caching.encode and fsspec as recording stubs: the index it writes next to an image is the encoding of the group open_image built
    for THAT image, under `<image file name>.index`; when it is given a directory (if the tool accepts one) an image that cannot be
    opened gets no index, and no image gets the index of another"""
    from collections import OrderedDict
    from ..cachefs import World
    from ..shapes import Const, DictS, Fn, Interp, NonTermination, Obj, ShapeError, _Raise
    chk.rule("C07-N4", "the stand-alone tool writes, next to each image it indexes, the encoding of that image's own group as <image file name>.index", 1)
    cm = repo.module("ceos_alos2.sar_image.cli")
    where = f"{cm.relpath}:create_cache"
    HH, HV = "IMG-HH-ALOS2012345678-160229-UBSL1.1__D", "IMG-HV-ALOS2012345678-160229-UBSL1.1__D"

    enc_extra = []

    def run(target, broken=()):
        W = World(repo)
        prod = ("data", "product")
        W.dirs.update({("data",), prod})
        for nm in (HH, HV, "LED-X", "summary.txt"):
            W.local[prod + (nm,)] = Const(b"bytes of " + nm.encode())
        I = Interp(repo)
        sc = I.module_scope(cm)
        opened = []

        def open_image(I_, a, kw):
            path = a[1] if len(a) > 1 else kw.get("path")
            name = path.v if isinstance(path, Const) else None
            opened.append(name)
            if name in broken:
                raise _Raise(f"ValueError: sizes mismatch in {name}", ["ValueError", "Exception", "BaseException", "object"])
            return Obj("Group", OrderedDict(path=Const(name.split("-")[1] if name else "?"), of=Const(name)))

        def encode(I_, a, kw):
            g = a[0] if a else None
            if len(a) > 1 or kw:
                enc_extra.append((list(a[1:]), dict(kw)))
            return Obj("Text", OrderedDict(of=g.fields.get("of") if isinstance(g, Obj) else Const(None)))
        sc.vars["open_image"] = Fn("py", impl=open_image, name="open_image")
        # the caching package as it is (location helpers, ...), with encode replaced by the recording stub
        cmod = repo.module("ceos_alos2.sar_image.caching")
        I.module_scope(cmod).vars["encode"] = Fn("py", impl=encode, name="encode")
        from ..shapes import ModuleRef
        sc.vars["caching"] = ModuleRef(mod=cmod)
        sc.vars["fsspec"] = Obj("fsspec", OrderedDict(get_mapper=Fn("py", impl=lambda I_, a, kw: Obj("Mapper", OrderedDict(root=a[0] if a else Const("?"))), name="get_mapper")))
        arg = W.path(prod + ((target,) if target else ()))
        try:
            I.call(I.lookup("create_cache", sc), [arg, Const(None)], OrderedDict(records_per_chunk=Const(7)))
            outcome = "returned"
        except _Raise as e:
            outcome = f"raised: {e.what[:60]}"
        written = {p_[-1]: (v_.fields["of"].v if isinstance(v_, Obj) and v_.cls == "Text" and isinstance(v_.fields.get("of"), Const) else repr(v_)) for p_, v_ in W.local.items() if p_[-1].endswith(".index")}
        elsewhere = [p_ for p_ in W.local if p_[-1].endswith(".index") and p_[:-1] != prod]
        return outcome, written, elsewhere
    try:
        outcome, written, elsewhere = run(HH)
        chk.require(outcome == "returned" and written == {HH + ".index": HH} and not elsewhere, "C07-N4", where, "one image: <name>.index next to it holds the encoding of its own group",
                    f"asked to index {HH}: {outcome}; index files written: {written}" + (f", outside the product directory: {elsewhere}" if elsewhere else ""), key="cli:single")
        outcome, written, elsewhere = run(None, broken=(HV,))
        if outcome.startswith("raised") and not written:
            chk.ok("C07-N4", where, "a directory is not accepted (or nothing is written for it)")
        else:
            crossed = {k: v for k, v in written.items() if k != str(v) + ".index"}
            chk.require(not crossed and HV + ".index" not in written, "C07-N4", where, "a directory: each image that opens gets its own index, the one that does not gets none",
                        f"asked to index the product directory while {HV} cannot be opened: index files written {written} - " + (f"{sorted(crossed)[0]} holds the group of {crossed[sorted(crossed)[0]]}" if crossed else f"{HV}.index was written although the image could not be opened"),
                        key="cli:directory")
    except (ShapeError, NonTermination, RecursionError) as e:
        raise AnalysisError(f"{where}: cannot be evaluated on the model directory: {str(e)[:160]}")
    if enc_extra:
        # the tool hands caching.encode more than the group: an index written that way must still be read like one the library writes
        # (the codec composed with itself, encode called the way the tool calls it, decode asked for another records_per_chunk)
        from ..codecmodel import judge as codec_judge, run_roundtrip
        extra = enc_extra[0]
        if not all(isinstance(v, Const) for v in list(extra[0]) + list(extra[1].values())):
            raise AnalysisError(f"{where}: caching.encode is given further arguments that are not constants in the model ({extra!r:.80}); not decided")
        R = run_roundtrip(repo, rpc=3, encode_extra=extra)
        for key, ok, good, bad in codec_judge(R, "HH_scan3", 3):
            if ok is None:
                raise AnalysisError(f"{where}: the round trip of an index written the way the tool writes it cannot be evaluated: {str(bad)[:160]}")
            chk.require(ok, "C07-N4", where, f"an index written with encode(group, {', '.join(extra[1]) or '...'}) reads like the library's own: {key}",
                        f"the tool calls caching.encode(group, {', '.join(f'{k}={v.v!r}' for k, v in extra[1].items()) or '...'}); an index written that way and read with records_per_chunk=3: {bad}", key=f"cli:encode-extra:{key}")
