"""E1 -- abstract interpreter for the ``construct`` struct DSL as used by the repo.

Evaluates module-level struct expressions from the AST (never imports the
package) into an ordered list of leaves with symbolic offsets/widths.

Modelled fragment (anything else -> AnalysisError, exit 2):
  Struct(...), "name" / sub, sub[count], Array(count, sub), Int8ub/Int16ub/
  Int32ub/Int64ub (+ signed/little variants by name), Bytes(n),
  PaddedString(n, enc), Padding(n), Enum(sub, **map), Tell, Seek(expr),
  Computed(expr), this.a.b / this._.a, x.sizeof(), integer arithmetic, dict
  literals with .get, and the repository's own Adapter subclasses, whose
  ``__init__`` bodies are interpreted (widths are NOT hard-coded here).

Trusted semantics of construct's primitives: a renamed field consumes its
sub-construct; Seek sets the position; Tell/Computed consume nothing;
PaddedString(n)/Bytes(n)/Padding(n) consume exactly n bytes and fail on short
input; IntNub consume N/8 bytes big-endian; Struct is sequential; Array(count)
repeats its element ``count`` times back to back; Struct opens a new context
level for ``this`` while Array/Renamed/Adapter do not.
"""

from __future__ import annotations

import ast
import re

from .core import AnalysisError, norm
from .poly import Poly, lift

INT_PRIMS = {}
for _bits in (8, 16, 24, 32, 64):
    for _sign in ("Int", "UInt"):
        for _end in ("ub", "sb", "ul", "sl", "un", "sn"):
            nm = f"Int{_bits}{_end}"
            INT_PRIMS[nm] = {
                "size": _bits // 8,
                "signed": _end[0] == "s",
                "endian": {"b": "big", "l": "little", "n": "native"}[_end[1]],
            }

UNMODELLED_CTORS = {
    "Pointer", "Peek", "Const", "Switch", "If", "IfThenElse", "Optional", "GreedyRange",
    "RepeatUntil", "Prefixed", "PrefixedArray", "NullTerminated",
    "GreedyString", "CString", "PascalString", "Union", "Select", "LazyStruct", "Rebuild",
    "Default", "Check", "StopIf", "Terminated", "Aligned", "AlignedStruct", "BitStruct",
    "Bitwise", "FocusedSeq", "Sequence", "Lazy", "RestreamData",
}


class UnmodelledConstruct(AnalysisError):
    """a construct class outside the modelled fragment (carries its name)"""

    def __init__(self, name, where):
        super().__init__(f"construct.{name} is outside the modelled fragment ({where})")
        self.name = name


class OpaqueValue:
    """value of an adapter attribute the layout evaluator does not compute (it does not take part in sizes or offsets)"""

    def __init__(self, text):
        self.text = text

    def __repr__(self):
        return f"<{self.text}>"

    def __eq__(self, other):
        return isinstance(other, OpaqueValue) and other.text == self.text

    def __hash__(self):
        return hash(self.text)


class SymCond:
    """a comparison over values parsed from the stream (this.count > 0): decided per file, not per layout"""

    def __init__(self, text):
        self.text = text

    def __repr__(self):
        return f"<condition {self.text}>"

    def __bool__(self):
        raise AnalysisError(f"the layout branches on a parsed value ({self.text}) outside a conditional construct")


class Closure:
    def __init__(self, node, env, mod):
        self.node = node
        self.env = env
        self.mod = mod


class This:
    def __init__(self, ups=0, names=()):
        self.ups = ups
        self.names = tuple(names)

    def attr(self, n):
        if n == "_":
            if self.names:
                raise AnalysisError("this.<field>._ is not modelled")
            return This(self.ups + 1, ())
        return This(self.ups, self.names + (n,))

    def symbol(self):
        return f"this^{self.ups}:{'.'.join(self.names)}"

    def __repr__(self):
        return "this" + "._" * self.ups + "".join("." + n for n in self.names)


_THIS_RE = re.compile(r"^this\^(\d+):(.*)$")


class Con:
    def __init__(self, kind, **kw):
        self.kind = kind
        self.__dict__.update(kw)

    def __repr__(self):
        return f"Con({self.kind})"


class SelfObj:
    def __init__(self, classattrs, mod):
        self.classattrs = classattrs
        self.mod = mod
        self.attrs = {}


class Leaf:
    """one entry of a flattened layout"""

    def __init__(self, **kw):
        self.path = kw.pop("path")
        self.kind = kw.pop("kind")  # field | composite | array | tell | seek | computed
        self.offset = kw.pop("offset")
        self.width = kw.pop("width", None)
        self.base = kw.pop("base", None)
        self.base_args = kw.pop("base_args", {})
        self.chain = kw.pop("chain", [])  # adapters, outermost first
        self.strides = kw.pop("strides", [])  # [(array path, count Poly, elem size Poly)]
        self.extra = kw

    @property
    def name(self):
        return ".".join(self.path)

    def codec(self):
        """hashable, order-preserving description of how bytes become a value"""
        steps = []
        for a in self.chain:
            steps.append(describe_adapter(a))
        b = self.base or self.kind
        if self.base_args:
            b += "(" + ",".join(f"{k}={v}" for k, v in sorted(self.base_args.items())) + ")"
        steps.append(b)
        return steps

    def __repr__(self):
        return f"<{self.kind} {self.name} @{self.offset} +{self.width} {self.codec()}>"


def describe_adapter(a):
    if a["kind"] == "Enum":
        m = ",".join(f"{k}={v!r}" for k, v in sorted(a["mapping"].items(), key=lambda kv: repr(kv[1])))
        return f"Enum({m})"
    attrs = a.get("attrs", {})
    parts = []
    for k, v in sorted(attrs.items()):
        parts.append(f"{k}={v!r}")
    return a["cls"] + ("(" + ",".join(parts) + ")" if parts else "")


class LayoutEval:
    def __init__(self, repo):
        self.repo = repo
        self._cache = {}

    # ------------------------------------------------------------------ values
    def module_value(self, modname, name):
        key = (modname, name)
        if key not in self._cache:
            mod = self.repo.module(modname)
            if self.module_is_dynamic(mod):
                env = self.module_env(mod)
                if name not in env:
                    raise AnalysisError(f"anchor vanished: {modname}:{name}")
                self._cache[key] = env[name]
                return self._cache[key]
            exprs = mod.assigns.get(name)
            if not exprs:
                r = self.repo.resolve_module_name(mod, name)
                if r.kind == "value" and r.mod is not mod:
                    # re-exported from the module of the package that defines it now
                    self._cache[key] = self.module_value(r.mod.name, r.name if hasattr(r, "name") else name)
                    return self._cache[key]
                raise AnalysisError(f"anchor vanished: {modname}:{name}")
            if len(exprs) != 1:
                raise AnalysisError(f"{modname}:{name} is assigned {len(exprs)} times")
            self._cache[key] = self.ev(exprs[0], mod, {})
        return self._cache[key]

    def resolve(self, mod, name):
        r = self.repo.resolve_module_name(mod, name)
        return r

    def module_is_dynamic(self, mod):
        """does the module build layout values with statements (loops, item stores) rather than one expression per name?"""
        if not hasattr(self, "_dyn"):
            self._dyn = {}
        if mod.name not in self._dyn:
            self._dyn[mod.name] = any(isinstance(st, (ast.For, ast.While)) or (isinstance(st, (ast.Assign, ast.AugAssign)) and any(isinstance(t, ast.Subscript) for t in (st.targets if isinstance(st, ast.Assign) else [st.target])))
                                      for st in mod.tree.body)
        return self._dyn[mod.name]

    def module_env(self, mod):
        """the module's global scope after its top-level statements ran (constant folding): one dict, shared by reference with the
        closures created while it ran - a lambda in a loop sees the loop variable's final value, as in Python"""
        if not hasattr(self, "_menv"):
            self._menv = {}
        if mod.name in self._menv:
            return self._menv[mod.name]
        env = {}
        self._menv[mod.name] = env
        self._exec_top(mod.tree.body, mod, env)
        return env

    def _exec_top(self, body, mod, env):
        for st in body:
            if isinstance(st, (ast.Import, ast.ImportFrom, ast.FunctionDef, ast.AsyncFunctionDef, ast.ClassDef, ast.Pass)):
                continue
            if isinstance(st, ast.Expr) and isinstance(st.value, ast.Constant):
                continue
            if isinstance(st, ast.Assign):
                v = self.ev(st.value, mod, env)
                for t in st.targets:
                    self._store_top(t, v, mod, env)
                continue
            if isinstance(st, ast.AnnAssign) and st.value is not None:
                self._store_top(st.target, self.ev(st.value, mod, env), mod, env)
                continue
            if isinstance(st, ast.For):
                it = self.ev(st.iter, mod, env)
                if isinstance(it, dict):
                    it = list(it)
                if not isinstance(it, (list, tuple, range, str)):
                    raise AnalysisError(f"module-level loop over a non-literal collection: {norm(st.iter)[:80]} ({mod.name})")
                for x in it:
                    self._store_top(st.target, x, mod, env)
                    self._exec_top(st.body, mod, env)
                continue
            if isinstance(st, ast.If):
                t = self.ev(st.test, mod, env)
                if not isinstance(t, bool):
                    raise AnalysisError(f"module-level condition {norm(st.test)[:60]} is not decidable ({mod.name})")
                self._exec_top(st.body if t else st.orelse, mod, env)
                continue
            if isinstance(st, ast.Expr) and isinstance(st.value, ast.Call) and isinstance(st.value.func, ast.Attribute) and st.value.func.attr in ("append", "update", "extend", "setdefault"):
                recv = self.ev(st.value.func.value, mod, env)
                args = [self.ev(a, mod, env) for a in st.value.args]
                if isinstance(recv, list) and st.value.func.attr == "append":
                    recv.append(args[0])
                elif isinstance(recv, list) and st.value.func.attr == "extend":
                    recv.extend(args[0])
                elif isinstance(recv, dict) and st.value.func.attr == "update" and isinstance(args[0], dict):
                    recv.update(args[0])
                elif isinstance(recv, dict) and st.value.func.attr == "setdefault":
                    recv.setdefault(args[0], args[1] if len(args) > 1 else None)
                else:
                    raise AnalysisError(f"module-level statement {norm(st)[:80]} is outside the modelled fragment ({mod.name})")
                continue
            if isinstance(st, (ast.Try, ast.With, ast.While, ast.Expr, ast.AugAssign, ast.Delete, ast.Assert, ast.Global)):
                # statements that do not take part in building layouts are skipped only when they cannot bind a name a layout uses
                bound = {n.id for n in ast.walk(st) if isinstance(n, ast.Name) and isinstance(n.ctx, ast.Store)}
                for b in bound:
                    env.pop(b, None)
                continue

    def _store_top(self, target, value, mod, env):
        if isinstance(target, ast.Name):
            env[target.id] = value
        elif isinstance(target, (ast.Tuple, ast.List)) and isinstance(value, (list, tuple)) and len(value) == len(target.elts):
            for t, v in zip(target.elts, value):
                self._store_top(t, v, mod, env)
        elif isinstance(target, ast.Subscript):
            recv = self.ev(target.value, mod, env)
            key = self.ev(target.slice, mod, env)
            if isinstance(recv, (dict, list)):
                recv[key] = value
            else:
                raise AnalysisError(f"module-level item store on {norm(target.value)} is outside the modelled fragment ({mod.name})")
        else:
            raise AnalysisError(f"module-level assignment target {norm(target)[:60]} is outside the modelled fragment ({mod.name})")

    def ev(self, node, mod, local):
        if isinstance(node, ast.Constant):
            return node.value
        if isinstance(node, ast.Name):
            if node.id in local:
                return local[node.id]
            r = self.resolve(mod, node.id)
            if r.kind == "external":
                return self.external(r.fq)
            if r.kind == "value" and self.module_is_dynamic(r.mod):
                env = self.module_env(r.mod)
                if r.name in env:
                    return env[r.name]
                raise AnalysisError(f"{r.mod.name}:{node.id} is not bound after the module's top-level statements")
            if r.kind == "value":
                if len(r.exprs) != 1:
                    raise AnalysisError(f"{r.mod.name}:{node.id} assigned more than once")
                key = (r.mod.name, r.name)
                if key not in self._cache:
                    self._cache[key] = self.ev(r.exprs[0], r.mod, {})
                return self._cache[key]
            if r.kind == "class":
                return ("class", r.mod, r.node)
            if r.kind == "func":
                return ("func", r.func)
            if node.id in ("max", "min", "len", "int", "range", "zip", "enumerate", "list", "tuple", "dict", "str", "sorted", "reversed", "sum"):
                return ("builtin", node.id)
            raise AnalysisError(f"cannot resolve name {node.id!r} in {mod.name}")
        if isinstance(node, ast.Attribute):
            v = self.ev(node.value, mod, local)
            if isinstance(v, This):
                return v.attr(node.attr)
            if isinstance(v, Con) and node.attr == "sizeof":
                return ("sizeof", v)
            if isinstance(v, dict) and node.attr == "get":
                return ("dictget", v)
            if isinstance(v, dict) and node.attr in ("items", "keys", "values"):
                return ("dictmethod", v, node.attr)
            if isinstance(v, SelfObj):
                if node.attr in v.attrs:
                    return v.attrs[node.attr]
                if node.attr in v.classattrs:
                    return self.ev(v.classattrs[node.attr], v.mod, {})
                raise AnalysisError(f"self.{node.attr} unknown in adapter constructor")
            if isinstance(v, tuple) and v[0] == "ext":
                return self.external(v[1] + "." + node.attr)
            raise AnalysisError(f"unmodelled attribute access: {norm(node)} ({mod.name})")
        if isinstance(node, ast.Dict):
            out = {}
            for k, v in zip(node.keys, node.values):
                if k is None:
                    raise AnalysisError("dict unpacking in a layout expression")
                out[self.ev(k, mod, local)] = self.ev(v, mod, local)
            return out
        if isinstance(node, (ast.Tuple, ast.List)):
            return [self.ev(e, mod, local) for e in node.elts]
        if isinstance(node, ast.UnaryOp) and isinstance(node.op, ast.USub):
            v = self.ev(node.operand, mod, local)
            if isinstance(v, (int, float)):
                return -v
            return -self.num(v)
        if isinstance(node, ast.BinOp):
            if isinstance(node.op, ast.Div):
                left = self.ev(node.left, mod, local)
                if isinstance(left, str):
                    sub = self.ev(node.right, mod, local)
                    return Con("renamed", name=left, sub=self.as_con(sub, node), node=node, mod=mod.name)
            left = self.ev(node.left, mod, local)
            right = self.ev(node.right, mod, local)
            if isinstance(left, str) and isinstance(right, str) and isinstance(node.op, ast.Add):
                return left + right
            if isinstance(left, (int, float)) and isinstance(right, (int, float)) and not isinstance(left, bool):
                ops = {
                    ast.Add: lambda a, b: a + b, ast.Sub: lambda a, b: a - b,
                    ast.Mult: lambda a, b: a * b, ast.FloorDiv: lambda a, b: a // b,
                    ast.Pow: lambda a, b: a ** b, ast.Mod: lambda a, b: a % b,
                    ast.Div: lambda a, b: a / b,
                }
                f = ops.get(type(node.op))
                if f is None:
                    raise AnalysisError(f"unmodelled operator in {norm(node)}")
                return f(left, right)
            l, r = self.num(left), self.num(right)
            if isinstance(node.op, ast.Add):
                return l + r
            if isinstance(node.op, ast.Sub):
                return l - r
            if isinstance(node.op, ast.Mult):
                return l * r
            if isinstance(node.op, ast.FloorDiv) and l.is_const() and r.is_const():
                return l.value() // r.value()
            if isinstance(node.op, ast.Mod) and l.is_const() and r.is_const() and r.value() != 0:
                return l.value() % r.value()
            if isinstance(node.op, (ast.FloorDiv, ast.Mod)):
                # not a polynomial: kept as an atom that folds once the record's counts / lengths are given values
                return Poly.func("floordiv" if isinstance(node.op, ast.FloorDiv) else "mod", [l, r])
            raise AnalysisError(f"unmodelled arithmetic in layout: {norm(node)}")
        if isinstance(node, ast.Subscript):
            v = self.ev(node.value, mod, local)
            if isinstance(v, This):
                k_ = self.ev(node.slice, mod, local)
                if isinstance(k_, str):
                    return v.attr(k_)  # ctx["name"] is ctx.name
                raise AnalysisError(f"layout expression {norm(node)[:80]}: context subscript with a non-constant key")
            if isinstance(v, dict):
                k_ = self.ev(node.slice, mod, local)
                if k_ not in v:
                    raise AnalysisError(f"layout expression {norm(node)[:80]}: no entry {k_!r} ({mod.name})")
                return v[k_]
            c = self.ev(node.slice, mod, local)
            return Con("array", sub=self.as_con(v, node), count=self.num(c), node=node)
        if isinstance(node, ast.Compare) and len(node.ops) == 1:
            l = self.ev(node.left, mod, local)
            r = self.ev(node.comparators[0], mod, local)
            op = node.ops[0]
            if isinstance(op, ast.Is):
                return l is r
            if isinstance(op, ast.IsNot):
                return l is not r
            if isinstance(op, ast.Eq):
                return l == r
            if isinstance(op, ast.NotEq):
                return l != r
            if isinstance(op, (ast.In, ast.NotIn)) and isinstance(r, (dict, list, tuple, str)):
                try:
                    res = l in r
                except TypeError:
                    raise AnalysisError(f"unmodelled comparison {norm(node)}")
                return res if isinstance(op, ast.In) else not res
            if isinstance(op, (ast.Lt, ast.LtE, ast.Gt, ast.GtE)) and isinstance(l, (int, float)) and isinstance(r, (int, float)):
                return {ast.Lt: l < r, ast.LtE: l <= r, ast.Gt: l > r, ast.GtE: l >= r}[type(op)]
            if isinstance(op, (ast.Lt, ast.LtE, ast.Gt, ast.GtE)) and any(isinstance(x, (Poly, This)) for x in (l, r)):
                return SymCond(norm(node))  # a condition on parsed values: only meaningful as an argument of a conditional construct
            raise AnalysisError(f"unmodelled comparison {norm(node)}")
        if isinstance(node, ast.JoinedStr):
            parts = []
            for v in node.values:
                if isinstance(v, ast.Constant):
                    parts.append(str(v.value))
                    continue
                try:
                    x = self.ev(v.value, mod, local)
                except AnalysisError:
                    return "<fstring>"
                if not isinstance(x, (str, int)) or isinstance(x, bool) or v.conversion != -1:
                    return "<fstring>"
                if v.format_spec is not None:
                    spec = self.ev(v.format_spec, mod, local)
                    if not isinstance(spec, str) or "<fstring>" in spec:
                        return "<fstring>"
                    parts.append(format(x, spec))
                else:
                    parts.append(str(x))
            return "".join(parts)
        if isinstance(node, (ast.ListComp, ast.GeneratorExp, ast.SetComp, ast.DictComp)):
            return self.comprehension(node, mod, local)
        if isinstance(node, ast.Starred):
            raise AnalysisError(f"unmodelled layout expression: {norm(node)[:120]} ({mod.name})")
        if isinstance(node, ast.IfExp):
            test = self.ev(node.test, mod, local)
            if not isinstance(test, bool):
                raise AnalysisError(f"layout expression: undecidable condition {norm(node.test)}")
            return self.ev(node.body if test else node.orelse, mod, local)
        if isinstance(node, ast.Call):
            return self.call(node, mod, local)
        if isinstance(node, ast.Lambda):
            return Closure(node, local, mod)  # by reference: free variables are looked up when the closure is called
        raise AnalysisError(f"unmodelled layout expression: {norm(node)[:120]} ({mod.name})")

    def comprehension(self, node, mod, local):
        """comprehensions over literal collections used to generate fields (constant folding)"""
        results = []

        def bind(target, value, env):
            if isinstance(target, ast.Name):
                env[target.id] = value
            elif isinstance(target, (ast.Tuple, ast.List)):
                vals = list(value) if isinstance(value, (list, tuple)) else None
                if vals is None or len(vals) != len(target.elts):
                    raise AnalysisError(f"layout comprehension: cannot unpack {value!r} into {norm(target)}")
                for t, v in zip(target.elts, vals):
                    bind(t, v, env)
            else:
                raise AnalysisError(f"layout comprehension: unsupported target {norm(target)}")

        def rec(i, env):
            if i == len(node.generators):
                if isinstance(node, ast.DictComp):
                    results.append((self.ev(node.key, mod, env), self.ev(node.value, mod, env)))
                else:
                    results.append(self.ev(node.elt, mod, env))
                return
            g = node.generators[i]
            it = self.ev(g.iter, mod, env)
            if isinstance(it, dict):
                it = list(it)
            if not isinstance(it, (list, tuple, range, str)):
                raise AnalysisError(f"layout comprehension over a non-literal collection: {norm(g.iter)[:80]} ({mod.name})")
            for x in it:
                bind(g.target, x, env)  # the comprehension has ONE scope: a closure made in an iteration sees the variable's last value
                ok = True
                for cond in g.ifs:
                    c = self.ev(cond, mod, env)
                    if not isinstance(c, bool):
                        raise AnalysisError(f"layout comprehension: undecidable filter {norm(cond)}")
                    ok = ok and c
                if ok:
                    rec(i + 1, env)

        rec(0, dict(local))
        if isinstance(node, ast.DictComp):
            return dict(results)
        return results

    def external(self, fq):
        if fq.startswith("construct."):
            n = fq.split(".")[-1]
            if n in INT_PRIMS:
                return Con("int", size=lift(INT_PRIMS[n]["size"]), name=n)
            if n == "this":
                return This()
            if n == "Tell":
                return Con("tell", size=lift(0))
            if n == "GreedyBytes":
                return Con("greedybytes")
            if n in ("Byte",):
                return Con("int", size=lift(1), name="Int8ub")
            if n in ("Short", "Int", "Long"):
                sz = {"Short": 2, "Int": 4, "Long": 8}[n]
                return Con("int", size=lift(sz), name=f"Int{sz * 8}ub")
            if n in UNMODELLED_CTORS:
                return ("ctor_unmodelled", n)
            return ("ctor", n)
        return ("ext", fq)

    def as_con(self, v, node):
        if isinstance(v, Con):
            return v
        raise AnalysisError(f"expected a construct, got {v!r} in {norm(node)[:100]}")

    def lazy_num(self, v):
        """a length given as a context function is evaluated when the field is parsed, not when the struct is defined (a lambda
        made in a loop sees the loop variable's final value)"""
        if isinstance(v, tuple) and len(v) == 2 and v[0] == "func":
            v = Closure(v[1].node, {}, v[1].module)  # a named context function (def n(ctx): ...) used like a context lambda
        return v if isinstance(v, Closure) else self.num(v)

    def num(self, v):
        if isinstance(v, tuple) and len(v) == 2 and v[0] == "func":
            v = Closure(v[1].node, {}, v[1].module)
        if isinstance(v, Closure):
            # a context lambda / function used as a length: evaluate it on the symbolic context
            return self.num(self.call_closure(v, [This()], {}))
        if isinstance(v, This):
            if not v.names:
                raise AnalysisError("bare `this` used as a number")
            return Poly.sym(v.symbol())
        if isinstance(v, bool):
            raise AnalysisError("boolean used as a size")
        if isinstance(v, (int, Poly)):
            return lift(v)
        raise AnalysisError(f"not an integer size: {v!r}")

    def call(self, node, mod, local):
        f = self.ev(node.func, mod, local) if not self._is_super_init(node) else ("super_init",)
        args = []
        for a in node.args:
            if isinstance(a, ast.Starred):
                v = self.ev(a.value, mod, local)
                if isinstance(v, dict):
                    v = list(v)
                if not isinstance(v, (list, tuple)):
                    raise AnalysisError(f"*{norm(a.value)[:60]} is not a literal sequence in a layout expression ({mod.name})")
                args.extend(v)
            else:
                args.append(self.ev(a, mod, local))
        kwargs = {}
        for k in node.keywords:
            if k.arg is None:
                v = self.ev(k.value, mod, local)
                if not isinstance(v, dict):
                    raise AnalysisError("**kwargs of unknown shape in a layout expression")
                kwargs.update(v)
            else:
                kwargs[k.arg] = self.ev(k.value, mod, local)
        if isinstance(f, Closure):
            return self.call_closure(f, args, kwargs)
        if isinstance(f, tuple) and f[0] == "ext" and f[1] in ("functools.partial", "tlz.functoolz.curry", "toolz.functoolz.curry", "tlz.curry", "toolz.curry", "cytoolz.curry") and args:
            return ("partial", args[0], tuple(args[1:]), tuple(sorted(kwargs.items(), key=lambda kv: kv[0])))
        if isinstance(f, tuple) and f[0] == "partial":
            # functools.partial(Enum, Int16ub)(name=1, ...): the bound arguments come first
            inner, pre_args, pre_kwargs = f[1], list(f[2]), dict(f[3])
            pre_kwargs.update(kwargs)
            call2 = ast.Call(func=ast.Name(id="__partial_target__", ctx=ast.Load()), args=[], keywords=[])
            ast.copy_location(call2, node)
            env2 = dict(local)
            env2["__partial_target__"] = inner
            names = []
            for i, a in enumerate(pre_args + args):
                env2[f"__parg{i}__"] = a
                names.append(ast.Name(id=f"__parg{i}__", ctx=ast.Load()))
            kws = []
            for k_, v_ in pre_kwargs.items():
                env2[f"__pkw_{k_}__"] = v_
                kws.append(ast.keyword(arg=k_, value=ast.Name(id=f"__pkw_{k_}__", ctx=ast.Load())))
            call2.args, call2.keywords = names, kws
            ast.fix_missing_locations(call2)
            return self.call(call2, mod, env2)
        if isinstance(f, tuple):
            if f[0] == "sizeof":
                sz = self.static_size(f[1])
                return sz
            if f[0] == "dictget":
                return f[1].get(args[0], args[1] if len(args) > 1 else None)
            if f[0] == "ctor_unmodelled":
                ex = UnmodelledConstruct(f[1], mod.name)
                if f[1] == "Pointer" and args:
                    off = args[0]
                    try:
                        off = self.num(off)
                        off = off.value() if off.is_const() else None
                    except AnalysisError:
                        off = None
                    ex.from_end = isinstance(off, (int, float)) and off < 0
                raise ex
            if f[0] == "builtin" and f[1] in ("max", "min"):
                vals = args[0] if len(args) == 1 and isinstance(args[0], list) else args
                if all(isinstance(x, (int, float)) and not isinstance(x, bool) for x in vals):
                    return {"max": max, "min": min}[f[1]](vals)
                return Poly.func(f[1], [self.num(x) for x in vals])
            if f[0] == "builtin" and f[1] in ("range", "zip", "enumerate", "list", "tuple", "dict", "str", "sorted", "reversed", "len", "int", "sum"):
                plain = lambda x: isinstance(x, (int, str, list, tuple, dict, range)) and not isinstance(x, bool)
                if all(plain(x) for x in args) and all(plain(x) for x in kwargs.values()):
                    try:
                        out = {"range": range, "zip": zip, "enumerate": enumerate, "list": list, "tuple": tuple, "dict": dict, "str": str, "sorted": sorted,
                               "reversed": reversed, "len": len, "int": int, "sum": sum}[f[1]](*args, **kwargs)
                    except Exception as e:
                        raise AnalysisError(f"layout expression {norm(node)[:80]} does not evaluate: {e}")
                    if f[1] in ("range", "zip", "enumerate", "reversed", "sorted", "tuple"):
                        out = [list(x) if isinstance(x, tuple) else x for x in out]
                    return out
                raise AnalysisError(f"unmodelled call in layout: {norm(node)[:120]} ({mod.name})")
            if f[0] == "dictmethod":
                d, m = f[1], f[2]
                return {"items": lambda: [[k, v] for k, v in d.items()], "keys": lambda: list(d), "values": lambda: list(d.values())}[m]()
            if f[0] == "func":
                return self.call_function(f[1], args, kwargs)
            if f[0] == "ctor":
                return self.ctor(f[1], args, kwargs, node)
            if f[0] == "class":
                return self.instantiate(f[1], f[2], args, kwargs, node)
            if f[0] == "ext" and f[1] in ("enum.IntEnum", "enum.Enum", "enum.IntFlag", "enum.Flag") and len(args) >= 2:
                # the functional API: IntEnum("Name", names, start=1) - names as a list / string of names (numbered from `start`), pairs or a mapping
                names, start = args[1], kwargs.get("start", 1)
                if isinstance(names, str):
                    names = names.replace(",", " ").split()
                if isinstance(names, dict):
                    members = dict(names)
                elif isinstance(names, list) and all(isinstance(x, str) for x in names) and isinstance(start, int):
                    members = {nm: start + i for i, nm in enumerate(names)}
                elif isinstance(names, list) and all(isinstance(x, (list, tuple)) and len(x) == 2 for x in names):
                    members = {x[0]: x[1] for x in names}
                else:
                    raise AnalysisError(f"layout: {f[1]}(...) with members given as {names!r:.60}; not decided")
                return ("enumclass", members)
            if f[0] == "ext":
                return ("extcall", f[1], tuple(repr(a) for a in args))
        raise AnalysisError(f"unmodelled call in layout: {norm(node)[:120]} ({mod.name})")

    # ------------------------------------------------- helper functions of the layouts
    def call_function(self, fi, args, kwargs):
        """a repository function used while building a layout (e.g. a padding helper): interpret it"""
        return self.call_closure(Closure(fi.node, {}, fi.module), args, kwargs)

    def call_closure(self, cl, args, kwargs):
        node = cl.node
        a = node.args
        pos = [x.arg for x in a.posonlyargs + a.args]
        defaults = [None] * (len(pos) - len(a.defaults)) + list(a.defaults)
        local = dict(cl.env)
        for i, p in enumerate(pos):
            if i < len(args):
                local[p] = args[i]
            elif p in kwargs:
                local[p] = kwargs[p]
            elif defaults[i] is not None:
                local[p] = self.ev(defaults[i], cl.mod, cl.env)
            else:
                raise AnalysisError(f"missing argument {p} in a layout helper call")
        for p, d in zip(a.kwonlyargs, a.kw_defaults):
            if p.arg in kwargs:
                local[p.arg] = kwargs[p.arg]
            elif d is not None:
                local[p.arg] = self.ev(d, cl.mod, cl.env)
        named = set(pos) | {p.arg for p in a.kwonlyargs}
        if a.vararg is not None:
            local[a.vararg.arg] = tuple(args[len(pos):])
        elif len(args) > len(pos):
            raise AnalysisError("too many positional arguments in a layout helper call")
        extra = {k: v for k, v in kwargs.items() if k not in named}
        if a.kwarg is not None:
            local[a.kwarg.arg] = extra
        elif extra:
            raise AnalysisError(f"unexpected keyword argument(s) {sorted(extra)} in a layout helper call")
        if isinstance(node, ast.Lambda):
            return self.ev(node.body, cl.mod, local)
        return self._exec_helper(node.body, cl.mod, local)

    def _exec_helper(self, body, mod, local):
        for st in body:
            if isinstance(st, ast.Expr) and isinstance(st.value, ast.Constant):
                continue
            if isinstance(st, ast.FunctionDef):
                local[st.name] = Closure(st, local, mod)
                continue
            if isinstance(st, ast.Assign) and len(st.targets) == 1 and isinstance(st.targets[0], ast.Name):
                local[st.targets[0].id] = self.ev(st.value, mod, local)
                continue
            if isinstance(st, ast.Return):
                return self.ev(st.value, mod, local) if st.value is not None else None
            if isinstance(st, ast.If):
                test = self.ev(st.test, mod, local)
                if not isinstance(test, bool):
                    raise AnalysisError(f"layout helper: undecidable branch {norm(st.test)}")
                r = self._exec_helper(st.body if test else st.orelse, mod, local)
                if r is not None:
                    return r
                continue
            raise AnalysisError(f"layout helper: unmodelled statement {norm(st)[:80]}")
        return None

    @staticmethod
    def _is_super_init(node):
        f = node.func
        return (
            isinstance(f, ast.Attribute)
            and f.attr == "__init__"
            and isinstance(f.value, ast.Call)
            and isinstance(f.value.func, ast.Name)
            and f.value.func.id == "super"
        )

    def ctor(self, n, args, kwargs, node):
        if n == "Struct":
            # Struct(*subcons, **subconskw): keyword members follow the positional ones, each named by its keyword (in call order)
            fields = [self.as_con(a, node) for a in args]
            for k_, v_ in kwargs.items():
                fields.append(Con("renamed", name=k_, sub=self.as_con(v_, node), node=node, mod=None))
            return Con("struct", fields=fields, node=node)
        if n == "Bytes":
            return Con("bytes", size=self.lazy_num(args[0]))
        if n == "Padding":
            return Con("padding", size=self.lazy_num(args[0]))
        if n in ("PaddedString",):
            enc = args[1] if len(args) > 1 else kwargs.get("encoding")
            return Con("str", size=self.lazy_num(args[0]), enc=enc)
        if n == "Seek":
            return Con("seek", to=self.num(args[0]), whence=args[1] if len(args) > 1 else kwargs.get("whence", 0))
        if n == "Computed":
            return Con("computed", expr=args[0], size=lift(0))
        if n == "Enum":
            # Enum(subcon, *merge, **mapping): the positional tables are enum classes (their members) or other Enum constructs
            mapping = {}
            for extra in args[1:]:
                if isinstance(extra, tuple) and len(extra) == 3 and extra[0] == "class":
                    _, emod, ecls = extra
                    is_enum = any(norm(b).split(".")[-1] in ("Enum", "IntEnum", "IntFlag", "Flag", "StrEnum") for b in ecls.bases)
                    if not is_enum:
                        raise AnalysisError(f"construct.Enum(..., {ecls.name}): {ecls.name} is not an enum class; its table is not decided")
                    for st in ecls.body:
                        if isinstance(st, ast.Assign) and len(st.targets) == 1 and isinstance(st.targets[0], ast.Name) and not st.targets[0].id.startswith("_"):
                            mapping[st.targets[0].id] = self.ev(st.value, emod, {})
                elif isinstance(extra, Con) and extra.kind == "enum":
                    mapping.update(extra.mapping)
                elif isinstance(extra, tuple) and len(extra) == 2 and extra[0] == "enumclass":
                    mapping.update(extra[1])
                else:
                    raise AnalysisError(f"construct.Enum(..., {extra!r:.40}): positional table that is neither an enum class nor an Enum construct")
            mapping.update(kwargs)
            return Con("enum", sub=self.as_con(args[0], node), mapping=mapping)
        if n == "Array":
            return Con("array", sub=self.as_con(args[1], node), count=self.num(args[0]), node=node)
        if n == "Renamed":
            return Con("renamed", name=args[1], sub=self.as_con(args[0], node), node=node, mod=None)
        if n == "FixedSized":
            size = self.lazy_num(args[0])
            return Con("fixedsized", size=size, sub=self._fill_greedy(self.as_con(args[1], node), size), node=node)
        if n == "NullStripped":
            pad = kwargs.get("pad", args[1] if len(args) > 1 else b"\x00")
            if not isinstance(pad, bytes):
                raise AnalysisError(f"NullStripped(pad={pad!r}): pad is not a bytes literal")
            return Con("wrapper", cls="NullStripped", args={"pad": pad}, sub=self.as_con(args[0], node), node=node)
        if n == "StringEncoded":
            enc = kwargs.get("encoding", args[1] if len(args) > 1 else None)
            if not isinstance(enc, str):
                raise AnalysisError(f"StringEncoded(encoding={enc!r}): encoding is not a string literal")
            return Con("wrapper", cls="StringEncoded", args={"encoding": enc}, sub=self.as_con(args[0], node), node=node)
        if n == "BytesInteger":
            return Con("int", size=self.num(args[0]), name=f"BytesInteger{args[0]}")
        raise AnalysisError(f"construct.{n} is outside the modelled fragment")

    def _fill_greedy(self, con, size):
        """inside a fixed-size window `GreedyBytes` takes the whole window: written as Bytes(size), under the same wrappers"""
        if con.kind == "greedybytes":
            return Con("bytes", size=size)
        if con.kind == "wrapper":
            return Con("wrapper", cls=con.cls, args=con.args, sub=self._fill_greedy(con.sub, size), node=con.node)
        if con.kind == "adapter":
            return Con("adapter", cls=con.cls, clsmod=con.clsmod, clsnode=con.clsnode, sub=self._fill_greedy(con.sub, size), attrs=con.attrs, node=con.node)
        return con

    # ------------------------------------------------------- adapter classes
    def find_method(self, mod, cls, name, _depth=0):
        for st in cls.body:
            if isinstance(st, ast.FunctionDef) and st.name == name:
                return st, mod, cls
        if _depth > 5:
            return None
        for b in cls.bases:
            r = self.repo.resolve_expr(mod, b)
            if r.kind == "class":
                got = self.find_method(r.mod, r.node, name, _depth + 1)
                if got:
                    return got
        return None

    def is_adapter_class(self, mod, cls, _depth=0):
        for b in cls.bases:
            r = self.repo.resolve_expr(mod, b)
            if r.kind == "external" and r.fq in ("construct.Adapter", "construct.core.Adapter"):
                return True
            if r.kind == "class" and _depth < 5 and self.is_adapter_class(r.mod, r.node, _depth + 1):
                return True
        return False

    def is_reader_class(self, mod, cls, _depth=0):
        """a class of the package derived from construct.Construct (not through Adapter / Subconstruct) that reads its field itself"""
        if self.is_adapter_class(mod, cls):
            return False
        for b in cls.bases:
            r = self.repo.resolve_expr(mod, b)
            if r.kind == "external" and r.fq in ("construct.Construct", "construct.core.Construct"):
                return self.find_method(mod, cls, "_parse") is not None
            if r.kind == "class" and _depth < 5 and self.is_reader_class(r.mod, r.node, _depth + 1):
                return True
        return False

    def instantiate_reader(self, mod, cls, args, kwargs, node):
        """a reader class (its own ``_parse`` on the stream): which constructor argument is the number of bytes it consumes is found
        by evaluating ``_parse`` (the checker's interpreter) on model streams with that argument set to 0, 1 and 5, as a number and as
        a context function: the read sizes must follow it.  The field is then described as that class decoding Bytes(<argument>):
        decode(field bytes) = ``_parse`` on a stream holding exactly these bytes (vlib/props/adapter_eval.py)"""
        found = self.find_method(mod, cls, "__init__")
        if found is None:
            raise AnalysisError(f"{cls.name}: a reader class without __init__; its width is not decided")
        init = found[0]
        a = init.args
        pos = [x.arg for x in a.posonlyargs + a.args][1:]
        bound = dict(zip(pos, args))
        for k, v in kwargs.items():
            if k not in pos and k not in [x.arg for x in a.kwonlyargs]:
                raise AnalysisError(f"unexpected keyword {k} for {cls.name}")
            bound[k] = v
        width_param = reader_width_param(self.repo, mod, cls, pos, bound)
        if width_param is None:
            parse = self.find_method(mod, cls, "_parse")[0]
            if moves_stream_itself(parse):
                # a class that seeks / parses another construct itself: a field of width w when every path through _parse that returns
                # leaves the stream w bytes behind where it found it (C05-F11 reports paths that disagree)
                moves = {m for kind, _, m in parse_paths(self, mod, cls) if kind == "return"}
                if moves == {0}:
                    return Con("computed", expr=OpaqueValue(f"{cls.name}(...)"), size=lift(0))
                raise AnalysisError(f"{cls.name}: this class moves the stream itself and its paths leave it at {sorted(moves, key=str)} relative to where they found it; its width is not decided")
            raise AnalysisError(f"{cls.name}: no constructor argument of this reader class is followed by the sizes of its reads; its width is not decided")
        if width_param not in bound:
            raise AnalysisError(f"{cls.name}(...): the width argument {width_param} is not given")
        attrs = {k: v for k, v in bound.items() if k != width_param}
        attrs["__width_param__"] = width_param
        return Con("adapter", cls=cls.name, clsmod=mod.name, clsnode=cls, sub=Con("bytes", size=self.lazy_num(bound[width_param])), attrs=attrs, node=node)

    def instantiate(self, mod, cls, args, kwargs, node):
        if self.is_reader_class(mod, cls):
            return self.instantiate_reader(mod, cls, args, kwargs, node)
        if not self.is_adapter_class(mod, cls):
            raise AnalysisError(f"{cls.name} is not a construct.Adapter subclass")
        classattrs = {}
        for st in cls.body:
            if isinstance(st, ast.Assign) and isinstance(st.targets[0], ast.Name):
                classattrs[st.targets[0].id] = st.value
            elif isinstance(st, ast.AnnAssign) and isinstance(st.target, ast.Name) and st.value is not None:
                classattrs[st.target.id] = st.value        # annotated class attribute (`bases: ClassVar[...] = {...}`)
        selfobj = SelfObj(classattrs, mod)
        found = self.find_method(mod, cls, "__init__")
        if found is None:
            if not args:
                raise AnalysisError(f"{cls.name}() without a sub-construct")
            sub = self.as_con(args[0], node)
            return Con("adapter", cls=cls.name, clsmod=mod.name, clsnode=cls, sub=sub, attrs={}, node=node)
        init, imod, _ = found
        a = init.args
        pos = [x.arg for x in a.posonlyargs + a.args][1:]
        defaults = list(a.defaults)
        local = {"self": selfobj}
        if len(args) > len(pos) and not a.vararg:
            raise AnalysisError(f"too many arguments for {cls.name}")
        for p, v in zip(pos, args):
            local[p] = v
        extra = {}
        for k, v in kwargs.items():
            if k in pos or k in [x.arg for x in a.kwonlyargs]:
                local[k] = v
            elif a.kwarg:
                extra[k] = v
            else:
                raise AnalysisError(f"unexpected keyword {k} for {cls.name}")
        ndef = len(defaults)
        for i, p in enumerate(pos):
            if p not in local:
                di = i - (len(pos) - ndef)
                if di < 0:
                    raise AnalysisError(f"missing argument {p} for {cls.name}")
                local[p] = self.ev(defaults[di], imod, {})
        if a.kwarg:
            local[a.kwarg.arg] = extra
        state = {"sub": None}
        self._exec_init(init.body, imod, local, state, cls)
        if state["sub"] is None:
            raise AnalysisError(f"{cls.name}.__init__ never calls super().__init__(subcon)")
        return Con(
            "adapter", cls=cls.name, clsmod=mod.name, clsnode=cls, sub=state["sub"],
            attrs=dict(selfobj.attrs), node=node,
        )

    def _exec_init(self, body, mod, local, state, cls):
        for st in body:
            if isinstance(st, ast.Expr) and isinstance(st.value, ast.Constant):
                continue
            if isinstance(st, ast.Expr) and isinstance(st.value, ast.Call) and self._is_super_init(st.value):
                if not st.value.args:
                    raise AnalysisError(f"{cls.name}: super().__init__() without subcon")
                state["sub"] = self.as_con(self.ev(st.value.args[0], mod, local), st)
                continue
            if isinstance(st, ast.Assign) and len(st.targets) == 1:
                t = st.targets[0]
                try:
                    v = self.ev(st.value, mod, local)
                except UnmodelledConstruct:
                    raise
                except AnalysisError:
                    if isinstance(t, ast.Attribute) and isinstance(t.value, ast.Name) and t.value.id == "self":
                        v = OpaqueValue(norm(st.value))  # a derived attribute that plays no part in the layout (a cached ratio, a compiled pattern)
                    else:
                        raise
                if isinstance(t, ast.Name):
                    local[t.id] = v
                    continue
                if isinstance(t, ast.Attribute) and isinstance(t.value, ast.Name) and t.value.id == "self":
                    local["self"].attrs[t.attr] = v
                    continue
            if isinstance(st, ast.If):
                test = self.ev(st.test, mod, local)
                if not isinstance(test, bool):
                    raise AnalysisError(f"{cls.name}.__init__: undecidable branch {norm(st.test)}")
                self._exec_init(st.body if test else st.orelse, mod, local, state, cls)
                continue
            if isinstance(st, ast.Raise):
                raise AnalysisError(f"{cls.name}.__init__ raises for the arguments used in a struct")
            if isinstance(st, ast.Pass):
                continue
            raise AnalysisError(f"{cls.name}.__init__: unmodelled statement {norm(st)[:80]}")

    # ------------------------------------------------------------- flattening
    def static_size(self, con):
        """size of a construct with no context (``x.sizeof()``)"""
        leaves = []
        end = self.walk(con, lift(0), ("<sizeof>",), leaves, {}, [])
        size = end
        if not size.is_const():
            raise AnalysisError(f"sizeof() of a dynamically sized construct: {size}")
        return size.value()

    def flatten(self, con, start=None, root=()):
        """-> (leaves, end position).  ``start`` is the stream position of the
        construct (Poly); default 0."""
        leaves = []
        pos0 = lift(0) if start is None else start
        end = self.walk(con, pos0, tuple(root), leaves, {}, [])
        return leaves, end

    def _rebase(self, poly, ctxpath, values, where):
        """replace this^k:a.b symbols by absolute paths / known values"""
        mapping = {}
        for s in poly.plain_symbols():
            m = _THIS_RE.match(s)
            if not m:
                continue
            ups = int(m.group(1))
            names = tuple(m.group(2).split("."))
            if ups > len(ctxpath):
                raise AnalysisError(f"`this` climbs above the root in {where}")
            base = ctxpath[: len(ctxpath) - ups]
            absname = ".".join(base + names)
            if absname not in values:
                raise AnalysisError(
                    f"{where}: `{This(ups, names)}` refers to {absname!r}, which is not a field "
                    f"parsed earlier in the stream"
                )
            mapping[s] = values[absname]
        return poly.subs(mapping)

    def walk(self, c, pos, ctx, out, values, strides, path=None, chain=None):
        """ctx: path of the Struct whose context ``this`` denotes.
        path: path of the field being emitted."""
        path = ctx if path is None else path
        chain = list(chain or [])
        k = c.kind
        if k == "renamed":
            return self.walk(c.sub, pos, ctx, out, values, strides, path + (c.name,), chain)
        if k == "adapter":
            chain.append({"kind": "adapter", "cls": c.cls, "clsmod": c.clsmod, "attrs": _plain_attrs(c.attrs), "raw_attrs": c.attrs, "clsnode": c.clsnode})
            return self.walk(c.sub, pos, ctx, out, values, strides, path, chain)
        if k == "enum":
            chain.append({"kind": "Enum", "cls": "Enum", "mapping": dict(c.mapping)})
            return self.walk(c.sub, pos, ctx, out, values, strides, path, chain)
        if k == "wrapper":
            # construct's own value wrappers (no effect on sizes): part of how the bytes become a value
            chain.append({"kind": "wrapper", "cls": c.cls, "clsmod": "construct", "args": dict(c.args), "attrs": {k_: repr(v_) for k_, v_ in c.args.items()}})
            return self.walk(c.sub, pos, ctx, out, values, strides, path, chain)
        if k == "greedybytes":
            raise AnalysisError(f"{'.'.join(_strip(path))}: GreedyBytes outside a FixedSized window: the field takes the rest of the stream; not modelled")
        name = ".".join(_strip(path))
        if k == "struct":
            start = pos
            if chain:
                marker = Leaf(path=_strip(path), kind="composite", offset=start, chain=chain, strides=list(strides))
                out.append(marker)
            seen = set()
            for f in c.fields:
                fname = f.name if f.kind == "renamed" else None
                if fname is not None:
                    if fname in seen:
                        out.append(Leaf(path=_strip(path + (fname,)), kind="duplicate", offset=pos, strides=list(strides)))
                    seen.add(fname)
                pos = self.walk(f, pos, path, out, values, strides, path, [])
            if chain:
                marker.width = pos - start
            return pos
        if k == "array":
            elem_leaves = []
            elem_ctx = path[:-1] + (path[-1] + "[]",) if path else ("[]",)
            count = self._rebase(c.count, ctx, values, name)
            self._check_count_source(c.count, ctx, values, name)
            sub_values = dict(values)
            end = self.walk(c.sub, lift(0), ctx, elem_leaves, sub_values, [], elem_ctx, [])
            esize = end
            for s in esize.symbols():
                if s.startswith(".".join(_strip(elem_ctx))):
                    raise AnalysisError(f"{name}: element size depends on element content ({esize})")
            out.append(
                Leaf(path=_strip(path), kind="array", offset=pos, width=count * esize, chain=chain,
                     strides=list(strides), count=count, elem_size=esize, count_expr=c.count)
            )
            for lf in elem_leaves:
                lf.offset = lf.offset + pos
                lf.strides = list(strides) + [(name, count, esize)] + lf.strides
                out.append(lf)
            return pos + count * esize
        if k == "fixedsized":
            # the sub-construct parses from a window of exactly `size` bytes; the stream continues after the window
            size = self._rebase(self.num(c.size), ctx, values, name)
            inner_end = self.walk(c.sub, pos, ctx, out, values, strides, path, chain)
            out.append(Leaf(path=_strip(path) + ("<window>",), kind="window", offset=pos, width=size, base="FixedSized", chain=[], strides=list(strides), inner=inner_end - pos))
            return pos + size
        if k == "seek":
            if c.whence not in (0, 1, None):
                ex = UnmodelledConstruct("Seek", name)
                ex.from_end = c.whence == 2
                raise ex
            to = self._rebase(c.to, ctx, values, name)
            if c.whence == 1:
                to = pos + to  # relative to the current position: bytes stepped over without being read
            out.append(Leaf(path=_strip(path), kind="seek", offset=pos, width=to - pos, base="Seek", chain=chain, strides=list(strides), target=to, target_expr=c.to))
            values[name] = to
            return to
        if k == "tell":
            out.append(Leaf(path=_strip(path), kind="tell", offset=pos, width=lift(0), base="Tell", chain=chain, strides=list(strides)))
            values[name] = pos
            return pos
        if k == "computed":
            val = None
            if isinstance(c.expr, (Poly, This, int)) and not isinstance(c.expr, bool):
                val = self._rebase(self.num(c.expr), ctx, values, name)
                values[name] = val
            out.append(Leaf(path=_strip(path), kind="computed", offset=pos, width=lift(0), base="Computed", chain=chain, strides=list(strides), value=val))
            return pos
        if k in ("int", "bytes", "str", "padding"):
            size = self._rebase(self.num(c.size), ctx, values, name)
            base = {"int": getattr(c, "name", "int"), "bytes": "Bytes", "str": "PaddedString", "padding": "Padding"}[k]
            base_args = {}
            if k == "str":
                base_args["enc"] = c.enc
            lf = Leaf(path=_strip(path), kind="field", offset=pos, width=size, base=base, base_args=base_args,
                      chain=chain, strides=list(strides), size_expr=self.num(c.size))
            out.append(lf)
            # the *value* of an integer-valued field is a fresh symbol named by its path
            values[name] = Poly.sym(name)
            return pos + size
        raise AnalysisError(f"unmodelled construct kind {k}")

    def _check_count_source(self, poly, ctx, values, where):
        pass


def _strip(path):
    return tuple(p for p in path if p != "<sizeof>")


_READER_WIDTH = {}


STREAM_HELPERS = ("stream_read", "stream_seek", "stream_tell", "stream_read_entire", "stream_size", "stream_iseof", "stream_write")


def moves_stream_itself(cls_parse):
    """does this ``_parse`` seek, or hand its stream to another construct (as opposed to plainly reading its field)"""
    for x in ast.walk(cls_parse):
        if isinstance(x, ast.Call):
            nm = x.func.id if isinstance(x.func, ast.Name) else x.func.attr if isinstance(x.func, ast.Attribute) else None
            if nm in ("stream_seek", "seek", "_parsereport", "_parse", "parse_stream"):
                return True
    return False


def parse_paths(evaluator, mod, cls):
    """the paths through ``cls._parse`` with the net movement of the stream on each: a syntax-directed walk with the position
    relative to entry as its state.  ``X._parsereport(stream, ..)`` of a construct with a constant size moves by that size,
    ``stream_read(stream, n)`` by n, ``stream_seek(stream, k, 1)`` by k, ``stream_seek(stream, <tell value> + k, 0)`` to that place.
    -> [(exit 'return' | 'raise', line, movement or None when it is not decided)]; AnalysisError when the walk itself does not apply"""
    found = evaluator.find_method(mod, cls, "_parse")
    if found is None:
        raise AnalysisError(f"{cls.name}: no _parse")
    fn, fmod = found[0], found[1]
    params = [a.arg for a in fn.args.args]
    if len(params) < 2:
        raise AnalysisError(f"{cls.name}._parse: unexpected signature")
    stream = params[1]
    exits = []

    class Undecided(Exception):
        pass

    def val(e, env):
        """-> int, ('abs', k) for a position known relative to entry, or None"""
        if isinstance(e, ast.Constant) and isinstance(e.value, int) and not isinstance(e.value, bool):
            return e.value
        if isinstance(e, ast.Name):
            return env.get(e.id)
        if isinstance(e, ast.UnaryOp) and isinstance(e.op, ast.USub):
            v = val(e.operand, env)
            return -v if isinstance(v, int) else None
        if isinstance(e, ast.BinOp) and isinstance(e.op, (ast.Add, ast.Sub, ast.Mult)):
            l, r = val(e.left, env), val(e.right, env)
            if isinstance(l, int) and isinstance(r, int):
                return l + r if isinstance(e.op, ast.Add) else l - r if isinstance(e.op, ast.Sub) else l * r
            if isinstance(l, tuple) and isinstance(r, int) and isinstance(e.op, (ast.Add, ast.Sub)):
                return ("abs", l[1] + (r if isinstance(e.op, ast.Add) else -r))
            if isinstance(r, tuple) and isinstance(l, int) and isinstance(e.op, ast.Add):
                return ("abs", r[1] + l)
            return None
        if isinstance(e, ast.Call) and isinstance(e.func, ast.Attribute) and e.func.attr == "sizeof" and not e.args:
            try:
                return evaluator.static_size(evaluator.as_con(evaluator.ev(e.func.value, fmod, {}), e))
            except AnalysisError:
                return None
        return None

    def uses_stream(e):
        return any(isinstance(x, ast.Name) and x.id == stream for x in ast.walk(e))

    def effect(call, st):
        """apply one call to the state; -> value of the call for `val` (or None)"""
        f = call.func
        nm = f.id if isinstance(f, ast.Name) else f.attr if isinstance(f, ast.Attribute) else None
        first_is_stream = bool(call.args) and isinstance(call.args[0], ast.Name) and call.args[0].id == stream
        on_stream = isinstance(f, ast.Attribute) and isinstance(f.value, ast.Name) and f.value.id == stream
        if not (first_is_stream or on_stream or any(uses_stream(a) for a in call.args) or any(uses_stream(k.value) for k in call.keywords)):
            return None
        args = call.args[1:] if first_is_stream and not on_stream else call.args
        if nm in ("stream_tell", "tell"):
            return ("abs", st["pos"]) if st["pos"] is not None else None
        if nm in ("stream_read", "read"):
            n = val(args[0], st["env"]) if args else None
            st["pos"] = st["pos"] + n if isinstance(n, int) and st["pos"] is not None else None
            return None
        if nm in ("stream_seek", "seek"):
            off = val(args[0], st["env"]) if args else None
            wh = args[1].value if len(args) > 1 and isinstance(args[1], ast.Constant) else 0 if len(args) < 2 else None
            for k in call.keywords:
                if k.arg == "whence":
                    wh = k.value.value if isinstance(k.value, ast.Constant) else None
            if wh == 1 and isinstance(off, int):
                st["pos"] = st["pos"] + off if st["pos"] is not None else None
            elif wh == 0 and isinstance(off, tuple):
                st["pos"] = off[1]
            else:
                st["pos"] = None
            return None
        if nm in ("_parsereport", "_parse", "parse_stream") and isinstance(f, ast.Attribute) and first_is_stream:
            try:
                size = evaluator.static_size(evaluator.as_con(evaluator.ev(f.value, fmod, {}), call))
            except AnalysisError:
                size = None
            st["pos"] = st["pos"] + size if size is not None and st["pos"] is not None else None
            return None
        st["pos"] = None  # the stream is handed to something the walk does not know
        return None

    def run_expr(e, st):
        """effects of the calls of an expression, innermost first, left to right -> value of the outermost call if it is one"""
        if e is None:
            return None
        out = None
        for child in ast.iter_child_nodes(e):
            if isinstance(child, ast.expr) or isinstance(child, ast.keyword):
                run_expr(child.value if isinstance(child, ast.keyword) else child, st)
        if isinstance(e, ast.Call):
            out = effect(e, st)
        return out

    def block(stmts, st):
        """-> list of states that fall off the end of the block"""
        states = [st]
        for s_ in stmts:
            nxt = []
            for st in states:
                nxt += stmt(s_, st)
            states = nxt
            if not states:
                break
        return states

    def fork(st):
        return {"pos": st["pos"], "env": dict(st["env"])}

    def stmt(s_, st):
        if isinstance(s_, ast.Return):
            run_expr(s_.value, st)
            exits.append(("return", s_.lineno, st["pos"]))
            return []
        if isinstance(s_, ast.Raise):
            exits.append(("raise", s_.lineno, st["pos"]))
            return []
        if isinstance(s_, (ast.Assign, ast.AnnAssign, ast.AugAssign)):
            v = run_expr(s_.value, st)
            if v is None and s_.value is not None:
                v = val(s_.value, st["env"])
            targets = s_.targets if isinstance(s_, ast.Assign) else [s_.target]
            for t in targets:
                for x in ast.walk(t):
                    if isinstance(x, ast.Name):
                        st["env"].pop(x.id, None)
            if isinstance(s_, ast.Assign) and len(targets) == 1 and isinstance(targets[0], ast.Name) and v is not None:
                st["env"][targets[0].id] = v
            return [st]
        if isinstance(s_, ast.Expr):
            run_expr(s_.value, st)
            return [st]
        if isinstance(s_, ast.If):
            run_expr(s_.test, st)
            a, b = fork(st), fork(st)
            return block(s_.body, a) + block(s_.orelse, b)
        if isinstance(s_, ast.Try):
            before = fork(st)
            out = block(s_.body, st)
            if s_.orelse:
                out = [y for x in out for y in block(s_.orelse, x)]
            for h in s_.handlers:
                hs = fork(before)
                hs["pos"] = None  # how far the body got when it failed is not known; an absolute seek to a remembered place decides it again
                out += block(h.body, hs)
            if s_.finalbody:
                if any(isinstance(x, ast.Call) and (uses_stream(x)) for f_ in s_.finalbody for x in ast.walk(f_)):
                    raise AnalysisError(f"{cls.name}._parse: the stream is used in a finally block")
            return out
        if isinstance(s_, (ast.Pass, ast.Import, ast.ImportFrom, ast.Global, ast.Nonlocal, ast.Assert, ast.Delete)):
            return [st]
        if isinstance(s_, (ast.For, ast.While, ast.With, ast.Match, ast.FunctionDef, ast.ClassDef)):
            if any(isinstance(x, ast.Name) and x.id == stream for x in ast.walk(s_)) or any(isinstance(x, (ast.Return,)) for x in ast.walk(s_)):
                raise AnalysisError(f"{cls.name}._parse: the stream is used inside a {type(s_).__name__.lower()} statement; its movement is not decided")
            return [st]
        raise AnalysisError(f"{cls.name}._parse: statement {type(s_).__name__} is not followed")

    for st in block(fn.body, {"pos": 0, "env": {}}):
        exits.append(("return", fn.body[-1].end_lineno or fn.lineno, st["pos"]))
    return exits


def reader_parse(I, mod, cls, ctor_kwargs, content):
    """``cls(**ctor_kwargs)._parse(stream over content, context, path)`` in the interpreter
    -> (outcome 'returned' | 'raised', value / _Raise, sizes asked of the stream, bytes consumed)"""
    from collections import OrderedDict
    from .shapes import Const, Fn, Obj, _Raise
    from .tracemodel import Trace, model_file
    ctor = Fn("classctor", cls=cls, mod=mod, name=cls.name)
    trace = Trace()
    f = model_file(trace, len(content), content)
    ctx = Obj("Context", OrderedDict(_=Obj("Context", OrderedDict()), _params=Obj("Context", OrderedDict())))
    try:
        inst = I.call(ctor, [], OrderedDict(ctor_kwargs))
        out = I.call(I.getattr(inst, "_parse"), [f, ctx, Const("(parsing) -> field")], {})
        st = "returned"
    except _Raise as e:
        out, st = e, "raised"
    reads = [e_[2] for e_ in trace.events if e_[0] == "read"]
    consumed = sum(e_[3] for e_ in trace.events if e_[0] == "read")
    return st, out, reads, consumed


def reader_width_param(repo, mod, cls, pos, bound):
    """the constructor parameter whose value is the number of bytes `_parse` reads (behaviourally: the reads follow it)"""
    key = (mod.name, cls.name)
    if key in _READER_WIDTH:
        return _READER_WIDTH[key]
    from collections import OrderedDict
    from .shapes import Const, Fn, Interp, NonTermination, ShapeError
    result = None
    for p in pos:
        ok = True
        for k in (0, 1, 5):
            for as_function in (False, True):
                I = Interp(repo)
                val = Const(k) if not as_function else Fn("py", impl=lambda I_, a, kw, k=k: Const(k), name="<context function>")
                try:
                    others = OrderedDict((q, Const(v)) for q, v in bound.items() if q != p and isinstance(v, (int, float, str, bool, bytes, type(None))))
                    others[p] = val
                    st, out, reads, consumed = reader_parse(I, mod, cls, others, bytes(range(65, 65 + k + 3)))
                except (ShapeError, NonTermination, RecursionError):
                    ok = False
                    break
                if not reads or sum(r for r in reads if isinstance(r, int)) != k:
                    ok = False
                    break
            if not ok:
                break
        if ok:
            result = p
            break
    _READER_WIDTH[key] = result
    return result


def _plain_attrs(attrs):
    out = {}
    for k, v in attrs.items():
        if k.startswith("__"):
            continue  # bookkeeping of the evaluator (which constructor argument is the width of a reader class)
        if isinstance(v, (int, float, str, bool, type(None))):
            out[k] = v
        elif isinstance(v, dict):
            out[k] = {kk: vv for kk, vv in v.items() if isinstance(vv, (int, float, str, bool, type(None)))}
        elif isinstance(v, This):
            out[k] = repr(v)
        elif isinstance(v, (Con, OpaqueValue)):
            continue  # sub-constructs are described on their own; derived attributes are judged through _decode's semantics
        else:
            out[k] = repr(v)
    return out


# ---------------------------------------------------------------------------
# value kinds


def leaf_value_kind(leaf, adapter_kinds):
    """what Python value the field decodes to: int | float | str | bytes | bool |
    enum | datetime | complex | pair(<kind>) | struct | list"""
    if leaf.kind == "array":
        base = "list"
    elif leaf.kind == "composite":
        base = "struct"
    elif leaf.kind in ("tell", "seek", "computed"):
        base = "int"
    elif leaf.base and leaf.base.startswith(("Int", "BytesInteger")):
        base = "int"
    elif leaf.base in ("Bytes", "Padding"):
        base = "bytes"
    elif leaf.base == "PaddedString":
        base = "str"
    else:
        base = "unknown"
    kind = base
    for a in reversed(leaf.chain):
        if a["kind"] == "Enum":
            kind = "enum"
            continue
        if a["kind"] == "wrapper":
            kind = "str" if a["cls"] == "StringEncoded" else kind
            continue
        f = adapter_kinds.get((a["clsmod"], a["cls"]))
        if f is None:
            kind = "unknown"
        else:
            kind = f(kind)
    return kind
