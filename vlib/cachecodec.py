"""writer/reader agreement of the JSON index document (shared by C07 and C08)"""

from __future__ import annotations

import ast
import re

from .callgraph import guards_of
from .core import AnalysisError, const_str, norm, short
from .dataflow import Flow, calls_in
from .interproc import dataclass_fields, resolve_callees

ENC = "ceos_alos2.sar_image.caching.encoders"
DEC = "ceos_alos2.sar_image.caching.decoders"
CACHING = "ceos_alos2.sar_image.caching"

PAIRS = [("encode_group", "decode_group"), ("encode_variable", "decode_variable"), ("encode_array", "decode_array")]
INT64_NAMES = {"int64", "i8", "<i8", ">i8", "=i8", "int_", "longlong"}


def _tagged_dicts(fi):
    """dict literals with a constant "__type__" entry in fi (nested functions included) -> {tag: Dict node}"""
    out = {}
    for n in ast.walk(fi.node):
        if isinstance(n, ast.Dict):
            for k, v in zip(n.keys, n.values):
                if k is not None and const_str(k) == "__type__" and const_str(v) is not None:
                    out[const_str(v)] = _with_later_stores(fi, n)
    return out


def _with_later_stores(fi, d):
    """a document started as a literal and completed entry by entry (`doc = {"__type__": ..}; doc["k"] = v; ...`): the literal
    with those entries added"""
    par = getattr(d, "_parent", None)
    if not (isinstance(par, ast.Assign) and len(par.targets) == 1 and isinstance(par.targets[0], ast.Name) and par.value is d):
        return d
    name = par.targets[0].id
    keys, values = list(d.keys), list(d.values)
    for n in ast.walk(fi.node):
        if isinstance(n, ast.Assign) and len(n.targets) == 1 and isinstance(n.targets[0], ast.Subscript) and isinstance(n.targets[0].value, ast.Name) \
                and n.targets[0].value.id == name and const_str(n.targets[0].slice) is not None and n.lineno >= par.lineno:
            keys.append(n.targets[0].slice)
            values.append(n.value)
    if len(keys) == len(d.keys):
        return d
    new = ast.Dict(keys=keys, values=values)
    ast.copy_location(new, d)
    new._parent = par
    return new


def _dict_keys(d):
    return [const_str(k) for k in d.keys if k is not None and const_str(k) is not None]


def _type_test(test):
    """P.get("__type__") == "T"  ->  (P, T) ; also P["__type__"] == "T" ; `!=` gives (P, T, False)"""
    if isinstance(test, ast.UnaryOp) and isinstance(test.op, ast.Not):
        tt = _type_test(test.operand)
        if tt is not None:
            return (tt[0], tt[1], not (tt[2] if len(tt) > 2 else True))
        return None
    if isinstance(test, ast.Compare) and len(test.ops) == 1 and isinstance(test.ops[0], ast.NotEq):
        tt = _type_test(ast.Compare(left=test.left, ops=[ast.Eq()], comparators=test.comparators))
        return (tt[0], tt[1], False) if tt is not None else None
    if isinstance(test, ast.Compare) and len(test.ops) == 1 and isinstance(test.ops[0], ast.Eq):
        l, r = test.left, test.comparators[0]
        for a, b in ((l, r), (r, l)):
            t = const_str(b)
            if t is None:
                continue
            if isinstance(a, ast.Call) and isinstance(a.func, ast.Attribute) and a.func.attr == "get" and a.args and const_str(a.args[0]) == "__type__":
                if isinstance(a.func.value, ast.Name):
                    return a.func.value.id, t
            if isinstance(a, ast.Subscript) and const_str(a.slice) == "__type__" and isinstance(a.value, ast.Name):
                return a.value.id, t
            if isinstance(a, ast.Name):
                return ("name", a.id), t
    return None


def _key_reads(fi, param):
    """[(key, node, tag context)] constant-key subscripts/gets on ``param`` inside fi's own activation"""
    out = []
    flow = Flow(fi)
    for n in fi.own_nodes():
        key = None
        if isinstance(n, ast.Subscript) and isinstance(n.ctx, ast.Load) and isinstance(n.value, ast.Name) and n.value.id == param:
            key = const_str(n.slice)
        if key is None or key == "__type__":
            continue
        pos, neg = [], []
        for test, pol in guards_of(n, fi.node):
            tt = _type_test(test)
            if tt is None and isinstance(test, ast.Name):
                d = flow.single_def(test.id)
                tt = _type_test(d) if d is not None else None
            if tt and (tt[0] == param):
                same = pol if (len(tt) < 3 or tt[2]) else not pol
                (pos if same else neg).append(tt[1])
        out.append((key, n, tuple(pos), tuple(neg)))
    return out


def check_codec(chk, repo, P):
    """P: rule prefix, e.g. 'C08'.  Registers and decides the K rules."""
    enc = repo.module(ENC)
    dec = repo.module(DEC)
    cach = repo.module(CACHING)
    R = lambda k: f"{P}-{k}"
    chk.rule(R("K1"), "type tags written == type tags dispatched on read", 5)
    chk.rule(R("K2"), "per document type: keys read are keys written", 15)
    chk.rule(R("K3"), "dtype-kind dispatch: datetime offsets are int64 on encode and rebuilt with the stored unit and reference on decode", 6)
    chk.rule(R("K4"), "tuple tagging symmetric and wired into json.dumps / json.loads(object_hook)", 6)
    chk.rule(R("K5"), "non-Array data is coerced to an ndarray before the ndarray API is used", 1)
    chk.rule(R("K6"), "the index is the json.dumps text of plain dict/list data (self-contained)", 2)
    chk.rule(R("K7"), "image-array fields: each Array init field is written from obj.<field> and read back into the same field", 5)

    # ---------------------------------------------------------------- tags
    written = {}
    for fname in ("encode_group", "encode_variable", "encode_array", "preprocess"):
        fi = enc.func(fname)
        for tag, d in _tagged_dicts(fi).items():
            written[tag] = (fi, d)
    read_tags = {}
    # dispatch dict in decode_hierarchy
    dh = dec.func("decode_hierarchy")
    for n in dh.own_nodes():
        if isinstance(n, ast.Dict) and n.keys and all(const_str(k) is not None for k in n.keys):
            cs = [resolve_callees(repo, dh, v) for v in n.values]
            if all(c and c[0].func is not None for c in cs):
                for k, c in zip(n.keys, cs):
                    read_tags[const_str(k)] = c[0].func
    if not read_tags:
        # the table may be a module-level name the function looks up in
        from .interproc import dict_entries
        for n in dh.own_nodes():
            if isinstance(n, ast.Call) and isinstance(n.func, ast.Attribute) and n.func.attr in ("get", "__getitem__") and isinstance(n.func.value, ast.Name) or \
                    isinstance(n, ast.Subscript) and isinstance(n.value, ast.Name):
                name = n.func.value if isinstance(n, ast.Call) else n.value
                ent = dict_entries(repo, dec, name)
                if ent and all(isinstance(k, str) for k in ent):
                    cs = {k: resolve_callees(repo, dh, v) for k, v in ent.items()}
                    if all(c and c[0].func is not None for c in cs.values()):
                        for k, c in cs.items():
                            read_tags[k] = c[0].func
    if not read_tags:
        raise AnalysisError(f"{dec.relpath}:decode_hierarchy: no dispatch table from type tags to decoders in the recognised form; the tags are decided by the round-trip evaluation (K8)")
    for fname in ("decode_array", "postprocess"):
        fi = dec.func(fname)
        for n in fi.own_nodes():
            if isinstance(n, ast.Compare):
                tt = _type_test(n)
                if tt:
                    read_tags[tt[1]] = fi
    # fallthrough of decode_array handles the remaining tags of encode_array
    da = dec.func("decode_array")
    ea_tags = set(_tagged_dicts(enc.func("encode_array")))
    explicit = {t for t, f in read_tags.items() if f is da}
    fall = ea_tags - explicit
    has_fallthrough = any(isinstance(n, ast.Call) and any(c.cls is not None and c.cls.name == "Array" for c in resolve_callees(repo, da, n.func))
                          for n in da.own_nodes())
    for t in sorted(written):
        handled = t in read_tags or (t in fall and has_fallthrough and len(fall) == 1)
        chk.require(handled, R("K1"), f"{enc.relpath}:{written[t][0].qualname}",
                    f"tag {t!r} written by {written[t][0].qualname} is dispatched by the reader"
                    + (" (fall-through branch of decode_array)" if t not in read_tags else ""),
                    f"tag {t!r} is written but no reader branch handles it", key=f"tag:{t}:unread",
                    sample={"tag": t, "writer": written[t][0].qualname})
    for t in sorted(read_tags):
        chk.require(t in written, R("K1"), f"{dec.relpath}:{read_tags[t].qualname}",
                    f"tag {t!r} dispatched by the reader is written by the encoder",
                    f"reader dispatches on tag {t!r}, which the encoder never writes", key=f"tag:{t}:unwritten")

    # ---------------------------------------------------------------- keys
    def doc_keys(tag):
        return set(_dict_keys(written[tag][1])) if tag in written else set()

    for ename, dname in PAIRS:
        dfi = dec.func(dname)
        efi = enc.func(ename)
        param = dfi.positional_params[0]
        etags = set(_tagged_dicts(efi))
        for key, node, pos, neg in _key_reads(dfi, param):
            if pos:
                tags = set(pos)
            else:
                tags = etags - set(neg) if len(etags) > 1 else etags
            for t in sorted(tags):
                chk.require(key in doc_keys(t), R("K2"), f"{dec.relpath}:{dname}",
                            f"{param}[{key!r}] is written for documents of type {t!r}",
                            f"{dname} reads {param}[{key!r}] from a {t!r} document, but {ename} writes only {sorted(doc_keys(t))}",
                            key=f"{dname}:{t}:{key}")
    # nested decoders of decode_array operate on 'array' documents
    arr_keys = doc_keys("array")
    enc_keys = set()
    for fname in ("encode_datetime",):
        fi = enc.func(fname)
        for n in ast.walk(fi.node):
            if isinstance(n, ast.Dict):
                enc_keys |= set(_dict_keys(n))
    for fi in [dec.func("decode_datetime")] + [f for q, f in dec.funcs.items() if q.startswith("decode_array.")]:
        if not fi.positional_params:
            continue
        param = fi.positional_params[0]
        for key, node, pos, neg in _key_reads(fi, param):
            chk.require(key in arr_keys, R("K2"), f"{dec.relpath}:{fi.qualname}",
                        f"{param}[{key!r}] is a key of 'array' documents",
                        f"{fi.qualname} reads {param}[{key!r}], 'array' documents have {sorted(arr_keys)}", key=f"{fi.qualname}:array:{key}")
        # sub-keys of the encoding dict
        flow = Flow(fi)
        for n in fi.own_nodes():
            if isinstance(n, ast.Subscript) and isinstance(n.ctx, ast.Load) and const_str(n.slice) is not None:
                base = flow.expand(n.value)
                if isinstance(base, ast.Subscript) and const_str(base.slice) == "encoding":
                    k = const_str(n.slice)
                    chk.require(k in enc_keys, R("K2"), f"{dec.relpath}:{fi.qualname}",
                                f"encoding[{k!r}] is written by encode_datetime",
                                f"{fi.qualname} reads encoding[{k!r}], encode_datetime writes {sorted(enc_keys)}", key=f"{fi.qualname}:encoding:{k}")

    # ---------------------------------------------------------------- K3 dtype kinds
    ea = enc.func("encode_array")
    enc_kinds, enc_default, enc_form = kind_dispatch(repo, ea)
    dec_kinds, dec_default, dec_form = kind_dispatch(repo, da)
    if not enc_kinds:
        raise AnalysisError("anchor vanished: dtype-kind dispatch (table or if-chain on dtype.kind) in encode_array")
    for form, label in ((enc_form, "encode_array"), (dec_form, "decode_array")):
        if form is None:
            raise AnalysisError(f"{label}: no dispatch on dtype.kind found (neither a table looked up with .get(<dtype>.kind) nor an if-chain); not decided")
    for kind, eh in sorted(enc_kinds.items()):
        if eh.func is None and not eh.stmts:
            raise AnalysisError(f"encoder for dtype kind {kind!r} does not resolve to a function")
        ewhere = f"{enc.relpath}:{eh.name}"
        relative = any(isinstance(n, ast.Dict) and "reference" in _dict_keys(n) for n in eh.walk())
        # integer cast
        casts = [c for c in eh.walk() if isinstance(c, ast.Call) and isinstance(c.func, ast.Attribute) and c.func.attr == "astype"]
        if not casts and eh.func is None:
            raise AnalysisError(f"{ewhere}: the branch for dtype kind {kind!r} is written inline without a recognisable cast; what it stores is decided by the round-trip evaluation (K8)")
        int_ok = bool(casts) and all(_is_int64(c.args[0]) for c in casts if c.args)
        chk.require(int_ok, R("K3"), ewhere,
                    f"kind {kind!r}: values are cast with an integer 64-bit dtype before tolist() (no float on the path)",
                    f"kind {kind!r}: cast is {[short(c) for c in casts]} - not an int64 cast, so 64-bit tick counts are rounded",
                    key=f"kind:{kind}:cast", sample={"kind": kind, "casts": [short(c) for c in casts]})
        # the value that is cast must be obtained without a float intermediate: no true division, no float dtype
        floaty = []
        for c in casts:
            recv = eh.flow.expand(c.func.value)
            for n in ast.walk(recv):
                if isinstance(n, ast.BinOp) and isinstance(n.op, (ast.Div, ast.Mult, ast.Pow)):
                    floaty.append(short(n, 60))
                if isinstance(n, ast.Call) and isinstance(n.func, ast.Attribute) and n.func.attr == "astype" and n.args and not _is_int64(n.args[0]):
                    floaty.append(short(n, 60))
                if isinstance(n, ast.Call) and norm(n.func) in ("np.divide", "np.true_divide", "float", "np.float64"):
                    floaty.append(short(n, 60))
        chk.require(not floaty, R("K3"), ewhere,
                    f"kind {kind!r}: the ticks are cast directly (no division / float intermediate before the int64 cast)",
                    f"kind {kind!r}: the value cast to int64 goes through {floaty[:2]}: a float64 intermediate rounds tick counts beyond 2**53 (datetimes not exact to the nanosecond)",
                    key=f"kind:{kind}:float-intermediate")
        units_written = any(isinstance(n, ast.Dict) and "units" in _dict_keys(n) for n in eh.walk())
        if relative:
            dh_ = dec_kinds.get(kind)
            chk.require(dh_ is not None, R("K3"), f"{dec.relpath}:decode_array",
                        f"kind {kind!r} is stored relative to a reference and has the custom decoder {dh_.name if dh_ else None}",
                        f"kind {kind!r} is stored as offsets from a reference but no decoder for it is registered: offsets would be read as absolute values",
                        key=f"kind:{kind}:decoder")
            if dh_ is not None:
                if dh_.func is None:
                    raise AnalysisError(f"{dec.relpath}:decode_array: the decoder of kind {kind!r} is written inline; its arithmetic is not decided")
                _check_decode_datetime(chk, R("K3"), dec, dh_.func)
        else:
            # default decode must rebuild with the stored dtype string
            ok = False
            if kind in dec_kinds:
                ok = True
            elif dec_default is not None:
                rets = dec_default.returns()
                if len(rets) != 1:
                    raise AnalysisError(f"{dec.relpath}:decode_array: the default decoder has {len(rets)} returns; not decided")
                full = dec_default.flow.expand(rets[0])
                txt = norm(full).replace('"', "'")
                dp = dec_default.param
                ok = f"dtype={dp}['dtype']" in txt and f"{dp}['data']" in txt
            chk.require(ok and units_written, R("K3"), f"{dec.relpath}:decode_array",
                        f"kind {kind!r}: ticks in the dtype's own unit, rebuilt by np.array(data, dtype=<stored dtype>)",
                        f"kind {kind!r}: no decoder and the default does not rebuild from the stored dtype", key=f"kind:{kind}:default")
    for kind in sorted(dec_kinds):
        chk.require(kind in enc_kinds, R("K3"), f"{dec.relpath}:decode_array", f"decoder for kind {kind!r} has a matching encoder",
                    f"decoder registered for kind {kind!r} but the encoder writes that kind with the default (absolute) encoding", key=f"kind:{kind}:orphan")
    # dispatch keys: encoder dispatches on obj.dtype.kind, decoder on np.dtype(stored).kind
    for form, label in ((enc_form, "encode_array"), (dec_form, "decode_array")):
        if form is None:
            raise AnalysisError(f"{label}: no dispatch on dtype.kind found (neither a table looked up with .get(<dtype>.kind) nor an if-chain); not decided")
        chk.require(form[0], R("K3"), f"{label}", f"codec is selected by dtype.kind ({form[1]})", f"codec is not selected by dtype.kind ({form[1]})", key=f"{label}:kind-dispatch")

    # ---------------------------------------------------------------- K4 tuples
    # preprocess evaluated on model values (whatever its shape: if-chain, early returns, map / comprehension / valmap): a tuple at
    # any depth becomes the tagged document of its preprocessed elements, lists and dicts are rebuilt from their preprocessed
    # members, everything else is handed back as it is
    from collections import OrderedDict
    from .shapes import Const, DictS, Interp, ListLit, ShapeError, TupS, _Raise

    def want_pre(v):
        if isinstance(v, TupS):
            return ("dict", (("__type__", ("c", "tuple")), ("data", ("list", tuple(want_pre(x) for x in v.elts)))))
        if isinstance(v, ListLit):
            return ("list", tuple(want_pre(x) for x in v.elts))
        if isinstance(v, DictS):
            return ("dict", tuple((k, want_pre(x)) for k, x in v.items.items()))
        return ("c", v.v)

    def plain(v):
        if isinstance(v, TupS):
            return ("tuple", tuple(plain(x) for x in v.elts))
        if isinstance(v, ListLit):
            return ("list", tuple(plain(x) for x in v.elts))
        if isinstance(v, DictS):
            return ("dict", tuple((k, plain(x)) for k, x in v.items.items()))
        if isinstance(v, Const):
            return ("c", v.v)
        return ("?", repr(v)[:40])
    C = Const
    models = [
        ("a tuple", TupS([C(1), C("x")])),
        ("an empty tuple", TupS([])),
        ("a tuple in a tuple", TupS([C(1), TupS([C(2), TupS([])])])),
        ("a tuple in a list", ListLit([C(1), C(2), TupS([C(3), C(4)])])),
        ("a tuple after scalars in a list", ListLit([C("a"), C(None), ListLit([C(1)]), TupS([C(2)])])),
        ("a list of tuples", ListLit([TupS([C(920), C(1000)]), TupS([C(1020), C(1100)])])),
        ("a tuple in a dict in a list", ListLit([DictS(OrderedDict(k=TupS([C(1)])))])),
        ("a list in a tuple", TupS([ListLit([C(1), TupS([C(2)])])])),
        ("a dict of containers", DictS(OrderedDict([("a", TupS([C(1)])), ("b", ListLit([TupS([])])), ("c", DictS(OrderedDict(d=TupS([C("x")])))), ("e", C(1.5))]))),
        ("an empty list", ListLit([])), ("an empty dict", DictS()),
        ("a string", C("text")), ("an int", C(2 ** 63 - 1)), ("a float", C(0.1)), ("None", C(None)), ("a bool", C(True)),
    ]
    Ipre = Interp(repo)
    fpre = Ipre.lookup("preprocess", Ipre.module_scope(enc))
    for label, v in models:
        try:
            got = Ipre.call(fpre, [v], {})
        except _Raise as e:
            chk.fail(R("K4"), f"{enc.relpath}:preprocess", f"preprocess raises on {label} ({e.what[:80]})", key=f"preprocess:eval:{label}")
            continue
        except (ShapeError, RecursionError) as e:
            raise AnalysisError(f"{enc.relpath}:preprocess cannot be evaluated on {label}: {str(e)[:100]}")
        chk.require(plain(got) == want_pre(v), R("K4"), f"{enc.relpath}:preprocess", f"preprocess of {label}: tuples tagged at every depth, lists / dicts rebuilt, scalars unchanged",
                    f"preprocess of {label} gives {plain(got)!r:.160}, expected {want_pre(v)!r:.160}: a tuple that is not tagged is written as a JSON list and comes back as a list", key=f"preprocess:eval:{label}")
    post = dec.func("postprocess")
    # the object hook evaluated on model documents: a tagged tuple document becomes the tuple of its data, anything else is handed back
    from collections import OrderedDict
    from .shapes import Const, DictS, Interp, ListLit, ShapeError, TupS, _Raise
    I = Interp(repo)
    hook = I.lookup("postprocess", I.module_scope(dec))
    inner = ListLit([Const(1), ListLit([Const(2)]), Const("x")])
    docs = [("tuple", DictS(OrderedDict([("__type__", Const("tuple")), ("data", inner)]))),
            ("empty tuple", DictS(OrderedDict([("__type__", Const("tuple")), ("data", ListLit([]))]))),
            ("array", DictS(OrderedDict([("__type__", Const("array")), ("dtype", Const("int8")), ("data", ListLit([Const(1)])), ("encoding", DictS())]))),
            ("plain", DictS(OrderedDict([("data", ListLit([Const(1)])), ("units", Const("s"))]))),
            ("untagged-empty", DictS())]
    for label, doc in docs:
        try:
            got = I.call(hook, [doc], {})
        except _Raise as e:
            chk.fail(R("K4"), f"{dec.relpath}:postprocess", f"postprocess raises on a {label} document ({e.what[:80]}): every JSON object of the index passes through it", key=f"postprocess:{label}")
            continue
        except (ShapeError, RecursionError) as e:
            raise AnalysisError(f"{dec.relpath}:postprocess cannot be evaluated on a {label} document: {str(e)[:100]}")
        if label.endswith("tuple"):
            want = doc.items["data"].elts
            ok_post = isinstance(got, TupS) and len(got.elts) == len(want) and all(a is b for a, b in zip(got.elts, want))
            chk.require(ok_post, R("K4"), f"{dec.relpath}:postprocess", f"postprocess rebuilds the tuple of a tagged document ({label})",
                        f"postprocess turns the tagged document {{'__type__': 'tuple', 'data': [...]}} into {got!r:.80}: tuples do not come back as the tuple of their elements", key="postprocess:rebuild")
        else:
            chk.require(got is doc, R("K4"), f"{dec.relpath}:postprocess", f"postprocess hands a {label} document back unchanged",
                        f"postprocess turns a {label} document into {got!r:.80}: documents other than tagged tuples must pass through", key=f"postprocess:{label}")
    # wiring (form rule; the composition itself is evaluated in K8)
    pre = enc.func("preprocess")
    efi = cach.func("encode")
    dfi = cach.func("decode")
    dumps = [c for c in calls_in(efi) if _fq(repo, efi, c.func) == "json.dumps"]
    ok_d = False
    non_ascii = False
    for c in dumps:
        arg = Flow(efi).expand(c.args[0]) if c.args else None
        if arg is not None and isinstance(arg, ast.Call):
            cs = resolve_callees(repo, efi, arg.func)
            ok_d = any(x.func is pre for x in cs)
        if any(k.arg == "ensure_ascii" and isinstance(k.value, ast.Constant) and k.value.value is False for k in c.keywords):
            non_ascii = True
    chk.require(not non_ascii, R("K6"), f"{cach.relpath}:encode", "the index text is pure ASCII (json.dumps escapes everything else)",
                "json.dumps(..., ensure_ascii=False): the index text contains non-ASCII characters (unit strings) and is written / read with write_text / read_text / bytes.decode in "
                "whatever encoding the process has - not the self-contained text a fresh process can decode", key="encode:ascii")
    if not ok_d:
        raise AnalysisError(f"{cach.relpath}:encode: json.dumps is not recognisably given preprocess(...); the tagging of tuples on the way out is not decided by the form rule")
    chk.ok(R("K4"), f"{cach.relpath}:encode", "encode = json.dumps(preprocess(encode_hierarchy(obj)))")
    loads = [c for c in calls_in(dfi) if _fq(repo, dfi, c.func) == "json.loads"]
    ok_l = False
    for c in loads:
        for k in c.keywords:
            if k.arg == "object_hook":
                cs = resolve_callees(repo, dfi, k.value)
                ok_l = any(x.func is post for x in cs)
    if not ok_l:
        raise AnalysisError(f"{cach.relpath}:decode: json.loads is not given object_hook=postprocess; where tagged tuples are restored is not decided by the form rule")
    chk.ok(R("K4"), f"{cach.relpath}:decode", "decode = json.loads(text, object_hook=postprocess)")

    # ---------------------------------------------------------------- K5 coercion
    _check_coercion(chk, R("K5"), repo, enc)

    # ---------------------------------------------------------------- K6 self-contained
    ret = [n for n in efi.own_nodes() if isinstance(n, ast.Return)]
    ok6 = len(ret) == 1 and isinstance(Flow(efi).expand(ret[0].value), ast.Call) and _fq(repo, efi, Flow(efi).expand(ret[0].value).func) == "json.dumps"
    chk.require(ok6, R("K6"), f"{cach.relpath}:encode", "encode returns the json.dumps string", "encode does not return the json.dumps text", key="encode:returns-json")
    banned = []
    for m in (enc, dec, cach):
        for name, imp in m.imports.items():
            target = imp[1]
            if target.split(".")[0] in ("pickle", "marshal", "dill", "cloudpickle", "shelve"):
                banned.append(f"{m.name}:{target}")
    chk.require(not banned, R("K6"), "caching package", "no pickling/marshalling module is used by the cache codec",
                f"cache codec imports {banned}", key="codec:pickle")

    # ---------------------------------------------------------------- K7 array fields
    arr_cls = repo.module("ceos_alos2.array").classes.get("Array")
    if arr_cls is None:
        raise AnalysisError("anchor vanished: class Array")
    fields = [f for f in dataclass_fields(arr_cls)]
    ba = written.get("backend_array")
    if ba is None:
        raise AnalysisError("anchor vanished: backend_array document in encode_array")
    wdoc = dict(zip(_dict_keys(ba[1]), [v for k, v in zip(ba[1].keys, ba[1].values) if k is not None and const_str(k) is not None]))
    ctor = None
    for n in da.own_nodes():
        if isinstance(n, ast.Call) and any(c.cls is arr_cls for c in resolve_callees(repo, da, n.func)):
            ctor = n
    if ctor is None:
        raise AnalysisError("anchor vanished: Array(...) construction in decode_array")
    kw = {k.arg: k.value for k in ctor.keywords if k.arg}
    pos_fields = fields
    for i, a in enumerate(ctor.args):
        kw[pos_fields[i]] = a
    flow = Flow(da)
    dparam = da.positional_params[0]
    for f in fields:
        if f in ("fs", "records_per_chunk"):
            continue
        from .dataflow import is_access_path
        w = wdoc.get(f)
        w_ok = w is not None and (norm(w) in (f"obj.{f}", f"str(obj.{f})"))
        if not w_ok and not (w is not None and is_access_path(w)):
            # not written by a plain reference (built by a helper, a comprehension over field names, ...): the evaluation K8 compares the fields
            raise AnalysisError(f"{enc.relpath}:encode_array: document[{f!r}] is written from {short(w) if w is not None else 'no recognisable entry'}; not decided by the form rule")
        chk.require(w_ok, R("K7"), f"{enc.relpath}:encode_array", f"document[{f!r}] is written from obj.{f}",
                    f"document[{f!r}] is written from {short(w)}: another attribute of the array", key=f"array-field:{f}:write",
                    sample={"field": f, "writer": short(w) if w is not None else None})
        r = kw.get(f)
        rt = norm(flow.expand(r)).replace('"', "'") if r is not None else None
        r_ok = rt == f"{dparam}['{f}']"
        if not r_ok and not (r is not None and re.fullmatch(rf"{re.escape(dparam)}\['\w+'\]", rt or "")):
            raise AnalysisError(f"{dec.relpath}:decode_array: Array.{f} is rebuilt from {rt or 'no recognisable argument'}; not decided by the form rule")
        chk.require(r_ok, R("K7"), f"{dec.relpath}:decode_array", f"Array.{f} is read back from {dparam}[{f!r}]",
                    f"Array.{f} is rebuilt from {rt} instead of {dparam}[{f!r}]", key=f"array-field:{f}:read")
    chk.require("records_per_chunk" not in wdoc, R("K7"), f"{enc.relpath}:encode_array",
                "records_per_chunk is not persisted in the index", "records_per_chunk is stored in the index document", key="array-field:records_per_chunk:persisted")
    return written, wdoc


KIND_LETTERS = ("m", "M", "b", "i", "u", "f", "c", "U", "S", "O")


class Handler:
    """what handles one dtype kind: a repo function, or statements written inline in the dispatching function"""

    def __init__(self, owner, func=None, stmts=None, param=None):
        self.owner = owner
        self.func = func
        self.stmts = stmts or []
        self.flow = Flow(func if func is not None else owner)
        self.param = param if param is not None else (func.positional_params[0] if func is not None and func.positional_params else owner.positional_params[0])
        self.name = func.qualname if func is not None else f"{owner.qualname} (inline branch)"

    def walk(self):
        if self.func is not None:
            yield from ast.walk(self.func.node)
        else:
            for st in self.stmts:
                yield from ast.walk(st)

    def returns(self):
        nodes = self.func.own_nodes() if self.func is not None else [n for st in self.stmts for n in ast.walk(st)]
        return [n.value for n in nodes if isinstance(n, ast.Return) and n.value is not None]


def _handler_of(repo, fi, stmts):
    """an inline branch that only delegates to one repo function taking the array -> that function"""
    calls = [n for st in stmts for n in ast.walk(st) if isinstance(n, ast.Call)]
    if len(stmts) == 1 and isinstance(stmts[0], (ast.Return, ast.Assign, ast.Expr)) and isinstance(stmts[0].value, ast.Call):
        cs = resolve_callees(repo, fi, stmts[0].value.func)
        if len(cs) == 1 and cs[0].func is not None:
            return Handler(fi, func=cs[0].func)
    if len(stmts) == 1 and isinstance(stmts[0], (ast.Return, ast.Assign)) and isinstance(stmts[0].value, (ast.Name, ast.Attribute)):
        # the branch only selects the function that is called afterwards (`encode = encode_datetime`)
        cs = resolve_callees(repo, fi, stmts[0].value)
        if len(cs) == 1 and cs[0].func is not None:
            return Handler(fi, func=cs[0].func)
    return Handler(fi, stmts=stmts)


def _kind_test(flow, test):
    """kinds selected by a test of the form <x>.kind == 'K' / <x>.kind in ('K', ...) (locals expanded)"""
    if isinstance(test, ast.Compare) and len(test.ops) == 1:
        l, r = test.left, test.comparators[0]
        if isinstance(test.ops[0], ast.Eq):
            for a, b in ((l, r), (r, l)):
                if const_str(b) in KIND_LETTERS and norm(flow.expand(a)).endswith(".kind"):
                    return [const_str(b)]
        if isinstance(test.ops[0], ast.In) and isinstance(r, (ast.Tuple, ast.List, ast.Set)) and all(const_str(x) in KIND_LETTERS for x in r.elts) and norm(flow.expand(l)).endswith(".kind"):
            return [const_str(x) for x in r.elts]
    return None


def kind_dispatch(repo, fi):
    """-> ({kind: Handler}, default Handler|None, (selected by dtype.kind?, description)|None)"""
    flow = Flow(fi)
    table, default, form = {}, None, None
    for n in fi.own_nodes():
        if isinstance(n, ast.Dict) and n.keys and all(const_str(k) in KIND_LETTERS for k in n.keys):
            for k, v in zip(n.keys, n.values):
                cs = resolve_callees(repo, fi, v)
                table[const_str(k)] = Handler(fi, func=cs[0].func) if cs and cs[0].func else Handler(fi)
    named = {}
    if not table:
        # a module-level table the function looks up in
        from .interproc import dict_entries
        for n in fi.own_nodes():
            if isinstance(n, ast.Call) and isinstance(n.func, ast.Attribute) and n.func.attr == "get" and n.args and isinstance(n.func.value, ast.Name):
                ent = dict_entries(repo, fi.module, n.func.value)
                if ent and all(k in KIND_LETTERS for k in ent):
                    named[n.func.value.id] = ent
                    for k, v in ent.items():
                        cs = resolve_callees(repo, fi, v)
                        table[k] = Handler(fi, func=cs[0].func) if cs and cs[0].func else Handler(fi)
    if table:
        for n in fi.own_nodes():
            if isinstance(n, ast.Call) and isinstance(n.func, ast.Attribute) and n.func.attr == "get" and n.args:
                base = flow.expand(n.func.value)
                if isinstance(base, ast.Name) and base.id in named or isinstance(base, ast.Dict) and base.keys and all(const_str(k) in KIND_LETTERS for k in base.keys):
                    key = norm(flow.expand(n.args[0]))
                    form = (key.endswith(".kind"), f"table.get({key})")
                    if len(n.args) > 1:
                        cs = resolve_callees(repo, fi, n.args[1])
                        if cs and cs[0].func is not None:
                            default = Handler(fi, func=cs[0].func)
        return table, default, form
    # if-chain
    def desugar(st):
        # `T = a if <kind test> else b` (also what pre-normalisation makes of an if-chain of assignments) is the if-chain
        if isinstance(st, ast.Assign) and isinstance(st.value, ast.IfExp) and _kind_test(flow, st.value.test) is not None:
            mk = lambda v: ast.copy_location(ast.Assign(targets=st.targets, value=v), st)
            new = ast.copy_location(ast.If(test=st.value.test, body=[desugar(mk(st.value.body))], orelse=[desugar(mk(st.value.orelse))]), st)
            new._kinds = _kind_test(flow, st.value.test)  # decided on the original node (reaching definitions need its position)
            return new
        return st

    def ktest(st):
        return getattr(st, "_kinds", None) or _kind_test(flow, st.test)

    def scan(stmts):
        nonlocal default, form
        stmts = [desugar(s) for s in stmts]
        for i, st in enumerate(stmts):
            if isinstance(st, ast.If):
                kinds = ktest(st)
                if kinds is not None:
                    h = _handler_of(repo, fi, st.body)
                    for k in kinds:
                        table[k] = h
                    form = (True, "if-chain on dtype.kind")
                    rest = stmts[i + 1:]
                    if st.orelse:
                        if len(st.orelse) == 1 and isinstance(st.orelse[0], ast.If) and ktest(st.orelse[0]) is not None:
                            scan(st.orelse)
                        else:
                            default = _handler_of(repo, fi, st.orelse)
                    elif rest:
                        if any(isinstance(x, ast.If) and ktest(x) is not None for x in rest[:1]):
                            scan(rest)
                        else:
                            default = _handler_of(repo, fi, rest)
                    return True
                if scan(st.body) or scan(st.orelse):
                    return True
            elif isinstance(st, (ast.With, ast.Try, ast.For)):
                if scan(st.body):
                    return True
        return False
    scan(list(fi.node.body))
    return table, default, form


def _fq(repo, fi, f):
    if not isinstance(f, (ast.Name, ast.Attribute)):
        return None
    r = repo.resolve_expr(fi, f)
    return r.fq if r.kind == "external" else None


def _is_int64(node):
    if isinstance(node, ast.Constant) and isinstance(node.value, str):
        return node.value in INT64_NAMES
    return norm(node) in ("np.int64", "numpy.int64", "np.longlong")


def _check_decode_datetime(chk, rule, dec, dfi):
    flow = Flow(dfi)
    rets = [n for n in dfi.own_nodes() if isinstance(n, ast.Return)]
    where = f"{dec.relpath}:{dfi.qualname}"
    if len(rets) != 1:
        raise AnalysisError(f"{where}: expected a single return")
    full = flow.expand(rets[0].value)
    txt = norm(full).replace('"', "'")
    is_sum = isinstance(full, ast.BinOp) and isinstance(full.op, ast.Add)
    ref_ok = "['reference']" in txt
    unit_ok = "timedelta64[" in txt and "['units']" in txt
    chk.require(is_sum and ref_ok, rule, where, "decoded datetimes = stored reference + offsets",
                f"decoded datetimes are {short(full, 140)}: the reference is not added back", key=f"{dfi.qualname}:reference")
    chk.require(unit_ok, rule, where, "offsets are rebuilt as timedelta64[<stored unit>]",
                f"offsets are rebuilt as {short(full, 140)}: not with the stored unit", key=f"{dfi.qualname}:units")
    floaty = []
    for n in ast.walk(full):
        if isinstance(n, ast.BinOp) and isinstance(n.op, (ast.Div, ast.Mult, ast.Pow)):
            floaty.append(short(n, 60))
        if isinstance(n, ast.Call) and norm(n.func).split(".")[-1] in ("rint", "round", "floor", "ceil", "float", "float64", "divide", "multiply", "true_divide"):
            floaty.append(short(n, 60))
        if isinstance(n, ast.Constant) and isinstance(n.value, str) and n.value.startswith(("float", "f8", "<f8", ">f8")):
            floaty.append(repr(n.value))
    chk.require(not floaty, rule, where, "offsets go from the stored integers straight into timedelta64[<unit>] (no float arithmetic on the decode path)",
                f"the decode path contains {floaty[:2]}: 64-bit tick counts pass through float64 and are rounded beyond 2**53 (datetimes not exact to the nanosecond)", key=f"{dfi.qualname}:float")


def _check_coercion(chk, rule, repo, enc):
    ea = enc.func("encode_array")
    where = f"{enc.relpath}:encode_array"
    param = ea.positional_params[0]
    COERCE = {"numpy.asarray", "numpy.array", "numpy.asanyarray", "numpy.ascontiguousarray"}
    flow = Flow(ea)
    raw = {param}
    coerced = set()          # names bound to np.asarray(<the data>) (the parameter itself once it is re-bound)
    rebound_at = None
    for n in sorted((x for x in ea.own_nodes() if isinstance(x, ast.Assign) and len(x.targets) == 1 and isinstance(x.targets[0], ast.Name)), key=lambda x: x.lineno):
        v = n.value
        if isinstance(v, ast.Name) and v.id in raw and n.targets[0].id != param:
            raw.add(n.targets[0].id)
        if isinstance(v, ast.Call) and _fq(repo, ea, v.func) in COERCE and v.args and isinstance(v.args[0], ast.Name) and v.args[0].id in raw:
            if n.targets[0].id == param:
                rebound_at = n.lineno if rebound_at is None else min(rebound_at, n.lineno)
            else:
                coerced.add(n.targets[0].id)
    NDARRAY_API = ("dtype", "tolist", "astype", "shape", "ndim", "view", "reshape")

    def in_array_branch(n):
        return any(pol and "isinstance" in norm(t) and "Array" in norm(t) for t, pol in guards_of(n, ea.node))
    uses, coerced_uses = [], []
    for n in ea.own_nodes():
        if isinstance(n, ast.Attribute) and isinstance(n.value, ast.Name) and n.attr in NDARRAY_API and not in_array_branch(n):
            if n.value.id in coerced or (n.value.id == param and rebound_at is not None and n.lineno > rebound_at):
                coerced_uses.append(n)
            elif n.value.id in raw:
                uses.append(n)
        if isinstance(n, ast.Call) and not in_array_branch(n) and not (isinstance(n.func, ast.Name) and n.func.id == "isinstance") and _fq(repo, ea, n.func) not in COERCE:
            cs = resolve_callees(repo, ea, n.func)
            for a_ in n.args:
                if isinstance(a_, ast.Name) and cs:
                    if a_.id in coerced or (a_.id == param and rebound_at is not None and n.lineno > rebound_at):
                        coerced_uses.append(n)
                    elif a_.id in raw:
                        uses.append(n)
    if not uses and not coerced_uses:
        raise AnalysisError("anchor vanished: ndarray API use in encode_array")
    ok = not uses
    if not uses:
        uses = coerced_uses
    alt = False
    if not ok:
        # alternative repair: every Variable built by the reader already wraps an ndarray
        tr = repo.module("ceos_alos2.transformers")
        av = tr.funcs.get("as_variable")
        if av is not None:
            for n in av.own_nodes():
                if isinstance(n, ast.Call) and isinstance(n.func, ast.Name) and n.func.id == "Variable" and len(n.args) >= 2:
                    d = Flow(av).expand(n.args[1])
                    alt = isinstance(d, ast.Call) and _fq(repo, av, d.func) in COERCE
    if not (ok or alt):
        # the flow-insensitive reading above found a use of the raw data; it is a violation only when nothing on the way coerces at
        # all - otherwise the order of coercion and use is decided by evaluating the encoder on list-held data (K8)
        from .callgraph import CallGraph
        g_ = CallGraph(repo)
        reach = g_.reachable([ea.key])
        any_coercion = any(isinstance(n, ast.Call) and _fq(repo, g_.funcs[k], n.func) in COERCE for k in reach if k in g_.funcs and g_.funcs[k].module is enc for n in ast.walk(g_.funcs[k].node))
        if any_coercion:
            raise AnalysisError(f"{where}: {short(uses[0])} may touch the raw (list) data before it is coerced; the order is not decided by the form rule")
    chk.require(ok or alt, rule, where,
                "plain (list) variable data is coerced with np.asarray before .dtype/.tolist() are used",
                f"encode_array uses the ndarray API ({short(uses[0])}) on variable data that the reader produces as plain lists "
                f"(as_variable passes lists through): AttributeError, no cache can be created", key="encode_array:list-coercion",
                sample={"first ndarray-API use": short(uses[0]), "coercion": bool(ok)})
