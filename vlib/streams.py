"""element-wise view of lazily chained sequences (comprehensions, zip, enumerate, accumulate, range)

``Streams(flow).elem(expr)`` is the canonical term (vlib/symexpr.py) of the element at the common position i of the
sequence denoted by ``expr``: comprehensions are mapped through, zip gives tuples of aligned elements, enumerate /
range give the index atom, itertools.accumulate(S, initial=0) gives the prefix-sum atom ('acc', elem(S)) (the sum of
the elements *before* position i).  A filtered or nested comprehension has no aligned element: Undecidable.
"""
from __future__ import annotations

import ast

from .core import norm
from .symexpr import Canon, Undecidable, const, p_add, p_mul, poly_of, mk_poly

INDEX = ("index",)


class Streams:
    def __init__(self, flow, keep_atomic=()):
        self.flow = flow
        self.keep_atomic = set(keep_atomic)

    def _callee(self, e):
        return norm(e.func).split(".")[-1] if isinstance(e, ast.Call) else None

    def elem(self, e, env=None, depth=0, at=None):
        env = env or {}
        if depth > 12:
            raise Undecidable("sequence definitions nest too deeply")
        if isinstance(e, ast.Name):
            if e.id in env:
                raise Undecidable(f"{e.id} is an element, not a sequence")
            if e.id in self.keep_atomic:
                return ("elem", ("name", e.id))
            d = self.flow.reaching_def(e.id, e if getattr(e, "_parent", None) is not None else (at or e))
            if d is None:
                return ("elem", ("name", e.id))
            return self.elem(d, env, depth + 1, at=d)
        name = self._callee(e)
        if name in ("list", "tuple", "iter") and len(e.args) == 1:
            return self.elem(e.args[0], env, depth + 1, at)
        if name == "zip":
            return ("tuple", tuple(self.elem(a, env, depth + 1, at) for a in e.args))
        if name == "enumerate" and e.args:
            start = Canon(env)(e.args[1]) if len(e.args) > 1 else const(0)
            for k in e.keywords:
                if k.arg == "start":
                    start = Canon(env)(k.value)
            return ("tuple", (p_add(INDEX, start), self.elem(e.args[0], env, depth + 1, at)))
        if name == "range":
            c = Canon(env)
            args = [c(self.flow.expand(a)) for a in e.args]
            if len(args) == 1:
                return INDEX
            if len(args) == 2:
                return p_add(args[0], INDEX)
            return p_add(args[0], p_mul(args[2], INDEX))
        if name == "accumulate" and e.args:
            init0 = any(k.arg == "initial" and isinstance(k.value, ast.Constant) and k.value.value == 0 for k in e.keywords)
            plain = len(e.args) == 1 and all(k.arg == "initial" for k in e.keywords)
            inner = self.elem(e.args[0], env, depth + 1, at)
            if plain and init0:
                return ("acc", inner)
            if plain and not e.keywords:
                return ("acc-inclusive", inner)  # running sum *including* position i
            raise Undecidable(f"accumulate with a custom function: {norm(e)[:60]}")
        if isinstance(e, (ast.ListComp, ast.GeneratorExp)):
            if len(e.generators) != 1 or e.generators[0].ifs:
                raise Undecidable(f"filtered or nested comprehension has no aligned elements: {norm(e)[:60]}")
            g = e.generators[0]
            env2 = dict(env)
            self.bind(g.target, g.iter, env2, depth + 1, at)
            stop = {x.id for x in ast.walk(g.target) if isinstance(x, ast.Name)}
            return Canon(env2)(self.flow.expand(e.elt, stop=stop))
        raise Undecidable(f"not a recognised sequence expression: {norm(e)[:60]}")

    def bind(self, target, it, env, depth=0, at=None):
        v = self.elem(it, env, depth, at)
        self._bind(target, v, env)

    def _bind(self, target, v, env):
        if isinstance(target, ast.Name):
            env[target.id] = v
        elif isinstance(target, (ast.Tuple, ast.List)):
            if v[0] != "tuple" or len(v[1]) != len(target.elts):
                raise Undecidable(f"cannot unpack an element of shape {v[0]} into {norm(target)}")
            for t, x in zip(target.elts, v[1]):
                self._bind(t, x, env)
        else:
            raise Undecidable(f"unsupported loop target {norm(target)}")


def prefix_sum(term):
    """sum over positions j < i of ``term`` (a polynomial in per-position atoms) -> term at position i.
    c*elem(S) -> c*acc(S); a term without per-position atoms -> term * index"""
    out = const(0)
    for mono, coeff in poly_of(term).items():
        per_pos = [a for a in mono if _positional(a)]
        rest = [a for a in mono if not _positional(a)]
        base = mk_poly({tuple(sorted(rest, key=repr)): coeff})
        if not per_pos:
            out = p_add(out, p_mul(base, INDEX))
        elif len(per_pos) == 1 and per_pos[0][0] == "elem":
            out = p_add(out, p_mul(base, ("acc", per_pos[0])))
        elif len(per_pos) == 1 and _strided_min(per_pos[0]) is not None:
            # sum over j < i of min(K, N - K*j) = K*i: every chunk before the last one of range(0, N, K) is full
            out = p_add(out, p_mul(base, p_mul(_strided_min(per_pos[0]), INDEX)))
        else:
            raise Undecidable("read size is not linear in the per-chunk quantity")
    return out


def _strided_min(a):
    """K for an atom min(K, N - K*index) with K free of per-position quantities, else None"""
    if a[0] == "call" and a[1] == ("name", "min") and len(a[2]) == 2 and not a[3]:
        for K, other in (a[2], a[2][::-1]):
            if _positional(K):
                continue
            d = poly_of(other)
            lin = {m: c for m, c in d.items() if any(_positional(x) for x in m)}
            want = {m: -c for m, c in poly_of(p_mul(K, INDEX)).items()}
            if lin == want:
                return K
    return None


def _positional(a):
    if not isinstance(a, tuple) or not a:
        return False
    if a[0] in ("elem", "acc", "acc-inclusive", "index"):
        return True
    return any(_positional(x) for x in a if isinstance(x, tuple))
