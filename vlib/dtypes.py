"""E6 -- NumPy dtype literals read from the syntax tree (no numpy import)"""
from __future__ import annotations

import ast
import re

from .core import AnalysisError, const_str, norm

NAMED = {
    "bool": ("b", 1), "bool_": ("b", 1), "int8": ("i", 1), "uint8": ("u", 1), "int16": ("i", 2), "uint16": ("u", 2),
    "int32": ("i", 4), "uint32": ("u", 4), "int64": ("i", 8), "uint64": ("u", 8), "float16": ("f", 2),
    "float32": ("f", 4), "float64": ("f", 8), "complex64": ("c", 8), "complex128": ("c", 16),
    "single": ("f", 4), "double": ("f", 8), "csingle": ("c", 8), "cdouble": ("c", 16), "intc": ("i", 4),
}
PY_TYPES = {"complex": "complex128", "float": "float64", "int": "int64", "bool": "bool"}  # what NumPy makes of the Python types
_CODE = re.compile(r"^([<>=|]?)([biufcmMUSV])(\d+)$")


def parse_str(s):
    m = _CODE.match(s)
    if m:
        bo, kind, size = m.group(1) or "=", m.group(2), int(m.group(3))
        return {"byteorder": bo, "kind": kind, "itemsize": size, "fields": None, "text": s}
    if s in NAMED:
        kind, size = NAMED[s]
        return {"byteorder": "=", "kind": kind, "itemsize": size, "fields": None, "text": s}
    m = re.match(r"^(datetime64|timedelta64)(\[(\w+)\])?$", s)
    if m:
        return {"byteorder": "=", "kind": "M" if m.group(1) == "datetime64" else "m", "itemsize": 8, "fields": None, "unit": m.group(3), "text": s}
    raise AnalysisError(f"dtype string {s!r} not understood")


def parse_expr(e):
    """np.dtype(<literal>) | <literal> -> dtype description"""
    if isinstance(e, ast.Call) and norm(e.func) in ("np.dtype", "numpy.dtype") and e.args:
        return parse_expr(e.args[0])
    s = const_str(e)
    if s is not None:
        return parse_str(s)
    if isinstance(e, ast.Attribute) and norm(e.value) in ("np", "numpy") and e.attr in NAMED:
        return parse_str(e.attr)
    if isinstance(e, ast.Name) and e.id in PY_TYPES:
        d = parse_str(PY_TYPES[e.id])
        d["text"] = f"{e.id} (= {PY_TYPES[e.id]})"
        return d
    if isinstance(e, ast.List):
        fields = []
        off = 0
        for item in e.elts:
            if not (isinstance(item, ast.Tuple) and len(item.elts) == 2 and const_str(item.elts[0]) is not None):
                raise AnalysisError(f"structured dtype item not understood: {norm(item)}")
            sub = parse_expr(item.elts[1])
            fields.append({"name": const_str(item.elts[0]), "offset": off, **sub})
            off += sub["itemsize"]
        return {"byteorder": "|", "kind": "V", "itemsize": off, "fields": fields, "text": norm(e)}
    raise AnalysisError(f"dtype expression not understood: {norm(e)}")


def big_endian(d):
    """every multi-byte component is explicitly big-endian"""
    if d["fields"]:
        return all(big_endian(f) for f in d["fields"])
    return d["itemsize"] == 1 or d["byteorder"] == ">"
