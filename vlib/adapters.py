"""decode semantics of the repository's construct Adapter subclasses, decided
from their ``_decode`` bodies by normalisation + abstract evaluation on input
*classes* (blank text, filled text, arbitrary number) -- see symexpr/abseval."""

from __future__ import annotations

import ast

from .abseval import Unknown, evaluate, render, run_paths, truth
from .core import AnalysisError, norm
from .symexpr import Undecidable, const, p_add, p_mul, show, show_paths, summarize

SELF = ("param", 0)
OBJ = ("param", 1)

DATATYPES = "ceos_alos2.datatypes"
ENUMS = "ceos_alos2.sar_image.enums"

# value kind produced by each adapter, given the kind of what it wraps
KIND = {
    (DATATYPES, "AsciiInteger"): lambda k: "int",
    (DATATYPES, "AsciiFloat"): lambda k: "float",
    (DATATYPES, "AsciiComplex"): lambda k: "complex",
    (DATATYPES, "PaddedString"): lambda k: "str",
    (DATATYPES, "Factor"): lambda k: "float",
    (DATATYPES, "Metadata"): lambda k: f"pair({k})",
    (DATATYPES, "StripNullBytes"): lambda k: "bytes",
    (DATATYPES, "DatetimeYdms"): lambda k: "datetime",
    (DATATYPES, "DatetimeYdus"): lambda k: "datetime",
    (ENUMS, "Flag"): lambda k: "bool",
}


def find_adapter_classes(repo, layout_eval):
    out = {}
    for mod in repo.modules.values():
        for q, cls in mod.classes.items():
            if layout_eval.is_adapter_class(mod, cls):
                out[(mod.name, cls.name)] = (mod, cls)
    return out


def decode_summary(layout_eval, mod, cls):
    found = layout_eval.find_method(mod, cls, "_decode")
    if found is None:
        raise AnalysisError(f"{cls.name} has no _decode")
    fn, fmod, _ = found
    if any(isinstance(n, ast.Attribute) and isinstance(n.value, ast.Name) and n.value.id == "self" and isinstance(getattr(n, "_parent", None), ast.Call) and n._parent.func is n
           for n in ast.walk(fn)):
        # template method: specialise for this class by replacing self.<method>(...) with the body its MRO selects
        from .prenorm import SelfInliner
        fn = SelfInliner(layout_eval.find_method, mod, cls).specialise(fn)
    try:
        params, paths = summarize(fn)
    except Undecidable as e:
        raise AnalysisError(f"{mod.name}:{cls.name}._decode is outside the decidable fragment: {e}")
    return fn, paths


def _res(paths, val):
    return run_paths(paths, val)


def check_adapter(chk, rule, repo, layout_eval, key, blank_rule=None):
    """decide the decode semantics of one adapter class.  Reports under ``rule``
    (value semantics) and ``blank_rule`` (blank-input semantics) when given."""
    try:
        return _check_adapter(chk, rule, repo, layout_eval, key, blank_rule)
    except Unknown as e:
        raise AnalysisError(f"{key[0]}:{key[1]}._decode: abstract evaluation on input classes does not apply ({e})")


def _check_adapter(chk, rule, repo, layout_eval, key, blank_rule=None):
    classes = find_adapter_classes(repo, layout_eval)
    if key not in classes:
        raise AnalysisError(f"anchor vanished: adapter class {key[0]}:{key[1]}")
    mod, cls = classes[key]
    fn, paths = decode_summary(layout_eval, mod, cls)
    where = f"{mod.relpath}:{cls.name}._decode"
    name = cls.name
    text = show_paths(paths)

    def decide(desc, val, expect, r=rule, keysuffix="value"):
        try:
            got = _res(paths, val)
        except Unknown as e:
            raise AnalysisError(f"{where}: cannot decide the result for {desc} ({e}); normal form: {text}")
        good = expect(got)
        if not good:
            def free_names(t):
                if isinstance(t, tuple):
                    if len(t) == 2 and t[0] == "name" and isinstance(t[1], str) and t[1] not in ("X", "R", "I", "OBJ", "int", "float", "str", "complex", "bool", "len"):
                        yield t[1]
                    for x in t:
                        yield from free_names(x)
            unknown = sorted(set(free_names(got)))
            if unknown:
                raise AnalysisError(f"{where}: the result for {desc} reads {unknown[:3]}, whose value the abstract evaluation does not know ({render(got)}); not decided by the form rule")
        chk.require(
            good, r, where,
            f"{name}: {desc} -> {render(got)}",
            f"{name}: {desc} -> {render(got)} (normal form: {text})",
            key=f"{key[1]}:{keysuffix}", sample={"adapter": name, "input": desc, "result": render(got)},
        )
        return got

    X = ("name", "X")
    if name in ("AsciiInteger", "AsciiFloat", "PaddedString"):
        conv = {"AsciiInteger": "int", "AsciiFloat": "float", "PaddedString": None}[name]
        filled = {OBJ: ("text", X)}

        def expect_filled(got):
            if conv is None:
                return got == ("stripped", X)
            return got == ("term", ("call", ("name", conv), (("abs", "stripped", X),), ()))

        try:
            _res(paths, filled)
            decidable = True
        except Unknown:
            decidable = False
        if decidable:
            decide("a filled field (text with a non-blank character)", filled, expect_filled)
        else:
            # the body inspects the text (isdigit, startswith, ...): decide per formatting class of admissible
            # field contents instead (sign x padding x notation), by constant folding
            samples = {
                "AsciiInteger": ["0", "7", "   42", "42   ", "-12", "+12", "007", " -0012 ", "16384"],
                "AsciiFloat": ["1.5", "-1.5E+03", " 1.0000000E-01", "+2.", "1e5", " -0.0000000E+00", "12", "  3.25  "],
                "PaddedString": ["abc", "  a b ", "x", "A-1 "],
            }[name]
            conv_fn = {"AsciiInteger": int, "AsciiFloat": float, "PaddedString": str}[name]
            for sample in samples:
                want_v = conv_fn(sample.strip())
                try:
                    got = _res(paths, {OBJ: ("c", sample)})
                except Unknown as e:
                    raise AnalysisError(f"{where}: cannot decide the result for the field content {sample!r} ({e}); normal form: {text}")
                good = got[0] == "c" and type(got[1]) is type(want_v) and got[1] == want_v
                chk.require(good, rule, where, f"{name}: field content {sample!r} -> {render(got)}",
                            f"{name}: field content {sample!r} decodes to {render(got)}, the value written is {want_v!r} (normal form: {text[:160]})",
                            key=f"{key[1]}:value", sample={"adapter": name, "input": sample, "result": render(got)})
        blank = {OBJ: ("blank",)}
        want = {"AsciiInteger": ("c", -1), "AsciiFloat": ("nan",), "PaddedString": ("empty",)}[name]

        def expect_blank(got):
            if name == "AsciiInteger":
                return got[0] == "c" and got[1] == -1 and isinstance(got[1], int) and not isinstance(got[1], bool)
            return got == want

        decide("an all-blank field", blank, expect_blank, r=blank_rule or rule, keysuffix="blank")
        return
    if name == "AsciiComplex":
        import math
        from .records import unwrap
        con = layout_eval.instantiate(mod, cls, [32], {}, None)
        core, inner_chain = unwrap(con.sub)
        if core.kind == "struct":
            R, I = ("name", "R"), ("name", "I")
            val = {("attrof", ("term", ("name", "OBJ")), "real"): ("term", R),
                   ("attrof", ("term", ("name", "OBJ")), "imaginary"): ("term", I),
                   OBJ: ("term", ("name", "OBJ"))}
            try:
                got = _res(paths, val)
            except Unknown as e:
                raise AnalysisError(f"{where}: {e}")
            want_terms = _complex_forms(R, I)
            chk.require(
                got[0] == "term" and got[1] in want_terms, rule, where,
                f"AsciiComplex: (real, imaginary) -> real + 1j*imaginary",
                f"AsciiComplex decodes to {render(got)}, expected real + 1j*imaginary",
                key="AsciiComplex:value", sample={"adapter": name, "result": render(got)},
            )
            halves = []
            for f in core.fields:
                c2, ch2 = unwrap(f)
                halves.append((getattr(f, "name", None), [getattr(a, "cls", None) for a in ch2], c2.kind, repr(getattr(c2, "size", None))))
            ok = [h[0] for h in halves] == ["real", "imaginary"] and all(h[1] == ["AsciiFloat"] and h[3] == "16" for h in halves)
            chk.require(ok, blank_rule or rule, where.replace("_decode", "__init__"), "each half is its own AsciiFloat(n/2): a blank half decodes to NaN on its own",
                        f"the two halves are {halves}: not two AsciiFloat(n_bytes // 2) fields", key="AsciiComplex:halves")
            return
        if core.kind != "str":
            raise AnalysisError(f"{where}: AsciiComplex over a {core.kind} is not modelled")
        # the whole field is read as text and split in the decoder: decide per blank/filled class of each half
        w = 16
        sval = {SELF: ("term", ("name", "SELF"))}
        for k2, v2 in con.attrs.items():
            if isinstance(v2, (int, float, str)):
                sval[("attrof", ("term", ("name", "SELF")), k2)] = ("c", v2)
        cases = [("both filled", " 1.2500000E+00", "-2.5000000E-01"), ("real blank", "", " 3.0000000E+00"), ("imaginary blank", " 4.0000000E+00", ""), ("both blank", "", "")]
        for label, re_, im_ in cases:
            text_ = re_.rjust(w) + im_.rjust(w)
            want = complex(float(re_) if re_.strip() else float("nan"), float(im_) if im_.strip() else float("nan"))
            try:
                v_ = dict(sval)
                v_[OBJ] = ("c", text_)
                got = _res(paths, v_)
            except Unknown as e:
                raise AnalysisError(f"{where}: cannot decide the case {label} ({e}); normal form: {text}")
            def same(a, b):
                return (math.isnan(a) and math.isnan(b)) or a == b
            good = got[0] == "c" and isinstance(got[1], complex) and same(got[1].real, want.real) and same(got[1].imag, want.imag)
            chk.require(good, (blank_rule or rule) if "blank" in label else rule, where,
                        f"AsciiComplex: {label} -> {render(got)}",
                        f"AsciiComplex: field with {label} decodes to {render(got)}, expected {want!r}: a blank component must read as NaN, not raise or disturb the other component",
                        key=f"AsciiComplex:{label}", sample={"adapter": name, "case": label, "result": render(got)})
        return
    if name == "Factor":
        F = ("name", "F")
        val = {OBJ: ("term", X), ("attrof", ("term", ("name", "SELF")), "factor"): ("term", F), SELF: ("term", ("name", "SELF"))}
        got = _res(paths, val)
        want = ("term", ("binop", "Mult", *sorted((F, X), key=repr)))
        chk.require(got == want, rule, where, "Factor: x -> x * factor",
                    f"Factor decodes to {render(got)}, expected x * factor", key="Factor:value",
                    sample={"adapter": name, "result": render(got)})
        # the stored factor is the constructor argument
        init = layout_eval.find_method(mod, cls, "__init__")
        ok_store = False
        if init:
            for st in ast.walk(init[0]):
                if isinstance(st, ast.Assign) and isinstance(st.targets[0], ast.Attribute) and st.targets[0].attr == "factor":
                    ok_store = isinstance(st.value, ast.Name) and st.value.id in [a.arg for a in init[0].args.args]
        chk.require(ok_store, rule, where.replace("_decode", "__init__"), "Factor stores its constructor argument unchanged as self.factor",
                    "Factor.__init__ does not store the factor argument unchanged", key="Factor:init")
        return
    if name == "Metadata":
        A = ("name", "A")
        val = {OBJ: ("term", X), ("attrof", ("term", ("name", "SELF")), "attrs"): ("term", A), SELF: ("term", ("name", "SELF"))}
        got = _res(paths, val)
        chk.require(got == ("seq", "tuple", [("term", X), ("term", A)]), rule, where, "Metadata: x -> (x, attrs)",
                    f"Metadata decodes to {render(got)}, expected (x, attrs)", key="Metadata:value",
                    sample={"adapter": name, "result": render(got)})
        return
    if name == "StripNullBytes":
        got = _res(paths, {OBJ: ("nulls",)})
        chk.require(got == ("empty",), blank_rule or rule, where, "StripNullBytes: all-NUL bytes -> b''",
                    f"StripNullBytes maps all-NUL padding to {render(got)}", key="StripNullBytes:blank",
                    sample={"adapter": name, "result": render(got)})
        got = _res(paths, {OBJ: ("term", X)})
        want = ("term", ("call", ("attr", X, "strip"), (("const", "bytes", b"\x00"),), ()))
        chk.require(got == want, rule, where, "StripNullBytes: b -> b.strip(b'\\0')",
                    f"StripNullBytes decodes to {render(got)}", key="StripNullBytes:value")
        return
    if name == "Flag":
        outs = []
        for c in (0, 1, 2, 255):
            outs.append(_res(paths, {OBJ: ("c", c)}))
        good = outs == [("c", False), ("c", True), ("c", True), ("c", True)] and all(type(o[1]) is bool for o in outs)
        chk.require(good, rule, where, "Flag: 0 -> False, non-zero -> True",
                    f"Flag decodes 0,1,2,255 to {[render(o) for o in outs]}", key="Flag:value",
                    sample={"adapter": name, "results": [render(o) for o in outs]})
        return
    if name in ("DatetimeYdms", "DatetimeYdus"):
        # decided by C17 (calendar convention); here only that a single datetime is produced
        chk.ok(rule, where, f"{name}: decided under C17-M1/M3 (normal form: {text[:160]})")
        return
    # unknown adapter class used in a struct: cannot vouch for its semantics
    raise AnalysisError(f"adapter class {key} has no semantic summary in the checker (normal form: {text})")


def _complex_forms(R, I):
    j = ("const", "complex", 1j)
    imag = ("binop", "Mult", *sorted((j, I), key=repr))
    forms = set()
    for a, b in ((R, imag), (imag, R)):
        forms.add(("binop", "Add", *sorted((a, b), key=repr)))
    forms.add(("call", ("name", "complex"), (R, I), ()))
    return forms


def adapters_used(leaves):
    used = set()
    for lf in leaves:
        for a in lf.chain:
            if a["kind"] == "adapter":
                used.add((a["clsmod"], a["cls"]))
    return used
