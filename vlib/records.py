"""instance table: the record structs of the package and helpers over their layouts"""

from __future__ import annotations

from collections import OrderedDict

from .core import AnalysisError
from .layout import LayoutEval
from .poly import Poly, lift

# which module-level struct is which record (confirmed by reading; DESIGN A.1)
STRUCTS = OrderedDict(
    [
        ("image_descriptor", ("ceos_alos2.sar_image.file_descriptor", "file_descriptor_record")),
        ("signal", ("ceos_alos2.sar_image.signal_data", "signal_data_record")),
        ("processed", ("ceos_alos2.sar_image.processed_data", "processed_data_record")),
        ("leader", ("ceos_alos2.sar_leader.structure", "sar_leader_record")),
        ("volume", ("ceos_alos2.volume_directory.structure", "volume_directory_record")),
        ("trailer", ("ceos_alos2.sar_trailer.file_descriptor", "file_descriptor_record")),
    ]
)

# records that are parsed from a stream at an unknown absolute position
STREAM_RECORDS = {"signal", "processed"}


class Layouts:
    def __init__(self, repo):
        self.repo = repo
        self.ev = LayoutEval(repo)
        self._cache = {}

    def con(self, key):
        mod, name = STRUCTS[key]
        return self.ev.module_value(mod, name)

    def get(self, key):
        """-> (leaves, end, start)"""
        if key not in self._cache:
            con = self.con(key)
            if con.kind != "struct":
                raise AnalysisError(f"{STRUCTS[key]} is not a Struct(...) any more")
            start = Poly.sym("@") if key in STREAM_RECORDS else lift(0)
            leaves, end = self.ev.flatten(con, start)
            self._cache[key] = (leaves, end, start)
        return self._cache[key]

    def named(self, modname, name, start=None):
        con = self.ev.module_value(modname, name)
        return self.ev.flatten(con, start)

    def by_name(self, key):
        leaves, _, _ = self.get(key)
        out = OrderedDict()
        for lf in leaves:
            if lf.name in out:
                # duplicate field names shadow each other in construct's Container
                out[lf.name + "#dup"] = lf
            else:
                out[lf.name] = lf
        return out


def top_spans(leaves, end, depth=1, prefix=()):
    """ordered {field name: (start, end)} of the fields at ``depth`` below prefix"""
    spans = OrderedDict()
    order = []
    for lf in leaves:
        if lf.path[: len(prefix)] != tuple(prefix) or len(lf.path) < len(prefix) + depth:
            continue
        name = ".".join(x[:-2] if x.endswith("[]") else x for x in lf.path[: len(prefix) + depth])
        if name not in spans:
            spans[name] = [lf.offset, None]
            order.append(name)
    for a, b in zip(order, order[1:]):
        spans[a][1] = spans[b][0]
    if order:
        spans[order[-1]][1] = end
    return OrderedDict((k, (v[0], v[1])) for k, v in spans.items())


def struct_field_names(con):
    """names of the direct fields of a Struct Con (in order)"""
    names = []
    for f in con.fields:
        names.append(f.name if f.kind == "renamed" else None)
    return names


def unwrap(con):
    """strip renamed/adapter/enum wrappers -> (core, [adapter cons outermost first])"""
    chain = []
    while con.kind in ("renamed", "adapter", "enum"):
        if con.kind != "renamed":
            chain.append(con)
        con = con.sub
    return con, chain


def subcon(con, path):
    """follow field names through structs (arrays are entered transparently)"""
    cur = con
    for name in path:
        core, _ = unwrap(cur)
        while core.kind == "array":
            core, _ = unwrap(core.sub)
        if core.kind != "struct":
            raise KeyError(path)
        for f in core.fields:
            if f.kind == "renamed" and f.name == name:
                cur = f
                break
        else:
            raise KeyError(path)
    return cur
