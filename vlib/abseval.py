"""constant propagation over canonical terms with a small abstract string/number
domain -- used to decide what a tiny decode/transform function returns for a
*class* of inputs (blank field, filled field) without running it.

Abstract values
  ('c', python constant)            concrete
  ('blank',)                        non-empty all-whitespace text
  ('nulls',)                        non-empty all-NUL bytes
  ('text', atom)                    text with at least one non-blank character
  ('stripped', atom)                strip() of such a text: non-empty, no outer blanks
  ('empty',)                        ""  /  b""  (after strip)
  ('num', atom)                     an arbitrary number (nothing known)
  ('term', t)                       uninterpreted result
  ('seq', kind, [values])           list/tuple literal
  ('nan',)                          float('nan')
"""

from __future__ import annotations

import math

from .symexpr import Undecidable, show


class Unknown(Exception):
    """cannot decide under this valuation"""


def truth(v):
    k = v[0]
    if k == "c":
        return bool(v[1])
    if k in ("blank", "nulls", "text", "stripped"):
        return True
    if k == "empty":
        return False
    if k == "nan":
        return True
    if k == "seq":
        return bool(v[2])
    raise Unknown(f"truthiness of {v}")


def evaluate(t, val):
    """t: canonical term (symexpr); val: dict param-term -> abstract value"""
    if t in val:
        return val[t]
    k = t[0]
    if k == "const":
        return ("c", t[2])
    if k in ("param", "bound", "name"):
        if t in val:
            return val[t]
        return ("term", t)
    if k == "attr":
        base = evaluate(t[1], val)
        key = ("attrof", _h(base), t[2])
        if key in val:
            return val[key]
        return ("term", ("attr", _t(base), t[2]))
    if k == "sub" and t[2][0] == "slice":
        base = evaluate(t[1], val)
        parts = [evaluate(x, val) for x in t[2][1:]]
        if base[0] == "c" and all(p[0] == "c" for p in parts):
            return ("c", base[1][slice(*[p[1] for p in parts])])
        raise Unknown("slice of a symbolic value")
    if k == "sub":
        base = evaluate(t[1], val)
        idx = evaluate(t[2], val)
        if base[0] == "seq" and idx[0] == "c" and isinstance(idx[1], int):
            return base[2][idx[1]]
        if base[0] == "dict" and idx[0] == "c":
            for kk, vv in base[1]:
                if kk == idx:
                    return vv
        return ("term", ("sub", _t(base), _t(idx)))
    if k in ("tuple", "list"):
        return ("seq", k, [evaluate(x, val) for x in t[1]])
    if k == "not":
        return ("c", not truth(evaluate(t[1], val)))
    if k == "truth":
        return ("c", truth(evaluate(t[1], val)))
    if k == "and":
        last = ("c", True)
        for x in t[1]:
            last = evaluate(x, val)
            if not truth(last):
                return last
        return last
    if k == "or":
        last = ("c", False)
        for x in t[1]:
            last = evaluate(x, val)
            if truth(last):
                return last
        return last
    if k == "ifexp":
        return evaluate(t[2] if truth(evaluate(t[1], val)) else t[3], val)
    if k == "cmp":
        return _cmp(t[1], evaluate(t[2], val), evaluate(t[3], val))
    if k == "poly":
        total = None
        for mono, coeff in t[1]:
            term = ("c", coeff)
            for f in mono:
                term = _arith("*", term, evaluate(f, val))
            total = term if total is None else _arith("+", total, term)
        return total
    if k == "binop":
        return _arith(t[1], evaluate(t[2], val), evaluate(t[3], val))
    if k == "call":
        return _call(t, val)
    if k == "fstring":
        return ("term", t)
    if k == "dict":
        return ("dict", tuple((evaluate(a, val), evaluate(b, val)) for a, b in t[1]))
    if k == "raise":
        return ("raise", t[1])
    return ("term", t)


def _h(v):
    return v if v[0] != "seq" else (v[0], v[1], tuple(_h(x) for x in v[2]))


def _t(v):
    if v[0] == "term":
        return v[1]
    if v[0] == "c":
        return ("const", type(v[1]).__name__, v[1])
    return ("abs",) + tuple(_h(v))


def _cmp(op, a, b):
    if a[0] == "c" and b[0] == "c":
        x, y = a[1], b[1]
        try:
            fn = {"Eq": lambda: x == y, "NotEq": lambda: x != y, "Lt": lambda: x < y, "LtE": lambda: x <= y,
                  "Is": lambda: (x is y) or (x is None and y is None) or (type(x) is type(y) and not isinstance(x, float) and x == y),
                  "IsNot": lambda: not ((x is y) or (x is None and y is None) or (type(x) is type(y) and not isinstance(x, float) and x == y))}.get(op)
            if fn is not None:
                return ("c", fn())
        except TypeError:
            raise Unknown("comparison")
    if op in ("In", "NotIn"):
        if b[0] == "seq" and all(x[0] == "c" for x in b[2]) and a[0] == "c":
            r = a[1] in [x[1] for x in b[2]]
            return ("c", r if op == "In" else not r)
        raise Unknown("membership")
    if op in ("Eq", "NotEq", "Is", "IsNot"):
        same = None
        kinds = {a[0], b[0]}
        if "nan" in kinds:
            same = False
        elif a[0] == "empty" and b[0] == "c" or b[0] == "empty" and a[0] == "c":
            c = a if a[0] == "c" else b
            same = c[1] in ("", b"")
        elif kinds & {"blank", "nulls", "text", "stripped"} and "c" in kinds:
            c = a if a[0] == "c" else b
            if c[1] in ("", b"", None) or not isinstance(c[1], (str, bytes)):
                same = False
        elif "c" in kinds and (kinds & {"seq"}):
            c = a if a[0] == "c" else b
            s = b if a[0] == "c" else a
            if c[1] is None:
                same = False
        if same is None:
            raise Unknown(f"equality of {a} and {b}")
        return ("c", same if op in ("Eq", "Is") else not same)
    raise Unknown(f"order of {a} and {b}")


def _arith(op, a, b):
    if a[0] == "c" and b[0] == "c":
        x, y = a[1], b[1]
        try:
            if op in ("+", "Add"):
                return ("c", x + y)
            if op in ("*", "Mult"):
                return ("c", x * y)
            if op == "Sub":
                return ("c", x - y)
            if op == "Div":
                return ("c", x / y)
            if op == "FloorDiv":
                return ("c", x // y)
            if op == "Mod":
                return ("c", x % y)
            if op == "Pow":
                return ("c", x ** y)
        except Exception:
            raise Unknown("arithmetic")
    if op in ("*", "Mult"):
        if a == ("c", 1):
            return b
        if b == ("c", 1):
            return a
    if op in ("+", "Add"):
        if a == ("c", 0):
            return b
        if b == ("c", 0):
            return a
    name = {"+": "Add", "*": "Mult"}.get(op, op)
    x, y = _t(a), _t(b)
    if name in ("Add", "Mult"):
        x, y = sorted((x, y), key=repr)
    return ("term", ("binop", name, x, y))


def _call(t, val):
    f = t[1]
    args = [evaluate(a, val) for a in t[2]]
    kws = [(n, evaluate(v, val)) for n, v in t[3]]
    # method calls
    if f[0] == "attr" and not (f[1][0] == "name" and f[1][1] in ("math", "np", "numpy", "cmath")):
        recv = evaluate(f[1], val)
        m = f[2]
        if m in ("strip", "rstrip", "lstrip") and recv[0] in ("blank", "nulls", "text", "stripped", "empty", "c"):
            if recv[0] == "c" and isinstance(recv[1], (str, bytes)):
                a = [x[1] for x in args] if all(x[0] == "c" for x in args) else None
                if a is None:
                    raise Unknown("strip args")
                r = getattr(recv[1], m)(*a)
                return ("c", r)
            if recv[0] == "blank" and not args and m == "strip":
                return ("empty",)
            if recv[0] == "nulls" and m == "strip" and args == [("c", b"\x00")]:
                return ("empty",)
            if recv[0] == "nulls" and m == "strip" and not args:
                return ("nulls",)
            if recv[0] == "text" and not args and m == "strip":
                return ("stripped", recv[1])
            if recv[0] in ("stripped", "empty") and not args:
                return recv
            raise Unknown(f"{m} on {recv}")
        if recv[0] == "empty" and all(x[0] == "c" for x in args) and not kws and m not in ("strip", "lstrip", "rstrip"):
            try:
                return ("c", getattr("", m)(*[x[1] for x in args]))
            except Exception as e:
                return ("raise", ("exc", type(e).__name__))
        if recv[0] == "blank" and not args and m in ("isdigit", "isalpha", "isalnum", "isnumeric", "isdecimal", "isspace", "isupper", "islower"):
            return ("c", getattr("   ", m)())
        if recv[0] == "c" and isinstance(recv[1], (str, bytes)) and all(x[0] == "c" for x in args) and not kws:
            try:
                return ("c", getattr(recv[1], m)(*[x[1] for x in args]))
            except Exception as e:
                return ("raise", ("exc", type(e).__name__))
        return ("term", ("call", ("attr", _t(recv), m), tuple(_t(a) for a in args), tuple((n, _t(v)) for n, v in kws)))
    fname = None
    if f[0] == "name":
        fname = f[1]
    elif f[0] == "attr":
        pass
    if f[0] == "attr" and f[1] in (("name", "math"), ("name", "np"), ("name", "numpy")) and f[2] == "isnan":
        fname = "math.isnan"
    if fname == "complex" and len(args) == 2:
        vals = []
        for a_ in args:
            if a_[0] == "raise":
                return a_
            if a_[0] == "nan":
                vals.append(float("nan"))
            elif a_[0] == "c" and isinstance(a_[1], (int, float)):
                vals.append(a_[1])
            else:
                vals = None
                break
        if vals is not None:
            return ("c", complex(*vals))
    if args and any(a_[0] == "raise" for a_ in args):
        return [a_ for a_ in args if a_[0] == "raise"][0]
    if fname in ("int", "float", "bool", "len", "str", "math.isnan", "isinstance", "abs"):
        a = args[0] if args else None
        if fname == "isinstance":
            raise Unknown("isinstance")
        if a is not None and a[0] == "c":
            try:
                if fname == "math.isnan":
                    return ("c", math.isnan(a[1]))
                r = {"int": int, "float": float, "bool": bool, "len": len, "str": str, "abs": abs}[fname](a[1])
            except Exception as e:
                return ("raise", ("exc", type(e).__name__))
            if isinstance(r, float) and math.isnan(r):
                return ("nan",)
            return ("c", r)
        if fname == "math.isnan" and a is not None and a[0] == "nan":
            return ("c", True)
        if fname == "bool" and a is not None:
            return ("c", truth(a))
        if fname == "len" and a is not None and a[0] == "empty":
            return ("c", 0)
        if fname in ("int", "float") and a is not None and a[0] in ("empty", "blank"):
            return ("raise", ("exc", "ValueError"))
        if fname == "len" and a is not None and a[0] == "seq":
            return ("c", len(a[2]))
    return ("term", ("call", f if f[0] != "attr" else f, tuple(_t(a) for a in args), tuple((n, _t(v)) for n, v in kws)))


def run_paths(paths, val):
    """evaluate a guarded summary under a valuation -> abstract result.
    Raises Unknown when a guard cannot be decided."""
    for conds, res in paths:
        ok = True
        for c in conds:
            if not truth(evaluate(c, val)):
                ok = False
                break
        if ok:
            if res[0] == "raise":
                return ("raise", res[1])
            return evaluate(res, val)
    raise Unknown("no path applies")


def render(v):
    if v[0] == "c":
        return repr(v[1])
    if v[0] == "term":
        return show(v[1])
    if v[0] == "seq":
        o, c = ("[", "]") if v[1] == "list" else ("(", ")")
        return o + ", ".join(render(x) for x in v[2]) + c
    if v[0] == "nan":
        return "nan"
    if v[0] == "raise":
        return "raise " + (show(v[1]) if isinstance(v[1], tuple) else str(v[1]))
    return str(v)
