"""driver: ./check <ID> [--tier quick|thorough] [--repo PATH]

exit 0  the decided clauses of the property hold on /repo's current source
exit 1  VIOLATION property=<id> replay=<path>   (a specific construct is named)
exit 2  ANALYSIS-ERROR (anchor vanished / construct outside the modelled fragment)
"""
import argparse
import importlib
import os
import sys
import traceback

sys.path.insert(0, os.path.dirname(os.path.dirname(os.path.abspath(__file__))))

from vlib.core import AnalysisError, Check, Repo  # noqa: E402

ALL = [f"C{i:02d}" for i in range(1, 21)]


def run_one(pid, tier, repo_root, seed):
    mod = importlib.import_module(f"vlib.props.{pid.lower()}")
    try:
        repo = Repo(repo_root)
        chk = Check(pid, tier, repo_root, level=getattr(mod, "LEVEL", "other"), seed=seed)
        for n in sorted(set(repo.prenorm_notes)):
            chk.note("pre-normalisation: " + n)
        try:
            mod.run(chk, repo)
        except AnalysisError as e:
            if not chk.violations:
                raise
            chk.analysis_errors.append(str(e))
        if tier == "thorough" and not os.environ.get("VERIF_NO_SELFTEST") and not chk.violations and not chk.analysis_errors:
            # only meaningful on a tree that holds: on a violating tree the verdict is the violation
            selftest(chk, pid)
        return chk.finish()
    except AnalysisError as e:
        print(f"ANALYSIS-ERROR property={pid} {e}")
        return 2
    except Exception:
        traceback.print_exc()
        print(f"ANALYSIS-ERROR property={pid} internal error in the checker (traceback above)")
        return 2


def selftest(chk, pid):
    """thorough tier: the property's mutation self-test (breaking variants must be reported, preserving
    variants must stay silent) on scratch copies; a failure means the checker is broken -> exit 2"""
    import multiprocessing
    here = os.path.dirname(os.path.dirname(os.path.abspath(__file__)))
    sys.path.insert(0, os.path.join(here, "selftest"))
    import run as st_run
    from variants import VARIANTS
    vs = [dict(v, props=[pid]) for v in VARIANTS if v["props"][0] == pid]
    if not vs:
        return
    os.environ["SELFTEST_REPO"] = chk.repo_root
    os.environ["VERIF_NO_SELFTEST"] = "1"
    with multiprocessing.Pool(min(16, len(vs))) as pool:
        res = pool.map(st_run.run_variant, vs)
    bad = [(v["id"], status, info[:200]) for v, status, info in res if status not in ("ok", "BROKEN-VARIANT")]
    skipped = [v["id"] for v, status, info in res if status == "BROKEN-VARIANT"]
    n_m = sum(1 for v in vs if v["expect"] == "M")
    chk.extra["selftest"] = {"variants": len(vs), "breaking": n_m, "preserving": len(vs) - n_m, "failed": bad,
                             "not_applicable_to_this_tree": skipped,
                             "rule": "each variant is a textual edit of the package applied to a scratch copy; breaking variants must exit 1 naming the instance, preserving variants must exit 0"}
    if bad:
        raise AnalysisError(f"self-test of the {pid} checker failed: {bad[:3]}")


def main():
    ap = argparse.ArgumentParser()
    ap.add_argument("pid")
    ap.add_argument("--tier", default=os.environ.get("VERIF_TIER") or "quick", choices=["quick", "thorough"])
    ap.add_argument("--repo", default=os.environ.get("VERIF_REPO", "/repo"))
    args = ap.parse_args()
    try:
        seed = int(os.environ.get("VERIF_SEED", "0"))
    except ValueError:
        seed = 0
    pids = ALL if args.pid == "all" else [args.pid.upper()]
    worst = 0
    for pid in pids:
        rc = run_one(pid, args.tier, args.repo, seed)
        worst = max(worst, rc)
    sys.exit(worst)


if __name__ == "__main__":
    main()
