"""driver: ./check <ID> [--tier quick|thorough] [--repo PATH]

exit 0  the decided clauses of the property hold on /repo's current source
exit 1  VIOLATION property=<id> replay=<path>   (a specific construct is named)
exit 2  ANALYSIS-ERROR (anchor vanished / construct outside the modelled fragment)
"""
import argparse
import importlib
import os
import sys
import traceback

sys.path.insert(0, os.path.dirname(os.path.dirname(os.path.abspath(__file__))))

from vlib.core import AnalysisError, Check, Repo  # noqa: E402

ALL = [f"C{i:02d}" for i in range(1, 21)]


def run_one(pid, tier, repo_root, seed):
    mod = importlib.import_module(f"vlib.props.{pid.lower()}")
    try:
        repo = Repo(repo_root)
        chk = Check(pid, tier, repo_root, level=getattr(mod, "LEVEL", "other"), seed=seed)
        mod.run(chk, repo)
        return chk.finish()
    except AnalysisError as e:
        print(f"ANALYSIS-ERROR property={pid} {e}")
        return 2
    except Exception:
        traceback.print_exc()
        print(f"ANALYSIS-ERROR property={pid} internal error in the checker (traceback above)")
        return 2


def main():
    ap = argparse.ArgumentParser()
    ap.add_argument("pid")
    ap.add_argument("--tier", default=os.environ.get("VERIF_TIER") or "quick", choices=["quick", "thorough"])
    ap.add_argument("--repo", default=os.environ.get("VERIF_REPO", "/repo"))
    args = ap.parse_args()
    try:
        seed = int(os.environ.get("VERIF_SEED", "0"))
    except ValueError:
        seed = 0
    pids = ALL if args.pid == "all" else [args.pid.upper()]
    worst = 0
    for pid in pids:
        rc = run_one(pid, args.tier, args.repo, seed)
        worst = max(worst, rc)
    sys.exit(worst)


if __name__ == "__main__":
    main()
