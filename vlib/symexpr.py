"""E7 -- canonical forms of small pure functions (normalisation, not execution).

``summarize(funcdef)`` turns a small function into a guarded normal form
[(path condition, returned term)] by inlining its single-assignment locals;
terms are canonical modulo: local/parameter-independent renaming of bound
variables, commutativity/associativity/distributivity of + and * over
uninterpreted atoms (integer polynomial normal form), orientation of
comparisons, keyword/positional argument order for calls with known
signatures.  Two functions inside this fragment whose normal forms differ
compute different things in the theory of commutative rings with
uninterpreted functions; a function outside the fragment raises
``Undecidable`` (reported as an analysis error, never as a violation).
"""

from __future__ import annotations

import ast

from .core import AnalysisError, norm


class Undecidable(AnalysisError):
    pass


# ---------------------------------------------------------------------------
# terms are nested tuples; polynomials are ('poly', ((monomial, coeff), ...))


def const(v):
    return ("const", type(v).__name__, v)


def is_num_const(t):
    return t[0] == "const" and t[1] in ("int", "float", "complex") and not isinstance(t[2], bool)


def poly_of(t):
    """term -> dict monomial(tuple of atom terms, sorted) -> coeff"""
    if t[0] == "poly":
        return dict(t[1])
    if is_num_const(t):
        return {(): t[2]} if t[2] != 0 else {}
    return {(t,): 1}


def mk_poly(d):
    d = {k: v for k, v in d.items() if v != 0}
    if not d:
        return const(0)
    if list(d) == [()]:
        return const(d[()])
    if len(d) == 1:
        (k, v), = d.items()
        if v == 1 and len(k) == 1:
            return k[0]
    return ("poly", tuple(sorted(d.items(), key=lambda kv: repr(kv))))


def p_add(a, b, sign=1):
    d = dict(poly_of(a))
    for k, v in poly_of(b).items():
        d[k] = d.get(k, 0) + sign * v
    return mk_poly(d)


def p_mul(a, b):
    d = {}
    for k1, v1 in poly_of(a).items():
        for k2, v2 in poly_of(b).items():
            k = tuple(sorted(k1 + k2, key=repr))
            d[k] = d.get(k, 0) + v1 * v2
    return mk_poly(d)


CMP_FLIP = {"Gt": ("Lt", True), "GtE": ("LtE", True)}


def _numericish(t):
    if t[0] == "const":
        return t[1] in ("int", "float")
    return t[0] in ("poly", "name", "param", "bound", "sub", "attr", "call", "binop")


class Canon:
    """expression -> canonical term under an environment of bound names"""

    def __init__(self, env=None, free_ok=True):
        self.env = dict(env or {})
        self.counter = [0]

    def fresh(self):
        self.counter[0] += 1
        return ("bound", self.counter[0])

    def child(self, extra):
        c = Canon(self.env)
        c.counter = self.counter
        c.env.update(extra)
        return c

    def bind_target(self, target, env):
        """bind names of a comprehension/lambda target to fresh bound vars"""
        if isinstance(target, ast.Name):
            env[target.id] = self.fresh()
        elif isinstance(target, (ast.Tuple, ast.List)):
            for e in target.elts:
                self.bind_target(e.value if isinstance(e, ast.Starred) else e, env)
        else:
            raise Undecidable(f"unsupported binding target {norm(target)}")

    def target_shape(self, target, env):
        if isinstance(target, ast.Name):
            return env[target.id]
        return ("tuple", tuple(self.target_shape(e.value if isinstance(e, ast.Starred) else e, env) for e in target.elts))

    def __call__(self, e):
        m = getattr(self, "c_" + type(e).__name__, None)
        if m is None:
            raise Undecidable(f"expression outside the fragment: {norm(e)[:80]}")
        return m(e)

    def c_Constant(self, e):
        return const(e.value)

    def c_Name(self, e):
        if e.id in self.env:
            return self.env[e.id]
        return ("name", e.id)

    def c_Attribute(self, e):
        return ("attr", self(e.value), e.attr)

    def c_Subscript(self, e):
        return ("sub", self(e.value), self(e.slice))

    def c_Slice(self, e):
        f = lambda x: const(None) if x is None else self(x)
        return ("slice", f(e.lower), f(e.upper), f(e.step))

    def c_Tuple(self, e):
        return ("tuple", tuple(self(x) for x in e.elts))

    def c_List(self, e):
        return ("list", tuple(self(x) for x in e.elts))

    def c_Set(self, e):
        return ("set", tuple(sorted((self(x) for x in e.elts), key=repr)))

    def c_Dict(self, e):
        items = []
        for k, v in zip(e.keys, e.values):
            items.append((("splat",) if k is None else self(k), self(v)))
        return ("dict", tuple(items))

    def c_Starred(self, e):
        return ("star", self(e.value))

    def c_JoinedStr(self, e):
        parts = []
        for v in e.values:
            if isinstance(v, ast.Constant):
                parts.append(const(v.value))
            else:
                parts.append(("fmt", self(v.value), v.conversion, self(v.format_spec) if v.format_spec else None))
        return ("fstring", tuple(parts))

    def c_UnaryOp(self, e):
        v = self(e.operand)
        if isinstance(e.op, ast.USub):
            return p_mul(const(-1), v)
        if isinstance(e.op, ast.UAdd):
            return v
        if isinstance(e.op, ast.Not):
            if v[0] == "not":
                return ("truth", v[1])
            return ("not", v)
        return ("unop", type(e.op).__name__, v)

    def c_BinOp(self, e):
        l, r = self(e.left), self(e.right)
        op = type(e.op).__name__
        strish = lambda t: t[0] in ("const",) and t[1] in ("str", "bytes") or t[0] == "fstring"
        if op == "Add" and not strish(l) and not strish(r) and l[0] not in ("list", "tuple") and r[0] not in ("list", "tuple"):
            return p_add(l, r)
        if op == "Sub":
            return p_add(l, r, -1)
        if op == "Mult" and not strish(l) and not strish(r) and l[0] not in ("list", "tuple") and r[0] not in ("list", "tuple"):
            return p_mul(l, r)
        if is_num_const(l) and is_num_const(r):
            try:
                if op == "Pow":
                    return const(l[2] ** r[2])
                if op == "FloorDiv":
                    return const(l[2] // r[2])
                if op == "Mod":
                    return const(l[2] % r[2])
                if op == "Div":
                    return const(l[2] / r[2])
            except Exception:
                pass
        if op in ("BitOr", "BitAnd"):
            pass
        return ("binop", op, l, r)

    def c_BoolOp(self, e):
        vals = tuple(self(v) for v in e.values)
        return ("and" if isinstance(e.op, ast.And) else "or", vals)

    def c_Compare(self, e):
        terms = []
        left = self(e.left)
        for op, right in zip(e.ops, e.comparators):
            r = self(right)
            name = type(op).__name__
            l2, r2 = left, r
            if name in CMP_FLIP:
                name, _ = CMP_FLIP[name]
                l2, r2 = r, left
            if name in ("Eq", "NotEq", "Is", "IsNot"):
                l2, r2 = sorted((l2, r2), key=repr)
            if name in ("Lt", "LtE") and _numericish(l2) and _numericish(r2):
                # a < b  ==  a - b < 0 : terms may move freely across the comparison
                l2, r2 = p_add(l2, r2, -1), const(0)
            terms.append(("cmp", name, l2, r2))
            left = r
        return terms[0] if len(terms) == 1 else ("and", tuple(terms))

    def c_IfExp(self, e):
        t, a, b = self(e.test), self(e.body), self(e.orelse)
        while isinstance(t, tuple) and t and t[0] == "not" and len(t) == 2:
            t, a, b = t[1], b, a  # (x if not c else y) is (y if c else x)
        return ("ifexp", t, a, b)

    # positional parameters of a few standard-library constructors: positional and keyword spellings coincide
    SIGNATURES = {
        "datetime.datetime": ("year", "month", "day", "hour", "minute", "second", "microsecond", "tzinfo"),
        "datetime.timedelta": ("days", "seconds", "microseconds", "milliseconds", "minutes", "hours", "weeks"),
        "datetime.date": ("year", "month", "day"),
    }

    def c_Call(self, e):
        f = self(e.func)
        args = tuple(self(a) for a in e.args)
        kws = [((k.arg or "**", self(k.value))) for k in e.keywords]
        sig = self.SIGNATURES.get(norm(e.func))
        if sig is not None and len(args) <= len(sig) and not any(isinstance(a, ast.Starred) for a in e.args) and all(k.arg for k in e.keywords):
            kws = list(zip(sig, args)) + kws
            args = ()
        # partial(g, *a, **k)(*b, **kw)  is  g(*a, *b, **k, **kw)   (functools.partial / toolz curry applied at once)
        if f[0] == "call" and f[1] in (("name", "partial"), ("name", "curry"), ("attr", ("name", "functools"), "partial")) and f[2]:
            inner_kws = dict(f[3])
            inner_kws.update(dict(kws))
            return ("call", f[2][0], tuple(f[2][1:]) + args, tuple(sorted(inner_kws.items(), key=repr)))
        return ("call", f, args, tuple(sorted(kws, key=repr)))

    def c_Lambda(self, e):
        env = {}
        a = e.args
        names = [x.arg for x in a.posonlyargs + a.args + a.kwonlyargs]
        if a.vararg or a.kwarg:
            raise Undecidable("lambda with *args")
        for n in names:
            env[n] = self.fresh()
        c = self.child(env)
        return ("lambda", tuple(env[n] for n in names), c(e.body))

    def _comp(self, kind, e, elts):
        c = self
        gens = []
        for g in e.generators:
            it = c(g.iter)
            env = {}
            c.bind_target(g.target, env)
            c = c.child(env)
            shape = c.target_shape(g.target, env)
            ifs = tuple(c(i) for i in g.ifs)
            gens.append((shape, it, ifs))
        return (kind, tuple(c(x) for x in elts), tuple(gens))

    def c_ListComp(self, e):
        return self._comp("listcomp", e, [e.elt])

    def c_GeneratorExp(self, e):
        return self._comp("genexp", e, [e.elt])

    def c_SetComp(self, e):
        return self._comp("setcomp", e, [e.elt])

    def c_DictComp(self, e):
        return self._comp("dictcomp", e, [e.key, e.value])


# ---------------------------------------------------------------------------


def summarize(fn, env=None, extra_env=None):
    """FunctionDef/Lambda -> (params, [(conditions tuple, result term | ('raise', term))])"""
    a = fn.args
    params = [x.arg for x in a.posonlyargs + a.args + a.kwonlyargs]
    base_env = {p: ("param", i) for i, p in enumerate(params)}
    if a.vararg:
        base_env[a.vararg.arg] = ("param", "*")
    if a.kwarg:
        base_env[a.kwarg.arg] = ("param", "**")
    if extra_env:
        base_env.update(extra_env)
    if isinstance(fn, ast.Lambda):
        return params, [((), Canon(base_env)(fn.body))]
    paths = []
    _paths(list(fn.body), base_env, (), paths, Canon(base_env).counter)
    return params, paths


def _paths(stmts, env, conds, out, counter, budget=[0]):
    env = dict(env)
    for i, st in enumerate(stmts):
        c = Canon(env)
        c.counter = counter
        if isinstance(st, ast.Expr) and isinstance(st.value, ast.Constant):
            continue
        if isinstance(st, ast.Pass):
            continue
        if isinstance(st, (ast.FunctionDef,)):
            # nested helper: bind as a lambda-like term if it is a single return
            try:
                params, ps = summarize(st, extra_env={k: v for k, v in env.items()})
            except Undecidable:
                env[st.name] = ("opaque-func", st.name)
                continue
            env[st.name] = ("func", tuple(params), tuple(ps))
            continue
        if isinstance(st, ast.Assign) and len(st.targets) == 1:
            v = c(st.value)
            _assign(st.targets[0], v, env)
            continue
        if isinstance(st, ast.AnnAssign) and st.value is not None:
            _assign(st.target, c(st.value), env)
            continue
        if isinstance(st, ast.Return):
            out.append((conds, c(st.value) if st.value is not None else const(None)))
            return
        if isinstance(st, ast.Raise):
            out.append((conds, ("raise", c(st.exc) if st.exc is not None else const(None))))
            return
        if isinstance(st, ast.If):
            test = c(st.test)
            rest = stmts[i + 1:]
            _paths(list(st.body) + rest, env, conds + (_cond(test),), out, counter)
            _paths(list(st.orelse) + rest, env, conds + (_neg(test),), out, counter)
            return
        raise Undecidable(f"statement outside the fragment: {norm(st)[:80]}")
    out.append((conds, const(None)))


def _cond(t):
    """a term in condition position: truth(x) and x are the same test"""
    while t[0] == "truth":
        t = t[1]
    return t


def _neg(t):
    t = _cond(t)
    if t[0] == "not":
        return _cond(t[1])
    return ("not", t)


def _assign(target, value, env):
    if isinstance(target, ast.Name):
        env[target.id] = value
        return
    if isinstance(target, (ast.Tuple, ast.List)):
        if value[0] in ("tuple", "list") and len(value[1]) == len(target.elts):
            for t, v in zip(target.elts, value[1]):
                _assign(t, v, env)
            return
        for i, t in enumerate(target.elts):
            if isinstance(t, ast.Starred):
                raise Undecidable("starred unpacking")
            _assign(t, ("sub", value, const(i)), env)
        return
    raise Undecidable(f"assignment target outside the fragment: {norm(target)}")


def summarize_source(src, name=None):
    """parse a specification written as Python source and summarize it"""
    tree = ast.parse(src)
    for st in tree.body:
        if isinstance(st, ast.FunctionDef) and (name is None or st.name == name):
            return summarize(st)
        if isinstance(st, ast.Expr) and isinstance(st.value, ast.Lambda):
            return summarize(st.value)
    raise ValueError("no function in spec source")


def show(t, depth=0):
    """compact rendering of a term for reports"""
    if not isinstance(t, tuple):
        return repr(t)
    if not t:
        return "()"
    k = t[0]
    if not isinstance(k, str):
        return "<" + " ".join(show(x) for x in t) + ">"
    if k == "const":
        return repr(t[2])
    if k == "param":
        return f"${t[1]}"
    if k == "bound":
        return f"v{t[1]}"
    if k == "name":
        return t[1]
    if k == "attr":
        return f"{show(t[1])}.{t[2]}"
    if k == "sub":
        return f"{show(t[1])}[{show(t[2])}]"
    if k == "poly":
        parts = []
        for mono, coeff in t[1]:
            m = "*".join(show(x) for x in mono)
            parts.append(f"{coeff}" if not m else (m if coeff == 1 else f"{coeff}*{m}"))
        return "(" + " + ".join(parts) + ")"
    if k == "call":
        args = [show(a) for a in t[2]] + [f"{n}={show(v)}" for n, v in t[3]]
        return f"{show(t[1])}({', '.join(args)})"
    if k in ("tuple", "list"):
        o, c = ("(", ")") if k == "tuple" else ("[", "]")
        return o + ", ".join(show(x) for x in t[1]) + c
    if k == "cmp":
        return f"({show(t[2])} {t[1]} {show(t[3])})"
    if k in ("not", "truth"):
        return f"{k}({show(t[1])})"
    if k == "binop":
        return f"({show(t[2])} {t[1]} {show(t[3])})"
    if k == "raise":
        return f"raise {show(t[1])}"
    return "(" + k + " " + " ".join(show(x) if isinstance(x, tuple) else repr(x) for x in t[1:]) + ")"


def show_paths(paths):
    out = []
    for conds, res in paths:
        c = " and ".join(show(x) for x in conds) or "always"
        out.append(f"[{c}] -> {show(res)}")
    return "; ".join(out)


def skeleton(t):
    """constructor shape of a term: scalar (arithmetic / variable / constant / subscript) positions
    are holes.  Two terms with equal skeletons that differ do so only inside scalar expressions,
    where the polynomial normal form is complete: a genuine difference."""
    if not isinstance(t, tuple) or not t:
        return "_"
    k = t[0]
    if not isinstance(k, str):
        return tuple(skeleton(x) for x in t)
    if k in ("const", "param", "bound", "name", "poly", "binop", "sub", "attr", "unop"):
        return "_"
    if k == "cmp":
        return ("cmp", t[1], skeleton(t[2]), skeleton(t[3]))
    if k == "call":
        return ("call", t[1] if t[1][0] in ("name", "attr") else skeleton(t[1]), tuple(skeleton(a) for a in t[2]), tuple((n, skeleton(v)) for n, v in t[3]))
    return (k,) + tuple(skeleton(x) if isinstance(x, tuple) else x for x in t[1:])


def _has_bound(t):
    if not isinstance(t, tuple):
        return False
    if t and t[0] == "bound":
        return True
    return any(_has_bound(x) for x in t if isinstance(x, tuple))


def _find_ifexp(t):
    """first conditional expression (pre-order) whose test has no bound variable -> the subterm, else None"""
    if not isinstance(t, tuple) or not t:
        return None
    if t[0] == "ifexp" and not _has_bound(t[1]):
        return t
    if t[0] in ("lambda", "func"):
        return None
    for x in t:
        if isinstance(x, tuple):
            r = _find_ifexp(x)
            if r is not None:
                return r
    return None


def _replace(t, old, new):
    if t is old or t == old:
        return new
    if not isinstance(t, tuple):
        return t
    return tuple(_replace(x, old, new) if isinstance(x, tuple) else x for x in t)


def lift_conditionals(paths, limit=64):
    """conditional expressions inside results become path splits: `x if c else y` and `if c: x else: y` coincide"""
    out = []
    work = list(paths)
    while work and limit > 0:
        conds, res = work.pop(0)
        ie = _find_ifexp(res)
        if ie is None:
            out.append((conds, res))
            continue
        limit -= 1
        work.insert(0, (conds + (_neg(ie[1]),), _replace(res, ie, ie[3])))
        work.insert(0, (conds + (_cond(ie[1]),), _replace(res, ie, ie[2])))
    out.extend(work)
    # drop paths whose conditions contradict each other (c and not c)
    keep = []
    for conds, res in out:
        cs = set(conds)
        if any(_neg(c) in cs for c in cs):
            continue
        # duplicates of one condition are irrelevant
        seen, cc = set(), []
        for c in conds:
            if c not in seen:
                seen.add(c)
                cc.append(c)
        keep.append((tuple(cc), res))
    return keep


def alpha(t):
    """rename bound variables by order of first occurrence (terms equal up to the numbering of their bound variables)"""
    mapping = {}

    def rec(x):
        if not isinstance(x, tuple):
            return x
        if len(x) == 2 and x[0] == "bound":
            if x[1] not in mapping:
                mapping[x[1]] = len(mapping) + 1
            return ("bound", mapping[x[1]])
        return tuple(rec(y) for y in x)
    return rec(t)


def compare_paths(got, want):
    """-> 'equal' | 'different' (same skeleton, different content) | 'incomparable'"""
    if got == want:
        return "equal"
    got, want = lift_conditionals(got), lift_conditionals(want)
    got, want = [alpha(p) for p in got], [alpha(p) for p in want]
    if got == want or sorted(got, key=repr) == sorted(want, key=repr):
        return "equal"
    if len(got) == len(want) and all(skeleton(a) == skeleton(b) for a, b in zip(got, want)):
        return "different"
    return "incomparable"
