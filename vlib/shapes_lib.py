"""typing rules of library functions and methods for the shape interpreter"""

from __future__ import annotations

from collections import OrderedDict

from .core import short
from .shapes import (
    Choice, Const, DictS, Fn, Leaf, ListLit, ListOf, ModuleRef, Obj, Sentinel, SetS, ShapeError, Sh, Top, TupS, _Raise,
)


class StarArgs(Sh):
    """`*xs` where xs is a homogeneous list of symbolic length"""

    def __init__(self, lst):
        self.lst = lst


def seq_elts(I, v, node=None):
    if isinstance(v, (ListLit, TupS, SetS)):
        return list(v.elts)
    return list(I.iterate(v, node))


def type_name(v):
    """python type name of a shape, or None when unknown; Choice -> common name or None"""
    if isinstance(v, DictS):
        return "dict"
    if isinstance(v, (ListLit, ListOf)):
        return getattr(v, "pyname", None) or "list"  # a model list may stand for a list subclass (construct's ListContainer)
    if isinstance(v, TupS):
        return "tuple"
    if isinstance(v, SetS):
        return "set"
    if isinstance(v, Const):
        return type(v.v).__name__
    if isinstance(v, Leaf):
        return {"int": "int", "float": "float", "str": "str", "bytes": "bytes", "bool": "bool", "enum": "str",
                "datetime": "datetime", "complex": "complex", "number": "float"}.get(v.kind)
    if isinstance(v, Obj):
        return v.cls
    if isinstance(v, Fn):
        return "function"
    if isinstance(v, Choice):
        names = {type_name(a) for a in v.alts}
        return names.pop() if len(names) == 1 else None
    return None


def isinstance_rule(I, v, t):
    names = []
    ts = t.elts if isinstance(t, TupS) else [t]
    for x in ts:
        if isinstance(x, Fn) and x.kind == "lib" and x.name.startswith("builtins."):
            names.append(x.name.split(".", 1)[1])
        elif isinstance(x, Fn) and x.kind == "classctor":
            names.append(x.name)
        elif isinstance(x, Fn) and x.kind == "lib":
            names.append(x.name.split(".")[-1])
        else:
            return Top("isinstance against unknown type")
    tn = type_name(v)
    if tn is None:
        if isinstance(v, Choice):
            res = {isinstance_rule(I, a, t).v if isinstance(isinstance_rule(I, a, t), Const) else None for a in v.alts}
            if len(res) == 1 and None not in res:
                return Const(res.pop())
        return Top("isinstance of unknown shape", deps=I.leaves(v))
    if tn == "bool" and "int" in names:
        return Const(True)
    return Const(tn in names or any(b in names for b in getattr(v, "pybases", ())))


def regex_optional_groups(pattern):
    """names of the groups of a compiled pattern that may be None in a match (inside an optional repeat or a branch)"""
    import re._parser as sre
    tree = sre.parse(pattern.pattern, pattern.flags)
    names = {i: n for n, i in pattern.groupindex.items()}
    out = set()

    def walk(seq, optional):
        for op, av in seq:
            op = str(op)
            if op == "SUBPATTERN":
                gid, _, _, sub = av
                if optional and gid in names:
                    out.add(names[gid])
                walk(sub, optional)
            elif op in ("MAX_REPEAT", "MIN_REPEAT", "POSSESSIVE_REPEAT"):
                lo, _, sub = av
                walk(sub, optional or lo == 0)
            elif op == "BRANCH":
                for sub in av[1]:
                    walk(sub, True)
            elif op in ("ASSERT", "ASSERT_NOT"):
                walk(av[1], True)
            elif op == "GROUPREF_EXISTS":
                for sub in av[1:]:
                    if sub is not None:
                        walk(sub, True)
            elif op == "ATOMIC_GROUP":
                walk(av, optional)
    walk(tree, False)
    return out


def regex_match(I, pattern, method, args, node):
    """<compiled regex>.fullmatch/match/search(text): a constant text is matched by the standard library, an unknown
    text gives the match object of the path on which it matches (named groups become scalars derived from the text)"""
    text = args[0] if args else Top("regex without text")
    if isinstance(text, Const) and isinstance(text.v, str):
        m = getattr(pattern, method)(text.v)
        if m is None:
            return Const(None)
        return Obj("Match", {"re": Const(pattern), "groups": DictS(OrderedDict((k, Const(v)) for k, v in m.groupdict().items()))})
    if isinstance(text, Leaf):
        opt = regex_optional_groups(pattern)
        items = OrderedDict()
        for g in pattern.groupindex:
            leaf = Leaf("str", text.src + (g,), text.ops)
            items[g] = Choice([leaf, Const(None)], [f"{g} present", f"{g} absent"]) if g in opt else leaf
        I.assumptions.add("regular expressions: shapes follow the path on which the text matches")
        return Obj("Match", {"re": Const(pattern), "groups": DictS(items), "text": text})
    return Top("regex match on a value of unknown shape", deps=I.leaves(text))


def _dt(attr):
    def get():
        import datetime
        obj = datetime
        for part in attr.split("."):
            obj = getattr(obj, part)
        return obj
    return get


def _dateutil_parse():
    import dateutil.parser
    return dateutil.parser.parse


FOLDABLE_TIME = {
    "datetime.datetime": _dt("datetime"), "datetime.timedelta": _dt("timedelta"), "datetime.date": _dt("date"), "datetime.time": _dt("time"),
    "datetime.datetime.strptime": _dt("datetime.strptime"), "datetime.datetime.combine": _dt("datetime.combine"),
    "datetime.datetime.fromisoformat": _dt("datetime.fromisoformat"), "datetime.date.fromisoformat": _dt("date.fromisoformat"),
    "dateutil.parser.parse": _dateutil_parse,
}


def to_shape_const(v):
    """python value -> shape (lists / tuples become literal shapes so that they can be unpacked and iterated)"""
    if isinstance(v, list):
        return ListLit([to_shape_const(x) for x in v])
    if isinstance(v, tuple):
        return TupS([to_shape_const(x) for x in v])
    return Const(v)


def call_lib(I, name, args, kwargs, node):
    a = args
    if name in ("hashlib.new", "hashlib.sha256", "hashlib.sha1", "hashlib.md5", "hashlib.sha512", "hashlib.blake2b"):
        # digests of constants are folded with the standard library (trusted); anything else is unknown
        import hashlib
        try:
            if name == "hashlib.new":
                h = hashlib.new(a[0].v, *[x.v for x in a[1:]]) if a and all(isinstance(x, Const) for x in a) else None
            else:
                h = getattr(hashlib, name.split(".")[1])(*[x.v for x in a]) if all(isinstance(x, Const) for x in a) else None
        except Exception as e:
            raise _Raise.of(e, name)
        if h is None:
            return Top(f"{name} of non-constant arguments")
        state = {"known": True}

        def upd(I_, args, kw):
            if args and isinstance(args[0], Const) and isinstance(args[0].v, (bytes, bytearray)):
                h.update(args[0].v)
            else:
                state["known"] = False
            return Const(None)

        def hexd(I_, args, kw):
            return Const(h.hexdigest()) if state["known"] else Top("digest of unknown data")

        def dig(I_, args, kw):
            return Const(h.digest()) if state["known"] else Top("digest of unknown data")
        return Obj("Hash", OrderedDict(update=Fn("py", impl=upd, name="update"), hexdigest=Fn("py", impl=hexd, name="hexdigest"), digest=Fn("py", impl=dig, name="digest")))
    if name == "itertools.product":
        import itertools
        rep = kwargs.get("repeat", Const(1))
        if not (isinstance(rep, Const) and isinstance(rep.v, int)):
            return Top("itertools.product with unknown repeat")
        pools = [I.iterate(x, node) for x in a] * rep.v
        if sum(len(p_) for p_ in pools) > 4000:
            return Top("itertools.product too large to unfold")
        return ListLit([TupS(list(t)) for t in itertools.product(*pools)])
    if name == "itertools.islice" and a and all(isinstance(x, Const) and (x.v is None or isinstance(x.v, int)) for x in a[1:]) and 2 <= len(a) <= 4:
        # lazily: only what the slice needs is pulled from an explicit iterator
        import itertools as _it
        sl = [x.v for x in a[1:]]
        try:
            return ListLit(list(_it.islice(iter(I.iterate(a[0], node)), *sl)))
        except ValueError as e:
            raise _Raise.of(e, name)
    if name in ("itertools.chain", "itertools.chain.from_iterable"):
        seqs = a if name == "itertools.chain" else I.iterate(a[0], node)
        return ListLit([x for s_ in seqs for x in I.iterate(s_, node)])
    if name == "itertools.pairwise":
        seq = a[0] if a else None
        if len(a) == 1 and not kwargs and isinstance(seq, (ListLit, TupS)):
            out = ListLit([TupS([x, y]) for x, y in zip(seq.elts, seq.elts[1:])])
            out.pyname = "generator"
            return out
        return Top("itertools.pairwise of a sequence of unknown length", deps=I.leaves(seq) if seq is not None else ())
    if name == "itertools.accumulate":
        seq = a[0] if a else None
        if isinstance(seq, (ListLit, TupS)) and all(isinstance(x, Const) and isinstance(x.v, (int, float)) for x in seq.elts) and len(a) == 1 \
                and set(kwargs) <= {"initial"} and all(isinstance(v, Const) for v in kwargs.values()):
            import itertools
            init = kwargs["initial"].v if "initial" in kwargs else None
            return ListLit([Const(v) for v in itertools.accumulate([x.v for x in seq.elts], initial=init)])
        return Top("itertools.accumulate of a non-constant sequence", deps=I.leaves(seq) if seq is not None else ())
    if name in ("re.split", "re.sub", "re.subn", "re.findall", "re.escape") and all(isinstance(x, Const) for x in list(a) + list(kwargs.values())):
        import re
        try:
            out = getattr(re, name.split(".")[1])(*[x.v for x in a], **{k: v.v for k, v in kwargs.items()})
        except Exception as e:
            raise _Raise.of(e, name)
        return to_shape_const(out)
    if name in ("re.match", "re.fullmatch", "re.search") and a and isinstance(a[0], Const) and isinstance(a[0].v, str):
        import re
        try:
            pat = re.compile(a[0].v, *[x.v for x in a[2:] if isinstance(x, Const)])
        except re.error as e:
            raise _Raise.of(e, name)
        return regex_match(I, pat, name.split(".")[1], list(a[1:2]), node)
    if name == "re.compile":
        import re
        if a and isinstance(a[0], Const) and isinstance(a[0].v, str) and all(isinstance(x, Const) for x in list(a[1:]) + list(kwargs.values())):
            try:
                return Const(re.compile(a[0].v, *[x.v for x in a[1:]], **{k: v.v for k, v in kwargs.items()}))
            except re.error as e:
                raise _Raise(f"re.error {e}")
        return Top("re.compile of a non-literal pattern")
    if name.endswith((".ThreadPoolExecutor", ".ProcessPoolExecutor")) and name.startswith("concurrent."):
        # a pool: submitted calls run (here: at once), their futures complete in an order the program does not control
        pool = Obj("Executor", OrderedDict())

        def future_of(fn):
            box = {}

            def result(I_, a_, kw_):
                if "v" not in box:
                    try:
                        box["v"] = ("ok", fn())
                    except _Raise as e:
                        box["v"] = ("raise", e)
                if box["v"][0] == "raise":
                    raise box["v"][1]
                return box["v"][1]
            fut = Obj("Future", OrderedDict())
            fut.fields["result"] = Fn("py", impl=result, name="Future.result")
            fut.fields["exception"] = Fn("py", impl=lambda I_, a_, kw_: Const(None), name="Future.exception")
            return fut

        def submit(I_, a_, kw_):
            f_, rest = a_[0], list(a_[1:])
            fut = future_of(lambda: I_.call(f_, rest, kw_, node))
            fut.fields["result"].impl(I_, [], {}) if False else None
            return fut

        def pmap(I_, a_, kw_):
            # Executor.map submits every call at once and hands back an iterator over the results in submission order: an exception of
            # a call is raised when the iteration reaches its result - never, if nobody iterates
            seqs = [seq_elts(I_, x, node) for x in a_[1:]]
            outcomes = []
            for args_ in zip(*seqs):
                try:
                    outcomes.append(("ok", I_.call(a_[0], list(args_), {}, node)))
                except _Raise as e:
                    outcomes.append(("raise", e))

            def results(I2, a2, kw2):
                for kind, v in outcomes:
                    if kind == "raise":
                        raise v
                out = ListLit([v for _, v in outcomes])
                out.pyname = "generator"
                return out
            it = Obj("MapResults", OrderedDict())
            it.fields["__iter__"] = Fn("py", impl=results, name="__iter__")
            return it
        pool.fields.update(submit=Fn("py", impl=submit, name="Executor.submit"), map=Fn("py", impl=pmap, name="Executor.map"),
                           shutdown=Fn("py", impl=lambda I_, a_, kw_: Const(None), name="Executor.shutdown"))
        pool.fields["__enter__"] = Fn("py", impl=lambda I_, a_, kw_: pool, name="__enter__")
        pool.fields["__exit__"] = Fn("py", impl=lambda I_, a_, kw_: Const(None), name="__exit__")
        return pool
    if name in ("concurrent.futures.as_completed", "concurrent.futures._base.as_completed") and a:
        # completion order is up to the scheduler: the model hands the futures back in the reverse of the submission order, so a
        # program that relies on completion order = submission order is seen to differ
        return ListLit(list(reversed(seq_elts(I, a[0], node))))
    if name in ("concurrent.futures.wait",) and a:
        return TupS([SetS(seq_elts(I, a[0], node)), SetS([])])
    if name in ("operator.itemgetter", "itemgetter") and a and not kwargs:
        keys = list(a)

        def getter(I_, a_, kw_, keys=keys):
            vals = [I_.getitem(a_[0], k, node) for k in keys]
            return vals[0] if len(vals) == 1 else TupS(vals)
        return Fn("py", impl=getter, name="itemgetter")
    if name in ("operator.attrgetter", "attrgetter") and a and not kwargs and all(isinstance(x, Const) and isinstance(x.v, str) for x in a):
        names = [x.v for x in a]

        def agetter(I_, a_, kw_, names=names):
            vals = []
            for nm in names:
                v = a_[0]
                for part in nm.split("."):
                    v = I_.getattr(v, part, node)
                vals.append(v)
            return vals[0] if len(vals) == 1 else TupS(vals)
        return Fn("py", impl=agetter, name="attrgetter")
    if name in ("os.environ.get", "os.getenv") and getattr(I, "environ", None) is not None and a and isinstance(a[0], Const):
        # the process environment as the evaluation is told to see it: nothing set / every variable the package asks for set
        I.environ_reads.append(a[0].v)
        if I.environ == "unset":
            return a[1] if len(a) > 1 else kwargs.get("default", Const(None))
        return Const(I.environ)
    if name in ("functools.lru_cache", "functools.cache"):
        # within one evaluation a memoised function gives what the function gives (what a memo keeps BETWEEN opens is C10-W3's business)
        if a and I.is_callable(a[0]) and not kwargs:
            return a[0]
        if name == "functools.lru_cache":
            return Fn("lib", name="identity")
        return Top("functools.cache()")
    if name == "curry" or name.endswith(".partial"):
        if not a:
            return Top("curry()")
        return Fn("partial", fn=a[0], args=a[1:], kwargs=OrderedDict(kwargs), name="curry")
    if name == "pipe":
        v = a[0]
        for f in a[1:]:
            v = I.call(f, [v], {}, node)
        return v
    if name in ("compose_left",):
        return Fn("compose", fns=list(a), name="compose_left")
    if name == "compose":
        return Fn("compose", fns=list(reversed(a)), name="compose")
    if name in ("copy.copy", "copy.deepcopy") and len(a) == 1:
        deep = name == "copy.deepcopy"
        memo = {}

        def cp(v, top):
            # containers and objects are new (their members too when deep); constants, leaves and functions are shared
            if not (top or deep):
                return v
            if id(v) in memo:
                return memo[id(v)]
            if isinstance(v, DictS):
                new = DictS(OrderedDict(), set(v.optional))
                memo[id(v)] = new
                for k_, x in v.items.items():
                    new.items[k_] = cp(x, False)
                if getattr(v, "table", None) is not None:
                    new.table = v.table
                return new
            if isinstance(v, (ListLit, TupS, SetS)):
                new = type(v)([])
                memo[id(v)] = new
                new.elts.extend(cp(x, False) for x in v.elts)
                return new
            if isinstance(v, Obj) and v.cls not in ("iterator", "File", "Lock") and not any(isinstance(f_, Fn) and f_.kind == "py" for f_ in v.fields.values()):
                new = Obj(v.cls, OrderedDict(), klass=getattr(v, "klass", None))
                memo[id(v)] = new
                for k_, x in v.fields.items():
                    new.fields[k_] = cp(x, False)
                return new
            return v
        return cp(a[0], True)
    if name == "identity":
        return a[0]
    if name == "valmap":
        return map_dict(I, a[1], lambda k, v: (k, I.call(a[0], [v], {}, node)), node)
    if name == "keymap":
        def km(k, v):
            nk = I.call(a[0], [Const(k)], {}, node)
            if not isinstance(nk, Const) and to_py(nk) is not _NOPY:
                nk = Const(to_py(nk))
            if not isinstance(nk, Const):
                raise ShapeError(f"keymap produced a non-constant key for {k!r}")
            return nk.v, v
        return map_dict(I, a[1], km, node, track_collisions=True)
    if name == "itemmap":
        def im(k, v):
            r = I.call(a[0], [TupS([Const(k), v])], {}, node)
            if isinstance(r, TupS) and isinstance(r.elts[0], Const):
                return r.elts[0].v, r.elts[1]
            raise ShapeError("itemmap result")
        return map_dict(I, a[1], im, node)
    if name in ("keyfilter", "valfilter", "itemfilter"):
        return filter_dict(I, name, a[0], a[1], node)
    if name == "merge_with":
        return merge_with(I, a[0], a[1:], node)
    if name == "merge":
        ds = a
        if len(a) == 1 and isinstance(a[0], (ListLit, TupS)):
            ds = a[0].elts
        out = DictS()
        for d in ds:
            if isinstance(d, StarArgs):
                return Top("merge of a symbolic number of dicts")
            if not isinstance(d, DictS):
                return Top("merge of non-dict")
            out = I.dict_union(out, d)
        return out
    if name in ("first", "second", "last"):
        idx = {"first": 0, "second": 1, "last": -1}[name]
        v = a[0]
        if isinstance(v, Choice):
            return Choice([call_lib(I, name, [x], kwargs, node) for x in v.alts])
        if isinstance(v, ListOf):
            return v.elem
        els = seq_elts(I, v, node)
        try:
            return els[idx]
        except IndexError:
            raise _Raise("first() of empty")
    if name == "nth":
        return seq_elts(I, a[1], node)[a[0].v]
    if name == "get":
        ind, seq = a[0], a[1]
        default = a[2] if len(a) > 2 else kwargs.get("default")
        if isinstance(ind, (ListLit, TupS)):
            return TupS([get_one(I, x, seq, default, node) for x in ind.elts])
        return get_one(I, ind, seq, default, node)
    if name == "cons":
        if isinstance(a[1], ListOf):
            return Top("cons onto symbolic list")
        return ListLit([a[0]] + seq_elts(I, a[1], node))
    if name == "concat":
        out = []
        for s in seq_elts(I, a[0], node):
            out.extend(seq_elts(I, s, node))
        return ListLit(out)
    if name == "unique":
        seen, out = [], []
        for x in seq_elts(I, a[0], node):
            key = x.v if isinstance(x, Const) else id(x)
            if key not in seen:
                seen.append(key)
                out.append(x)
        return ListLit(out)
    if name == "groupby":
        keyf, seq = a[0], a[1]
        out = DictS()
        for item in seq_elts(I, seq, node):
            k = I.call(keyf, [item], {}, node) if I.is_callable(keyf) else I.getitem(item, keyf, node)
            if isinstance(k, Const):
                out.items.setdefault(k.v, ListLit([])).elts.append(item)
            else:
                raise ShapeError(f"groupby key undecidable for {item!r}: {k!r}")
        return out
    if name in ("partition", "partition_all"):
        n = a[0].v
        els = seq_elts(I, a[1], node)
        chunks = [TupS(els[i:i + n]) for i in range(0, len(els), n)]
        if name == "partition":
            chunks = [c for c in chunks if len(c.elts) == n]
        return ListLit(chunks)
    if name == "remove":
        out = []
        for x in seq_elts(I, a[1], node):
            t = I.truth(I.call(a[0], [x], {}, node))
            if t is None:
                raise ShapeError("remove() predicate undecidable")
            if not t:
                out.append(x)
        return ListLit(out)
    if name == "assoc":
        d, k, v = a
        if isinstance(d, DictS) and isinstance(k, Const):
            n = d.copy()
            n.items[k.v] = v
            n.optional.discard(k.v)
            return n
        return Top("assoc")
    if name == "dissoc":
        d = a[0]
        if isinstance(d, DictS):
            n = d.copy()
            for k in a[1:]:
                if isinstance(k, Const):
                    if k.v not in n.items:
                        I.note("dangling-key", short(node, 60), f"dissoc of missing key {k.v!r}")
                    n.items.pop(k.v, None)
                    n.optional.discard(k.v)
            return n
        return Top("dissoc")
    if name == "assoc_in":
        d, keys, v = a
        ks = [k.v for k in seq_elts(I, keys, node)]
        return assoc_in(d, ks, v)
    if name == "get_in":
        keys, coll = a[0], a[1]
        default = a[2] if len(a) > 2 else kwargs.get("default", Const(None))
        cur = coll
        for k in seq_elts(I, keys, node):
            if isinstance(cur, DictS) and isinstance(k, Const) and k.v in cur.items:
                if k.v in cur.optional:
                    return Choice([cur.items[k.v], default])
                cur = cur.items[k.v]
            elif isinstance(cur, DictS):
                return default
            else:
                return Top("get_in through non-dict")
        return cur
    if name in ("itertools.groupby",):
        seq = seq_elts(I, a[0], node)
        keyf = a[1] if len(a) > 1 else kwargs.get("key")
        out = []
        for item in seq:
            k = I.call(keyf, [item], {}, node) if keyf is not None else item
            if not isinstance(k, Const):
                raise ShapeError("itertools.groupby key undecidable")
            if out and out[-1][0].v == k.v:
                out[-1][1].elts.append(item)
            else:
                out.append((k, ListLit([item])))
        return ListLit([TupS([k, grp]) for k, grp in out])
    if name == "operator.or_":
        return I.dict_union(a[0], a[1])
    if name.startswith("operator.") and len(a) == 2 and name.split(".")[1] in ("eq", "ne", "lt", "le", "gt", "ge", "is_", "is_not", "contains"):
        import ast as _ast
        fn_ = name.split(".")[1]
        if fn_ == "contains":
            return I.compare(_ast.In(), a[1], a[0])
        opc = {"eq": _ast.Eq, "ne": _ast.NotEq, "lt": _ast.Lt, "le": _ast.LtE, "gt": _ast.Gt, "ge": _ast.GtE, "is_": _ast.Is, "is_not": _ast.IsNot}[fn_]
        return I.compare(opc(), a[0], a[1])
    if name in ("operator.not_", "operator.truth") and len(a) == 1:
        t = I.truth(a[0])
        return Top("truth unknown") if t is None else Const((not t) if name.endswith("not_") else t)
    if name == "operator.getitem" and len(a) == 2:
        return I.getitem(a[0], a[1], node)
    if name.startswith("builtins."):
        return builtin(I, name.split(".", 1)[1], a, kwargs, node)
    # numpy / datetime / math: value-level -> keep provenance only
    if name.startswith("numpy."):
        fn = name.split(".", 1)[1]
        if fn in ("asarray", "array", "asanyarray") and a:
            dt = kwargs.get("dtype") or (a[1] if len(a) > 1 else None)
            tag = f"np.{fn}[{dt.v if isinstance(dt, Const) else '?'}]" if dt is not None else f"np.{fn}"
            return tag_leaves(I, a[0], tag)
        return Top(f"{name}(...)", deps=[l for x in a for l in I.leaves(x)])
    if (name.startswith("datetime.") or name.startswith("dateutil.")) and name in FOLDABLE_TIME and a is not None \
            and all(isinstance(x, Const) for x in a) and all(isinstance(x, Const) for x in kwargs.values()) and (a or kwargs):
        # pure date/time constructors and parsers on constants: folded by the library itself (trusted), never the package
        try:
            return Const(FOLDABLE_TIME[name]()(*[x.v for x in a], **{k: v.v for k, v in kwargs.items()}))
        except Exception as e:
            raise _Raise.of(e, name)
    if name.startswith("datetime.") or name.startswith("dateutil."):
        lv = [l for x in a for l in I.leaves(x)]
        if len(lv) >= 1 and all(l.src == lv[0].src for l in lv):
            fmt = [x.v for x in a if isinstance(x, Const)]
            return lv[0].derive(name.split(".")[-1] + (f"[{fmt[0]}]" if fmt else ""), "datetime")
        lv = [l for x in list(a) + list(kwargs.values()) for l in I.leaves(x)]
        if name.endswith("timedelta") and lv:
            return lv[0].derive("timedelta[" + ",".join(kwargs) + "]", "timedelta")
        return Top(f"{name}(...)", deps=lv)
    if name.startswith("math.") and a and all(isinstance(x, Const) and isinstance(x.v, (int, float)) and not isinstance(x.v, bool) for x in a) and not kwargs:
        import math as _math
        fn = getattr(_math, name.split(".", 1)[1], None)
        if callable(fn):
            try:
                return Const(fn(*[x.v for x in a]))
            except Exception as e:
                raise _Raise.of(e, name)
    if name.startswith("math."):
        return Top(f"{name}(...)", deps=[l for x in a for l in I.leaves(x)])
    if name in PURE_STDLIB and all(isinstance(x, Const) for x in a) and all(isinstance(x, Const) for x in kwargs.values()):
        # side-effect free standard-library function on constants: folded (the standard library is trusted, the package is not run)
        try:
            return Const(PURE_STDLIB[name](*[x.v for x in a], **{k: v.v for k, v in kwargs.items()}))
        except Exception as e:
            raise _Raise.of(e, name)
    return Top(f"library call {name}", deps=[l for x in a for l in I.leaves(x)])


def _pure_stdlib():
    import os.path
    import pathlib
    import posixpath
    out = {}
    for modname, mod in (("posixpath", posixpath), ("os.path", os.path)):
        for fn in ("basename", "dirname", "split", "splitext", "join", "normpath"):
            out[f"{modname}.{fn}"] = getattr(posixpath, fn)
    out["os.fspath"] = os.fspath
    import urllib.parse
    for fn in ("urlsplit", "urlparse", "urlunsplit", "urlunparse", "unquote", "quote", "urljoin", "urldefrag"):
        out[f"urllib.parse.{fn}"] = getattr(urllib.parse, fn)
    for cls in ("PurePosixPath", "PurePath", "Path", "PosixPath"):
        out[f"pathlib.{cls}"] = pathlib.PurePosixPath
    import bz2
    import gzip
    import lzma
    import zlib
    for modname, mod in (("gzip", gzip), ("zlib", zlib), ("bz2", bz2), ("lzma", lzma)):
        for fn in ("compress", "decompress"):
            out[f"{modname}.{fn}"] = getattr(mod, fn)
    import decimal
    import fractions
    out["fractions.Fraction"] = fractions.Fraction
    out["decimal.Decimal"] = decimal.Decimal
    return out


PURE_STDLIB = _pure_stdlib()


def tag_leaves(I, v, tag):
    if isinstance(v, Leaf):
        return v.derive(tag)
    if isinstance(v, ListOf):
        return ListOf(tag_leaves(I, v.elem, tag), v.n)
    if isinstance(v, ListLit):
        return ListLit([tag_leaves(I, x, tag) for x in v.elts])
    if isinstance(v, Choice):
        return Choice([tag_leaves(I, x, tag) for x in v.alts], v.labels)
    if isinstance(v, DictS):
        d = DictS(OrderedDict((k, tag_leaves(I, x, tag)) for k, x in v.items.items()), v.optional)
        if getattr(v, "table", None) is not None:
            d.table = v.table
        return d
    if isinstance(v, TupS):
        return TupS([tag_leaves(I, x, tag) for x in v.elts])
    return v


def assoc_in(d, ks, v):
    if not isinstance(d, DictS):
        d = DictS()
    n = d.copy()
    if len(ks) == 1:
        n.items[ks[0]] = v
        n.optional.discard(ks[0])
        return n
    n.items[ks[0]] = assoc_in(n.items.get(ks[0], DictS()), ks[1:], v)
    return n


def get_one(I, ind, seq, default, node):
    if isinstance(seq, Choice):
        return Choice([get_one(I, ind, s, default, node) for s in seq.alts])
    if isinstance(ind, Const):
        if isinstance(seq, DictS):
            if ind.v in seq.items:
                return seq.items[ind.v]
            if default is not None:
                return default
            I.note("missing-key", short(node, 60) if node is not None else "", f"get({ind.v!r}) not in {list(seq.items)[:8]}")
            raise _Raise(f"KeyError {ind.v!r}", ["KeyError", "LookupError", "Exception", "BaseException", "object"])
        return I.getitem(seq, ind, node)
    if isinstance(ind, Leaf) and isinstance(seq, DictS):
        alts = list(seq.items.values())
        labels = [f"key=={kk!r}" for kk in seq.items]
        if default is not None:
            alts.append(default)
            labels.append("key not in table")
        return Choice(alts, labels)
    return Top("get with unknown index")


def map_dict(I, d, f, node, track_collisions=False):
    if isinstance(d, Choice):
        return Choice([map_dict(I, x, f, node, track_collisions) for x in d.alts], d.labels)
    if not isinstance(d, DictS):
        if isinstance(d, Top):
            return d
        raise ShapeError(f"dict operation on {d!r} ({short(node, 50) if node is not None else ''})")
    out = DictS()
    for k, v in d.items.items():
        nk, nv = f(k, v)
        if track_collisions and nk in out.items:
            I.note("key-collision", short(node, 60) if node is not None else "", f"two keys map to {nk!r}")
        out.items[nk] = nv
        if k in d.optional:
            out.optional.add(nk)
    return out


def filter_dict(I, name, pred, d, node):
    if isinstance(d, Choice):
        return Choice([filter_dict(I, name, pred, x, node) for x in d.alts], d.labels)
    if not isinstance(d, DictS):
        if isinstance(d, Top):
            return d
        raise ShapeError(f"{name} on {d!r}")
    out = DictS()
    for k, v in d.items.items():
        arg = Const(k) if name == "keyfilter" else v if name == "valfilter" else TupS([Const(k), v])
        t = I.truth(I.call(pred, [arg], {}, node))
        if t is False:
            continue
        out.items[k] = v
        if k in d.optional or t is None:
            out.optional.add(k)
    return out


def merge_with(I, fn, dicts, node):
    is_list = isinstance(fn, Fn) and fn.kind == "lib" and fn.name == "builtins.list"
    if len(dicts) == 1 and isinstance(dicts[0], StarArgs):
        lst = dicts[0].lst
        if not isinstance(lst.elem, DictS):
            if isinstance(lst.elem, Top):
                return lst.elem
            raise ShapeError(f"merge_with over a list of {lst.elem!r}")
        if not is_list:
            return Top("merge_with(<func>) over symbolic list")
        return DictS(OrderedDict((k, ListOf(v, lst.n)) for k, v in lst.elem.items.items()), lst.elem.optional)
    if len(dicts) == 1 and isinstance(dicts[0], (ListLit, TupS)):
        dicts = dicts[0].elts
    keys = OrderedDict()
    for d in dicts:
        if not isinstance(d, DictS):
            if isinstance(d, Top):
                return d
            raise ShapeError(f"merge_with over {d!r}")
        for k, v in d.items.items():
            keys.setdefault(k, []).append(v)
    out = DictS()
    for k, vs in keys.items():
        out.items[k] = ListLit(vs) if is_list else I.call(fn, [ListLit(vs)], {}, node)
    return out


def install_buffer_model(I, trace=None):
    """bytearray / memoryview / bytes over modelled buffers: only sizes are tracked (Obj 'Buffer' / 'BufferView')"""
    def size_of(v):
        if isinstance(v, Obj) and v.cls in ("Buffer", "BufferView"):
            return v.fields["size"].v
        if isinstance(v, Const) and isinstance(v.v, (bytes, bytearray)):
            return len(v.v)
        return None

    def mk_bytearray(I_, a, kw):
        if not a:
            n = 0
        elif isinstance(a[0], Const) and isinstance(a[0].v, int):
            n = a[0].v
        elif size_of(a[0]) is not None:
            n = size_of(a[0])
        else:
            raise ShapeError(f"bytearray({a[0]!r})")
        if trace is not None:
            trace.allocations.append(n)
        return Obj("Buffer", OrderedDict(size=Const(n), filled=Const(0)))

    def mk_view(I_, a, kw):
        n = size_of(a[0]) if a else None
        if n is None:
            raise ShapeError("memoryview of an unmodelled object")
        base = a[0].fields.get("base", a[0]) if isinstance(a[0], Obj) else a[0]
        return Obj("BufferView", OrderedDict(size=Const(n), base=base))

    def mk_bytes(I_, a, kw):
        if not a:
            return Const(b"")
        n = size_of(a[0])
        if n is not None and n <= 10**8:
            return Const(bytes(n))
        if isinstance(a[0], Const) and isinstance(a[0].v, int) and a[0].v <= 10**8:
            return Const(bytes(a[0].v))
        raise ShapeError(f"bytes({a[0]!r})")

    def mk_len(I_, a, kw):
        n = size_of(a[0]) if a else None
        if n is not None and isinstance(a[0], Obj):
            return Const(n)
        return builtin(I_, "len", a, kw, None, _no_override=True)
    I.builtin_overrides = {"bytearray": mk_bytearray, "memoryview": mk_view, "bytes": mk_bytes, "len": mk_len}


def builtin(I, name, a, kwargs, node, _no_override=False):
    ov = getattr(I, "builtin_overrides", None)
    if ov and name in ov and not _no_override:
        return ov[name](I, a, kwargs)
    if name in ("dict.fromkeys", "OrderedDict.fromkeys") and a:
        default = a[1] if len(a) > 1 else Const(None)
        keys = seq_elts(I, a[0], node)
        if not all(isinstance(k, Const) for k in keys):
            raise ShapeError("dict.fromkeys over keys that are not constants")
        return DictS(OrderedDict((k.v, default) for k in keys))
    if name.startswith(("str.", "dict.", "list.", "bytes.")) and a:
        # unbound method used as a function: str.lower(x) == x.lower()
        return call_method(I, a[0], name.split(".", 1)[1], list(a[1:]), kwargs, node)
    if name == "isinstance":
        return isinstance_rule(I, a[0], a[1])
    if name == "dict":
        if not a:
            return DictS(OrderedDict(kwargs))
        v = a[0]
        if isinstance(v, DictS):
            return v.copy()
        if isinstance(v, Choice):
            return Choice([builtin(I, name, [x], kwargs, node) for x in v.alts])
        out = DictS()
        for item in seq_elts(I, v, node):
            if isinstance(item, (TupS, ListLit)) and len(item.elts) == 2 and isinstance(item.elts[0], Const):
                if item.elts[0].v in out.items:
                    I.note("key-collision", short(node, 60) if node is not None else "", f"two entries share the key {item.elts[0].v!r}")
                out.items[item.elts[0].v] = item.elts[1]
            else:
                return Top("dict() of non-pairs")
        return out
    if name in ("list", "tuple"):
        if not a:
            return ListLit([]) if name == "list" else TupS([])
        v = a[0]
        if isinstance(v, ListOf):
            return v
        if isinstance(v, Choice):
            return Choice([builtin(I, name, [x], kwargs, node) for x in v.alts])
        if isinstance(v, Top):
            return v
        els = seq_elts(I, v, node)
        return ListLit(els) if name == "list" else TupS(els)
    if name in ("set", "frozenset"):
        if not a:
            return SetS([])
        elts, seen = [], set()
        for x in seq_elts(I, a[0], node):
            if isinstance(x, Const):
                try:
                    if x.v in seen:
                        continue
                    seen.add(x.v)
                except TypeError:
                    pass
            elts.append(x)
        return SetS(elts)
    if name == "map":
        f, seq = a[0], a[1]
        if isinstance(seq, ListOf):
            return ListOf(I.call(f, [seq.elem], {}, node), seq.n, seq.maybe_empty)
        if isinstance(seq, Choice):
            return Choice([builtin(I, name, [f, x], kwargs, node) for x in seq.alts])
        return ListLit([I.call(f, [x], {}, node) for x in seq_elts(I, seq, node)])
    if name == "filter":
        out = []
        for x in seq_elts(I, a[1], node):
            t = I.truth(I.call(a[0], [x], {}, node)) if not (isinstance(a[0], Const) and a[0].v is None) else I.truth(x)
            if t is None:
                raise ShapeError("filter predicate undecidable")
            if t:
                out.append(x)
        return ListLit(out)
    if name == "zip":
        if len(a) == 1 and isinstance(a[0], StarArgs):
            el = a[0].lst.elem
            if isinstance(el, (TupS, ListLit)):
                return ListLit([ListOf(x, a[0].lst.n) for x in el.elts])
            return Top("zip(*symbolic list)")
        if any(isinstance(x, ListOf) for x in a):
            ns = [x.n for x in a if isinstance(x, ListOf)]
            return ListOf(TupS([x.elem if isinstance(x, ListOf) else Top("zip mix") for x in a]), ns[0])
        if any(isinstance(x, Obj) and x.cls == "iterator" for x in a):
            # an explicit iterator among the arguments: zip pulls one element from each argument in turn and stops at the first
            # that is exhausted - what it did not pull stays in the iterator for whoever reads it next
            its = [iter(I.iterate(x, node)) for x in a]
            rows = []
            while True:
                row = []
                for it in its:
                    try:
                        row.append(next(it))
                    except StopIteration:
                        row = None
                        break
                if row is None:
                    break
                rows.append(TupS(row))
            return ListLit(rows)
        seqs = [seq_elts(I, x, node) for x in a]
        n = min(len(s) for s in seqs) if seqs else 0
        return ListLit([TupS([s[i] for s in seqs]) for i in range(n)])
    if name == "enumerate":
        if isinstance(a[0], ListOf):
            return ListOf(TupS([Leaf("int", ("<index>",)), a[0].elem]), a[0].n)
        return ListLit([TupS([Const(i), x]) for i, x in enumerate(seq_elts(I, a[0], node))])
    if name == "len":
        v = a[0]
        if isinstance(v, (ListLit, TupS, SetS)):
            return Const(len(v.elts))
        if isinstance(v, DictS) and not v.optional:
            return Const(len(v.items))
        if isinstance(v, Const):
            return Const(len(v.v))
        if isinstance(v, Choice):
            ls = {builtin(I, name, [x], kwargs, node).v if isinstance(builtin(I, name, [x], kwargs, node), Const) else None for x in v.alts}
            if len(ls) == 1 and None not in ls:
                return Const(ls.pop())
        return Top("len of symbolic")
    if name in ("str", "repr", "format") and a and isinstance(a[0], Obj) and any(m_ in a[0].fields for m_ in ("__str__", "__fspath__")):
        return I.call(a[0].fields.get("__str__") or a[0].fields["__fspath__"], [], {}, node)  # a model object that knows its text (a model path)
    if name in ("bool", "int", "float", "str", "abs", "round"):
        v = a[0] if a else Const({"bool": False, "int": 0, "float": 0.0, "str": ""}.get(name))
        if isinstance(v, Const):
            try:
                return Const({"bool": bool, "int": int, "float": float, "str": str, "abs": abs, "round": round}[name](v.v))
            except Exception:
                raise _Raise(f"{name}({v.v!r})")
        if isinstance(v, Leaf):
            return v.derive(name, {"bool": "bool", "int": "int", "float": "float", "str": "str"}.get(name, v.kind))
        if isinstance(v, Choice):
            return Choice([builtin(I, name, [x], kwargs, node) for x in v.alts])
        if name == "bool":
            t = I.truth(v)
            if t is not None:
                return Const(t)
        return Top(f"{name}(...)", deps=I.leaves(v))
    if name == "divmod" and len(a) == 2:
        lv = I.leaves(a[0])
        if isinstance(a[0], Const) and isinstance(a[1], Const):
            q, r = divmod(a[0].v, a[1].v)
            return TupS([Const(q), Const(r)])
        if lv:
            return TupS([lv[0].derive("divmod[0]", "number"), lv[0].derive("divmod[1]", "number")])
    if name in ("sorted", "reversed"):
        v = a[0]
        if isinstance(v, Obj) and "__sorted__" in v.fields:
            return I.call(v.fields["__sorted__"], [Const(name)], kwargs, node)
        if not isinstance(v, (SetS, DictS, ListLit, TupS, ListOf, Const, Choice, Top, Leaf)):
            try:
                v = ListLit(list(I.iterate(v, node)))  # dict views, iterators ...
            except ShapeError:
                pass
        if isinstance(v, Const) and isinstance(v.v, (list, tuple, range, str)):
            v = ListLit([Const(x) for x in v.v])
        if isinstance(v, SetS):
            if name == "reversed":
                raise _Raise("TypeError: 'set' object is not reversible", ["TypeError", "Exception", "BaseException", "object"])
            v = ListLit(list(v.elts))
        if isinstance(v, DictS):
            v = ListLit([Const(k) for k in v.items])
        if name == "sorted" and isinstance(v, ListLit) and all(isinstance(x, Const) for x in v.elts) and not kwargs:
            return ListLit(sorted(v.elts, key=lambda c: c.v))
        if name == "reversed" and isinstance(v, (ListLit, TupS)):
            return ListLit(list(reversed(v.elts)))
        if isinstance(v, ListOf):
            # the elements of a symbolic list (one per record / line) change places: order is part of the value
            return tag_leaves(I, v, "reordered:" + name + ("[" + ",".join(sorted(kwargs)) + "]" if kwargs else ""))
        if isinstance(v, (ListLit, TupS)) and name == "sorted":
            keyf = kwargs.get("key")
            rev = kwargs.get("reverse", Const(False))
            keys = [to_py(I.call(keyf, [x], {}, node)) if keyf is not None else to_py(x) for x in v.elts]
            if keyf is None and v.elts and all(isinstance(x, Obj) and x.cls == "Path" and isinstance(x.fields.get("parts"), TupS) for x in v.elts):
                keys = [tuple(p_.v for p_ in x.fields["parts"].elts) for x in v.elts]  # model paths order by their components
            if keyf is None and any(k is _NOPY for k in keys) and all(isinstance(x, (TupS, ListLit)) and x.elts and isinstance(x.elts[0], Const) for x in v.elts):
                # tuples compare by their first members first: when those are constants and pairwise different the rest is never looked at
                firsts = [x.elts[0].v for x in v.elts]
                try:
                    if len(set(firsts)) == len(firsts):
                        keys = firsts
                except TypeError:
                    pass
            if all(k is not _NOPY for k in keys) and isinstance(rev, Const):
                try:
                    order = sorted(range(len(keys)), key=lambda i: keys[i], reverse=bool(rev.v))
                except TypeError as e:
                    raise _Raise.of(e, "sorted")
                return ListLit([v.elts[i] for i in order])
            return Top("sorted() of non-constant elements", deps=I.leaves(v))
        return Top(f"{name}() of a value of unknown shape", deps=I.leaves(v))
    if name in ("min", "max", "sum", "any", "all"):
        try:
            vals = [to_py(x) for x in (seq_elts(I, a[0], node) if len(a) == 1 else a)]
        except (ShapeError, TypeError):
            vals = [_NOPY]
        if not vals and name in ("any", "all", "sum") and not kwargs:
            return Const({"any": False, "all": True, "sum": 0}[name])
        if vals and all(v is not _NOPY for v in vals) and not kwargs:
            try:
                return Const({"min": min, "max": max, "sum": sum, "any": any, "all": all}[name](vals))
            except Exception:
                raise _Raise(f"{name}()")
        if not vals and name in ("min", "max") and "default" not in kwargs:
            raise _Raise(f"{name}() of an empty sequence")
        return Top(f"{name}(...)", deps=[l for x in a for l in I.leaves(x)])
    if name == "getattr":
        if not isinstance(a[1], Const):
            return Top("getattr")
        if len(a) > 2 and isinstance(a[0], Obj) and a[1].v not in a[0].fields and not (getattr(a[0], "klass", None) is not None and I.find_class_attr(a[0].klass[0], a[0].klass[1], a[1].v) is not None) \
                and a[0].cls in ("Exception", "ExceptionGroup", "Container", "Context"):
            return a[2]  # a model object whose attributes are all spelled out: the attribute is absent, the default applies
        return I.getattr(a[0], a[1].v)
    if name == "object":
        return Sentinel(f"sentinel{id(node)}")
    if name == "type":
        if len(a) == 1 and not kwargs:
            tn = type_name(a[0])
            if tn is not None and (isinstance(a[0], (Const, DictS, ListLit, ListOf, TupS, SetS)) or isinstance(a[0], Leaf)):
                return Fn("lib", name=f"builtins.{tn}")
        return Top("type()")
    if name == "callable":
        return Const(I.is_callable(a[0]))
    if name == "slice" and a and all(isinstance(x, Const) for x in a) and not kwargs:
        return Const(slice(*[x.v for x in a]))
    if name == "range":
        if all(isinstance(x, Const) and isinstance(x.v, int) and not isinstance(x.v, bool) for x in a) and a:
            try:
                r_ = range(*[x.v for x in a])
            except (TypeError, ValueError) as e:
                raise _Raise(f"{type(e).__name__}: {e}", [type(e).__name__, "Exception", "BaseException", "object"])
            # a range object: sliceable, with start / stop / step, iterated like the list of its members
            return Const(r_) if len(r_) <= 100000 else Top("range too long for the model")
        return Top("range")
    if name == "iter" and len(a) == 1 and not kwargs:
        if isinstance(a[0], Obj) and a[0].cls == "iterator":
            return a[0]
        if isinstance(a[0], (ListOf, Top, Leaf, Choice)):
            raise ShapeError(f"iter() of {a[0]!r:.60}")
        # the elements as they are now (a container changed while one of its iterators is alive is not modelled)
        return Obj("iterator", OrderedDict(items=ListLit(list(I.iterate(a[0], node))), pos=Const(0)))
    if name == "next" and a and isinstance(a[0], ListLit) and getattr(a[0], "pyname", None) == "generator":
        # a generator expression (evaluated eagerly): next() takes its first remaining element
        if a[0].elts:
            return a[0].elts.pop(0)
        if len(a) > 1:
            return a[1]
        raise _Raise("StopIteration", ["StopIteration", "Exception", "BaseException", "object"])
    if name == "next" and a and isinstance(a[0], Obj) and a[0].cls == "iterator":
        for x in I.iterate(a[0], node):
            return x
        if len(a) > 1:
            return a[1]
        raise _Raise("StopIteration", ["StopIteration", "Exception", "BaseException", "object"])
    if name == "reversed":
        return ListLit(list(reversed(seq_elts(I, a[0], node))))
    if name == "print":
        return Const(None)
    return Top(f"builtin {name}")


_NOPY = object()


def to_py(v):
    """python value of a fully constant shape, else _NOPY"""
    if isinstance(v, Const):
        return v.v
    if isinstance(v, (ListLit, TupS)):
        items = [to_py(x) for x in v.elts]
        if any(i is _NOPY for i in items):
            return _NOPY
        return items if isinstance(v, ListLit) else tuple(items)
    if isinstance(v, DictS) and not v.optional:
        vals = {k: to_py(x) for k, x in v.items.items()}
        if any(i is _NOPY for i in vals.values()):
            return _NOPY
        return vals
    return _NOPY


STR_KINDS = {"lower", "upper", "strip", "lstrip", "rstrip", "removeprefix", "removesuffix", "replace", "title", "format", "join", "isoformat", "decode"}


def call_method(I, recv, name, args, kwargs, node):
    if isinstance(recv, Choice):
        return Choice([call_method(I, x, name, args, kwargs, node) for x in recv.alts])
    if name == "__getitem__" and len(args) == 1 and not kwargs and isinstance(recv, (DictS, ListLit, TupS, Const)):
        return I.getitem(recv, args[0], node)  # the bound special method taken as a value (table.__getitem__)
    if name == "__contains__" and len(args) == 1 and not kwargs and isinstance(recv, (DictS, ListLit, TupS, SetS)):
        res = I.contains(recv, args[0])
        return Const(res) if res is not None else Top("membership unknown")
    if isinstance(recv, DictS):
        if name == "items":
            return ListLit([TupS([Const(k), v]) for k, v in recv.items.items()])
        if name == "values":
            return ListLit(list(recv.items.values()))
        if name == "keys":
            kv = ListLit([Const(k) for k in recv.items])
            if not recv.optional:
                kv.pyname, kv.pybases = "dict_keys", ()  # a key view: supports the set operations
            return kv
        if name == "copy":
            return recv.copy()
        if name in ("get", "pop"):
            k = args[0]
            default = args[1] if len(args) > 1 else Const(None)
            t = getattr(recv, "table", None)
            if t is not None:
                t["probed"] = True
            if isinstance(k, Const):
                if k.v in recv.items and t is not None:
                    t["hits"].add(k.v)
                if k.v in recv.items:
                    v = recv.items[k.v]
                    opt = k.v in recv.optional
                    if name == "pop":
                        del recv.items[k.v]
                        recv.optional.discard(k.v)
                    return Choice([v, default]) if opt else v
                if name == "pop" and len(args) < 2:
                    raise _Raise(f"KeyError {k.v!r}", ["KeyError", "LookupError", "Exception", "BaseException", "object"])
                return default
            if isinstance(k, (Leaf, Top)):
                if t is not None:
                    t["hits"].update(recv.items)
                return Choice(list(recv.items.values()) + [default], [f"key=={kk!r}" for kk in recv.items] + ["key not in table"])
            if isinstance(k, Choice):
                return Choice([call_method(I, recv, name, [x] + list(args[1:]), kwargs, node) for x in k.alts])
            return Top("dict.get with unknown key")
        if name == "update":
            other = args[0] if args else DictS()
            if isinstance(other, DictS):
                recv.items.update(other.items)
                for k_ in other.items:
                    if k_ not in other.optional:
                        recv.optional.discard(k_)
            else:
                for item in seq_elts(I, other, node):
                    if isinstance(item, (TupS, ListLit)) and len(item.elts) == 2 and isinstance(item.elts[0], Const):
                        recv.items[item.elts[0].v] = item.elts[1]
                        recv.optional.discard(item.elts[0].v)
                    else:
                        raise ShapeError(f"dict.update with an entry that is not a (constant key, value) pair: {item!r:.60}")
            for k_, v_ in kwargs.items():
                recv.items[k_] = v_
                recv.optional.discard(k_)
            return Const(None)
        if name == "clear":
            recv.items.clear()
            recv.optional.clear()
            return Const(None)
        if name == "popitem":
            if not recv.items:
                raise _Raise("KeyError: popitem(): dictionary is empty", ["KeyError", "LookupError", "Exception", "BaseException", "object"])
            last = kwargs.get("last", args[0] if args else Const(True))
            k_ = next(reversed(recv.items)) if (not isinstance(last, Const) or last.v) else next(iter(recv.items))
            return TupS([Const(k_), recv.items.pop(k_)])
        if name == "move_to_end" and args and isinstance(args[0], Const) and args[0].v in recv.items:
            last = kwargs.get("last", args[1] if len(args) > 1 else Const(True))
            recv.items.move_to_end(args[0].v, last=bool(last.v) if isinstance(last, Const) else True)
            return Const(None)
        if name == "setdefault":
            k = args[0]
            if isinstance(k, TupS) and all(isinstance(x, Const) for x in k.elts):
                k = Const(tuple(x.v for x in k.elts))
            if isinstance(k, Const):
                if k.v not in recv.items:
                    recv.items[k.v] = args[1] if len(args) > 1 else Const(None)
                return recv.items[k.v]
        if name in ("update", "setdefault", "pop", "popitem", "clear", "move_to_end", "__setitem__", "__delitem__"):
            raise ShapeError(f"dict.{name} in a form the interpreter does not model (the mapping would be changed in a way that is not tracked)")
        return Top(f"dict.{name}")
    if isinstance(recv, SetS) and name in ("issuperset", "issubset", "isdisjoint", "union", "intersection", "difference", "copy") and all(isinstance(x, Const) for x in recv.elts):
        mine = [x.v for x in recv.elts]
        others = []
        for arg in args:
            el = seq_elts(I, arg, node)
            if not all(isinstance(x, Const) for x in el):
                return Top(f"set.{name} with symbolic members")
            others.append([x.v for x in el])
        if name == "copy":
            return SetS(list(recv.elts))
        if name in ("issuperset", "issubset", "isdisjoint") and len(others) == 1:
            o = others[0]
            return Const(all(x in mine for x in o) if name == "issuperset" else all(x in o for x in mine) if name == "issubset" else not any(x in o for x in mine))
        if name == "union":
            out = list(mine)
            for o in others:
                out += [x for x in o if x not in out]
            return SetS([Const(x) for x in out])
        if name == "intersection":
            return SetS([Const(x) for x in mine if all(x in o for o in others)])
        if name == "difference":
            return SetS([Const(x) for x in mine if not any(x in o for o in others)])
    if isinstance(recv, (ListLit,)):
        if name == "append":
            rec = getattr(I, "_sym_appends", None)
            if rec:
                cur = rec[-1].setdefault(id(recv), [recv, 0, len(recv.elts)])
                cur[1] += 1
            recv.elts.append(args[0])
            return Const(None)
        if name == "extend":
            recv.elts.extend(seq_elts(I, args[0], node))
            return Const(None)
        if name == "copy":
            return ListLit(list(recv.elts))
        if name == "index" and isinstance(args[0], Const):
            for i, x in enumerate(recv.elts):
                if isinstance(x, Const) and x.v == args[0].v:
                    return Const(i)
        if name == "insert" and len(args) == 2 and isinstance(args[0], Const) and isinstance(args[0].v, int):
            recv.elts.insert(args[0].v, args[1])
            return Const(None)
        if name == "pop" and (not args or (isinstance(args[0], Const) and isinstance(args[0].v, int))):
            try:
                return recv.elts.pop(args[0].v if args else -1)
            except IndexError:
                raise _Raise("IndexError: pop from empty list / index out of range", ["IndexError", "LookupError", "Exception", "BaseException", "object"])
        if name == "reverse" and not args:
            recv.elts.reverse()
            return Const(None)
        if name == "clear" and not args:
            del recv.elts[:]
            return Const(None)
        if name == "sort":
            new = builtin(I, "sorted", [recv], kwargs, node)
            if isinstance(new, ListLit):
                recv.elts[:] = new.elts
                return Const(None)
            raise ShapeError("list.sort() on elements whose order is not known")
        if name in ("remove", "insert", "pop", "sort", "reverse", "clear", "__setitem__", "__delitem__"):
            raise ShapeError(f"list.{name} in a form the interpreter does not model (the list would be changed in a way that is not tracked)")
        return Top(f"list.{name}")
    import re as _re
    if isinstance(recv, Const) and isinstance(recv.v, _re.Pattern):
        if name in ("fullmatch", "match", "search"):
            return regex_match(I, recv.v, name, args, node)
        return Top(f"regex.{name}")
    if isinstance(recv, Const):
        pyargs = [to_py(x) for x in args]
        if all(p is not _NOPY for p in pyargs) and not kwargs and not all(isinstance(x, Const) for x in args):
            try:
                return Const(getattr(recv.v, name)(*pyargs))
            except Exception as e:
                raise _Raise.of(e, name)
        if all(isinstance(x, Const) for x in args) and all(isinstance(x, Const) for x in kwargs.values()):
            try:
                return Const(getattr(recv.v, name)(*[x.v for x in args], **{k: v.v for k, v in kwargs.items()}))
            except Exception as e:
                raise _Raise.of(e, name)
        if name == "join" and isinstance(recv.v, str):
            lv = [l for x in args for l in I.leaves(x)]
            if lv:
                return lv[0].derive(f"{recv.v!r}.join", "str")
        if name == "startswith" and args and isinstance(args[0], TupS) and all(isinstance(x, Const) for x in args[0].elts):
            return Const(recv.v.startswith(tuple(x.v for x in args[0].elts)))
        return Top(f"const.{name}", deps=[l for x in args for l in I.leaves(x)])
    if isinstance(recv, Leaf):
        if name == "split":
            from .poly import Poly
            return ListOf(recv.derive("split", "str"), Poly.sym("?"))
        kind = "str" if name in STR_KINDS else recv.kind
        if name == "items":
            return Top("items() of a scalar", deps=[recv])
        return recv.derive(name + ("(" + ",".join(repr(x.v) for x in args if isinstance(x, Const)) + ")" if args else ""), kind)
    if isinstance(recv, ListOf):
        if name in ("astype", "copy", "tolist", "view", "reshape", "squeeze"):
            tag = name + ("[" + ",".join(str(x.v) for x in args if isinstance(x, Const)) + "]" if args else "")
            return tag_leaves(I, recv, tag)
        return Top(f"method {name} on symbolic list", deps=I.leaves(recv))
    if isinstance(recv, Top):
        return Top(f"{recv.reason}.{name}", deps=recv.deps)
    if isinstance(recv, Obj) and recv.cls == "Match":
        groups = recv.fields["groups"]
        if name == "groupdict":
            return groups.copy()
        if name == "group" and args and all(isinstance(x, Const) and x.v in groups.items for x in args):
            vals = [groups.items[x.v] for x in args]
            return vals[0] if len(vals) == 1 else TupS(vals)
        if name == "group" and len(args) == 1 and isinstance(args[0], Const) and args[0].v == 0 and isinstance(recv.fields.get("text"), Leaf):
            return recv.fields["text"]
        if name == "groups":
            return TupS(list(groups.items.values()))
        return Top(f"match.{name}")
    if isinstance(recv, Obj):
        if recv.cls == "Group" and name == "get":
            data = recv.fields.get("data")
            if isinstance(data, DictS):
                return call_method(I, data, "get", args, kwargs, node)
        return Top(f"{recv.cls}.{name}")
    return Top(f"method {name}")
