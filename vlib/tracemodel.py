"""E8 -- model evaluation of the metadata pass (sar_image.io.read_metadata) with a recording file object.

The function's syntax tree is evaluated by the checker's own interpreter (vlib/shapes.py: constant folding over the
statements of the package, nothing of the package is imported or executed by CPython) on a *model image file*:

  * the file object is a stub that keeps a position, hands out zero bytes, records every request (read / readinto /
    seek / tell) and returns short or empty blocks at the end of the model file - like a real file;
  * construct's part is replaced by stubs that follow construct's contract: the descriptor struct returns a header with
    the model's record count and record length (and fails on fewer than 720 bytes); the preamble struct fails on an empty
    block; ``record[n].parse(content)`` returns n records whose position fields (record_start, data.start, data.stop)
    are relative to the block - exactly what Tell / Seek record - and fails when the block is shorter than n records;
  * everything else (chunk arithmetic, loops, helpers, rebasing) is the repository's code.

What comes out is the request trace and the records with their final positions.  The obligations read off it are the
ones the properties state (C01: positions are absolute file offsets; C06/C11: sequential requests after the 720-byte
descriptor, at most ceil(n / rpc) of them, none larger than rpc records, together exactly the n records; C18: a
truncated file raises and the pass terminates).  The model inputs are small integers (n records, records_per_chunk,
cut point); the decision is exhaustive over the listed grid, not over all integers - the evidence says so.
"""
from __future__ import annotations

import math
from collections import OrderedDict

from .core import AnalysisError
from .shapes import Const, DictS, Fn, Interp, ListLit, NonTermination, Obj, ShapeError, Top, TupS, _Raise

IO = "ceos_alos2.sar_image.io"
DESCRIPTOR = 720
PREFIX = 12  # model: the fixed part of a line record is 12 bytes (the preamble), the samples follow


class Trace:
    def __init__(self):
        self.events = []      # ("read", pos, asked, got) | ("seek", target) | ("tell",)
        self.records = None   # [(record_start, data.start, data.stop)] as returned
        self.outcome = None   # "returned" | "raised: ..." | "nonterminating: ..." | "undecided: ..."
        self.allocations = [] # sizes of buffers allocated (bytearray(n))
        self.header = None


def _const_int(v):
    return v.v if isinstance(v, Const) and isinstance(v.v, int) and not isinstance(v.v, bool) else None


def model_file(trace, total, content=None):
    """content: optional bytes of the model file (then reads hand out the real slice)"""
    state = {"pos": 0}

    def read(I, args, kwargs):
        size = _const_int(args[0]) if args else None
        if args and size is None and not (isinstance(args[0], Const) and args[0].v is None):
            raise ShapeError(f"read size is not a constant: {args[0]!r}")
        fault = getattr(trace, "fault", None)
        if fault is not None and fault.get("kind") == "read":
            # an injected transient failure: the request with this running number fails once with a connection reset
            fault["seen"] = fault.get("seen", 0) + 1
            if fault["seen"] - 1 == fault["at"] and not fault.get("fired"):
                fault["fired"] = True
                trace.events.append(("failed-read", state["pos"], size))
                raise _Raise("ConnectionResetError: [Errno 104] Connection reset by peer", ["ConnectionResetError", "ConnectionError", "OSError", "Exception", "BaseException", "object"])
        avail = max(total - state["pos"], 0)
        got = avail if size is None or size < 0 else min(size, avail)
        if fault is not None and fault.get("kind") == "short":
            # an injected short read: the request with this running number is served only in part (a file object may return fewer
            # bytes than asked for; what was not delivered is still there for the next read)
            fault["seen"] = fault.get("seen", 0) + 1
            if fault["seen"] - 1 == fault["at"] and not fault.get("fired") and got > 1:
                fault["fired"] = True
                got = got // 2
        trace.events.append(("read", state["pos"], size, got))
        state["pos"] += got
        if content is not None:
            return Const(content[state["pos"] - got:state["pos"]])
        if got > 2**20:
            return Obj("Buffer", OrderedDict(size=Const(got), filled=Const(got)))  # large blocks: only the length is modelled
        return Const(bytes(got))

    def readinto(I, args, kwargs):
        buf = args[0]
        cap = None
        if isinstance(buf, Obj) and buf.cls in ("Buffer", "BufferView"):
            cap = buf.fields["size"].v
        if cap is None:
            raise ShapeError(f"readinto target is not a modelled buffer: {buf!r}")
        avail = max(total - state["pos"], 0)
        got = min(cap, avail)
        trace.events.append(("read", state["pos"], cap, got))
        state["pos"] += got
        base = buf.fields.get("base", buf)
        base.fields["filled"] = Const(got)
        return Const(got)

    def seek(I, args, kwargs):
        t = _const_int(args[0])
        whence = _const_int(args[1]) if len(args) > 1 else 0
        if t is None:
            raise ShapeError("seek target is not a constant")
        state["pos"] = t if whence == 0 else state["pos"] + t if whence == 1 else total + t
        trace.events.append(("seek", state["pos"]))
        return Const(state["pos"])

    def tell(I, args, kwargs):
        trace.events.append(("tell",))
        return Const(state["pos"])

    f = Obj("File", OrderedDict(read=Fn("py", impl=read, name="read"), readinto=Fn("py", impl=readinto, name="readinto"),
                                seek=Fn("py", impl=seek, name="seek"), tell=Fn("py", impl=tell, name="tell")))
    f.fields["__enter__"] = Fn("py", impl=lambda I, a, k: f, name="__enter__")
    f.fields["__exit__"] = Fn("py", impl=lambda I, a, k: Const(None), name="__exit__")
    return f


def _bytes_len(v):
    """length of a model byte block (bytes constant, or a modelled buffer / view)"""
    if isinstance(v, Const) and isinstance(v.v, (bytes, bytearray)):
        return len(v.v)
    if isinstance(v, Obj) and v.cls == "Buffer":
        return v.fields["size"].v
    if isinstance(v, Obj) and v.cls == "BufferView":
        return v.fields["size"].v
    return None


def install_stubs(I, repo, trace, n_records, record_size):
    mod = repo.module(IO)
    sc = I.module_scope(mod)

    def parse_header(I_, args, kwargs):
        ln = _bytes_len(args[0]) if args else None
        if ln is None:
            raise ShapeError("the descriptor is parsed from something that is not a byte block")
        if ln < DESCRIPTOR:
            raise _Raise(f"StreamError: descriptor needs {DESCRIPTOR} bytes, got {ln}")
        h = DictS(OrderedDict(number_of_sar_data_records=Const(n_records), sar_data_record_length=Const(record_size),
                              sar_related_data_in_the_record=DictS(OrderedDict(number_of_lines_per_dataset=Const(n_records), number_of_data_groups_per_line=Const(5), number_of_bytes_of_sar_data_per_record=Const(record_size - PREFIX))),
                              record_data_in_the_file=DictS(OrderedDict(number_of_sar_data_records=Const(n_records)))))
        trace.header = h
        from .repeval import from_shape
        trace.header_as_parsed = from_shape(h)
        return h
    sc.vars["file_descriptor_record"] = Obj("Struct", OrderedDict(parse=Fn("py", impl=parse_header, name="parse"), sizeof=Fn("py", impl=lambda I_, a, k: Const(DESCRIPTOR), name="sizeof")))

    def parse_preamble(I_, args, kwargs):
        ln = _bytes_len(args[0]) if args else None
        if ln is None:
            raise ShapeError("the preamble is parsed from something that is not a byte block")
        if ln < PREFIX:
            raise _Raise(f"StreamError: preamble needs {PREFIX} bytes, got {ln}")
        return Obj("Container", OrderedDict(record_type=Const(11), record_length=Const(record_size)))
    sc.vars["record_preamble"] = Obj("Struct", OrderedDict(parse=Fn("py", impl=parse_preamble, name="parse")))

    def struct_for(code):
        def repeat(I_, args, kwargs):
            n = _const_int(args[0])
            if n is None:
                raise ShapeError("record multiplicity is not a constant")

            def parse(I2, a2, k2):
                ln = _bytes_len(a2[0]) if a2 else None
                if ln is None:
                    raise ShapeError("records are parsed from something that is not a byte block")
                # construct's contract for a struct that ends in Seek(record end): every record reads its fixed prefix (a short read
                # is a StreamError) and seeks over its pixel data without reading it - a block cut inside the pixel data of its last
                # record parses
                if n and ln < (n - 1) * record_size + PREFIX:
                    raise _Raise(f"StreamError: stream read less than specified amount: {n} records need {(n - 1) * record_size + PREFIX} bytes for their prefixes, got {ln}")
                recs = []
                for i in range(n):
                    recs.append(Obj("Container", OrderedDict(record_start=Const(i * record_size), preamble=Obj("Container", OrderedDict(record_type=Const(code), record_length=Const(record_size))),
                                                             data=Obj("Container", OrderedDict(start=Const(i * record_size + PREFIX), stop=Const((i + 1) * record_size))))))
                return ListLit(recs)

            def parse_stream(I2, a2, k2):
                # construct's contract for a struct that ends in Seek(record end): every record reads its fixed prefix from the
                # stream (a short read is a StreamError), notes the data start (Tell) and seeks to the end of the record - a
                # seek beyond the end of the file does not fail
                stream = a2[0] if a2 else None
                if not isinstance(stream, Obj) or "read" not in stream.fields:
                    raise ShapeError("parse_stream is not given the model file")
                recs = []
                for i in range(n):
                    start = _const_int(I2.call(stream.fields["tell"], [], {}))
                    blk = I2.call(stream.fields["read"], [Const(PREFIX)], {})
                    got = _bytes_len(blk)
                    if got is None or got < PREFIX:
                        raise _Raise(f"StreamError: stream read less than specified amount, expected {PREFIX}, found {got}")
                    I2.call(stream.fields["seek"], [Const(start + record_size)], {})
                    recs.append(Obj("Container", OrderedDict(record_start=Const(start), preamble=Obj("Container", OrderedDict(record_type=Const(code), record_length=Const(record_size))),
                                                             data=Obj("Container", OrderedDict(start=Const(start + PREFIX), stop=Const(start + record_size))))))
                return ListLit(recs)
            return Obj("Struct", OrderedDict(parse=Fn("py", impl=parse, name="parse"), parse_stream=Fn("py", impl=parse_stream, name="parse_stream")))
        return Obj("Struct", OrderedDict(__getitem__=Fn("py", impl=repeat, name="__getitem__")))
    sc.vars["record_types"] = DictS(OrderedDict([(10, struct_for(10)), (11, struct_for(11))]))
    sc.vars["signal_data_record"] = sc.vars["record_types"].items[10]
    sc.vars["processed_data_record"] = sc.vars["record_types"].items[11]
    sc.vars["to_dict"] = Fn("py", impl=lambda I_, a, k: a[0], name="to_dict")


def run_read_metadata(repo, n_records, record_size, rpc, total=None, rpc_kw=True):
    """-> Trace"""
    trace = Trace()
    total = DESCRIPTOR + n_records * record_size if total is None else total
    I = Interp(repo)
    I.max_loop = 400
    install_stubs(I, repo, trace, n_records, record_size)
    from .shapes_lib import install_buffer_model
    install_buffer_model(I, trace)
    mod = repo.module(IO)
    f = model_file(trace, total)
    try:
        fn = I.lookup("read_metadata", I.module_scope(mod))
        out = I.call(fn, [f, Const(rpc)], {})
    except _Raise as e:
        trace.outcome = f"raised: {e.what}"
        return trace
    except NonTermination as e:
        trace.outcome = f"nonterminating: {e}"
        return trace
    except RecursionError:
        trace.outcome = "undecided: recursion limit of the interpreter"
        return trace
    except ShapeError as e:
        trace.outcome = f"undecided: {e}"
        return trace
    recs = None
    if isinstance(out, TupS) and len(out.elts) == 2:
        recs = out.elts[1]
        try:
            from .repeval import from_shape
            trace.header_returned = from_shape(out.elts[0])
        except Exception:
            trace.header_returned = None
    if not isinstance(recs, ListLit):
        trace.outcome = f"undecided: read_metadata returns {out!r:.120}"
        return trace
    got = []
    for r in recs.elts:
        try:
            got.append((r.fields["record_start"].v, r.fields["data"].fields["start"].v, r.fields["data"].fields["stop"].v))
        except Exception:
            trace.outcome = f"undecided: a returned record is {r!r:.100}"
            return trace
    trace.records = got
    trace.outcome = "returned"
    return trace


def expected_records(n, L):
    return [(DESCRIPTOR + j * L, DESCRIPTOR + j * L + PREFIX, DESCRIPTOR + (j + 1) * L) for j in range(n)]


def judge_intact(tr, n, L, rpc):
    """obligations on the trace of an intact file -> [(rule key, ok, good text, bad text)]"""
    out = []
    reads = [e for e in tr.events if e[0] == "read"]
    seeks = [e for e in tr.events if e[0] == "seek"]
    first_ok = bool(reads) and reads[0][1] == 0 and reads[0][2] == DESCRIPTOR
    out.append(("descriptor", first_ok, "the first request is the 720-byte descriptor at offset 0", f"the first request is {reads[0][1:3] if reads else None}, not (0, 720)"))
    body = [r for r in reads[1:] if not (r[3] == 0 and r[2] in (0, None))]
    pos = DESCRIPTOR
    seq_ok, why = True, ""
    for r in body:
        if r[1] != pos:
            seq_ok, why = False, f"request at offset {r[1]} where {pos} is next"
            break
        pos += r[3]
    out.append(("sequential", seq_ok and not seeks, "line records are requested front to back without gaps, overlaps or seeks",
                f"requests are not front to back: {why or 'seek ' + str(seeks[:2])}"))
    limit = math.ceil(n / rpc)
    nreq = len([r for r in reads[1:]])
    out.append(("count", nreq <= limit, f"{nreq} request(s) after the descriptor <= ceil({n}/{rpc}) = {limit}",
                f"{nreq} requests after the descriptor for {n} lines at records_per_chunk={rpc}; the bound is ceil({n}/{rpc}) = {limit} (sizes in records: {[r[2] // L if r[2] else r[2] for r in reads[1:]][:8]})"))
    big = [r for r in reads[1:] if r[2] is None or r[2] > rpc * L]
    out.append(("size", not big, f"no request is larger than records_per_chunk={rpc} records", f"a request asks for {big[0][2] if big else None} bytes = more than records_per_chunk={rpc} records of {L} bytes"))
    over = [r for r in reads if r[2] is not None and r[1] + r[2] > DESCRIPTOR + n * L]
    out.append(("bounds", not over, "no request reaches beyond the end of the file", f"request {over[0][1:3] if over else None} reaches beyond the file ({DESCRIPTOR + n * L} bytes)"))
    want = expected_records(n, L)
    rec_ok = tr.records == want
    detail = ""
    if not rec_ok and tr.records is not None:
        j = next((i for i in range(min(len(tr.records), len(want))) if tr.records[i] != want[i]), min(len(tr.records), len(want)))
        detail = (f"line {j}: positions (record_start, data.start, data.stop) = {tr.records[j]}, its bytes are at {want[j]}" if j < len(tr.records) and j < len(want)
                  else f"{len(tr.records)} records returned, the header declares {n}")
    out.append(("positions", rec_ok, f"all {n} records come back with absolute file positions (720 + j*{L} ...)", f"byte ranges are not the lines' own bytes: {detail}"))
    alloc = [a for a in tr.allocations if a > max(n, 1) * L + DESCRIPTOR]
    out.append(("allocation", not alloc, "no buffer larger than the file is allocated", f"a buffer of {alloc[0] if alloc else 0} bytes is allocated for a file of {DESCRIPTOR + n * L} bytes: its size follows records_per_chunk={rpc}, not the data"))
    return out
