"""E4 -- call graph over resolved callees (over-approximating), guards, handlers"""

from __future__ import annotations

import ast
from collections import defaultdict, deque

from .core import AnalysisError, FuncInfo, Module, norm, parents, walk_no_nested

MODULE_BODY = "<module>"

IMPLICIT_DUNDERS = {
    "__getitem__", "__setitem__", "__delitem__", "__iter__", "__len__", "__eq__", "__hash__",
    "__contains__", "__enter__", "__exit__", "__call__", "__bool__", "__repr__",
}


class CallGraph:
    def __init__(self, repo):
        self.repo = repo
        self.edges = defaultdict(set)  # key -> {key}
        self.sites = defaultdict(list)  # (caller key, callee key) -> [ast node]
        self.funcs = {fi.key: fi for fi in repo.all_funcs()}
        self.methods_by_name = defaultdict(list)
        self.props_by_name = defaultdict(list)
        self.class_of = {}
        for m in repo.modules.values():
            for q, cls in m.classes.items():
                for st in cls.body:
                    if isinstance(st, ast.FunctionDef):
                        fi = m.funcs[f"{q}.{st.name}"]
                        self.class_of[fi.key] = (m, q, cls)
                        is_prop = any(norm(d) in ("property", "functools.cached_property", "cached_property") for d in st.decorator_list)
                        if is_prop:
                            self.props_by_name[st.name].append(fi)
                        else:
                            self.methods_by_name[st.name].append(fi)
        self._value_calls = []
        for fi in self.funcs.values():
            self._scan(fi)
        for fi, n in self._value_calls:
            kind = self._callable_kind(fi, n.func)
            if kind == "funcs":
                continue  # plain functions / lambdas: referenced by name where they are put into the value
            for m in self.methods_by_name["__call__"]:
                if isinstance(kind, tuple) and self.class_of[m.key][2] is not kind[1]:
                    continue
                if _accepts(m, n):
                    self._add(fi, m, n)

    # ------------------------------------------------------------------
    def _add(self, caller, callee_fi, node):
        self.edges[caller.key].add(callee_fi.key)
        self.sites[(caller.key, callee_fi.key)].append(node)

    def _class_edges(self, caller, mod, cls, node):
        q = self.repo._class_qual(mod, cls)
        for name in ("__init__", "__post_init__", "__new__"):
            fi = mod.funcs.get(f"{q}.{name}")
            if fi is not None:
                self._add(caller, fi, node)

    def _scan(self, fi):
        repo = self.repo
        # lambdas and nested defs that are referenced
        for lam in fi.lambdas:
            self._add(fi, lam, lam.node)
        # a decorator of the package replaces the function by what it returns: calling the function runs the decorator's wrapper
        for d in getattr(fi.node, "decorator_list", []):
            target = d.func if isinstance(d, ast.Call) else d
            if isinstance(target, (ast.Name, ast.Attribute)):
                try:
                    r = repo.resolve_expr(fi.module if fi.parent is None else fi.parent, target)
                except Exception:
                    continue
                if r.kind == "func":
                    self._add(fi, r.func, d)
                    stack = list(r.func.children.values())
                    while stack:
                        c = stack.pop()
                        self._add(fi, c, d)
                        stack.extend(c.children.values())
        uses_iter = False
        for n in fi.own_nodes(include_lambdas=False):
            if isinstance(n, ast.Name) and isinstance(n.ctx, ast.Load):
                r = repo.resolve_name(fi, n.id)
                if r.kind == "func":
                    self._add(fi, r.func, n)
                elif r.kind == "class":
                    if not _is_type_test_arg(n):
                        self._class_edges(fi, r.mod, r.node, n)
                elif r.kind == "value":
                    for f in self._value_funcs(r):
                        self._add(fi, f, n)
            elif isinstance(n, ast.Attribute):
                r = repo.resolve_expr(fi, n)
                if r.kind == "func":
                    self._add(fi, r.func, n)
                    continue
                if r.kind == "value":
                    for f in self._value_funcs(r):
                        self._add(fi, f, n)
                    continue
                if r.kind == "class":
                    if not _is_type_test_arg(n):
                        self._class_edges(fi, r.mod, r.node, n)
                    continue
                if r.kind == "selfattr":
                    continue  # a data attribute of the method's own class
                base = repo.resolve_expr(fi, n.value)
                if base.kind in ("module", "external"):
                    continue
                if isinstance(n.ctx, ast.Load):
                    for p in self.props_by_name.get(n.attr, ()):
                        self._add(fi, p, n)
                    par = getattr(n, "_parent", None)
                    if isinstance(par, ast.Call) and par.func is n:
                        for m in self.methods_by_name.get(n.attr, ()):
                            if _accepts(m, par):
                                self._add(fi, m, n)
                    else:
                        # bound method taken as a value
                        for m in self.methods_by_name.get(n.attr, ()):
                            if not n.attr.startswith("__"):
                                self._add(fi, m, n)
            elif isinstance(n, ast.Subscript):
                base = repo.resolve_expr(fi, n.value)
                if base.kind in ("module", "external", "value"):
                    continue
                if base.kind == "local" and _plain_container_local(base):
                    continue  # a list/dict/tuple built in this function: builtin item access
                dunder = {ast.Load: "__getitem__", ast.Store: "__setitem__", ast.Del: "__delitem__"}[type(n.ctx)]
                for m in self.methods_by_name.get(dunder, ()):
                    self._add(fi, m, n)
            elif isinstance(n, (ast.For, ast.comprehension)):
                for m in self.methods_by_name.get("__iter__", ()):
                    self._add(fi, m, n)
            elif isinstance(n, ast.Compare):
                for op in n.ops:
                    if isinstance(op, (ast.Eq, ast.NotEq)):
                        for m in self.methods_by_name.get("__eq__", ()):
                            self._add(fi, m, n)
                    if isinstance(op, (ast.In, ast.NotIn)):
                        for m in list(self.methods_by_name.get("__contains__", ())) + list(self.methods_by_name.get("__iter__", ())):
                            self._add(fi, m, n)
            elif isinstance(n, ast.Call) and isinstance(n.func, ast.Name) and n.func.id != "len" and self.methods_by_name.get("__call__") \
                    and repo.resolve_name(fi, n.func.id).kind in ("param", "local"):
                # calling a parameter / local value: it may be an instance of a class of the package that defines __call__
                # (decided after all direct edges are known: the classes a parameter can hold come from the call sites)
                self._value_calls.append((fi, n))
            elif isinstance(n, ast.Call) and isinstance(n.func, ast.Name) and n.func.id == "len":
                for m in self.methods_by_name.get("__len__", ()):
                    self._add(fi, m, n)
            elif isinstance(n, (ast.With, ast.AsyncWith)):
                for m in list(self.methods_by_name.get("__enter__", ())) + list(self.methods_by_name.get("__exit__", ())):
                    self._add(fi, m, n)

    FUNCTION_MAKERS = ("curry", "partial", "compose", "compose_left", "juxt", "complement", "flip", "itemgetter", "attrgetter", "methodcaller")

    def _callable_kind(self, fi, expr, _depth=0):
        """what a called value is: 'funcs' (plain functions / lambdas / partial applications only), (module, class) of the
        package when it provably is an instance of that class, None when unknown"""
        repo = self.repo
        if _depth > 3:
            return None
        if isinstance(expr, ast.Lambda):
            return "funcs"
        if isinstance(expr, ast.IfExp):
            a, b = self._callable_kind(fi, expr.body, _depth + 1), self._callable_kind(fi, expr.orelse, _depth + 1)
            return a if a == b else None
        ic = repo.instance_class(fi, expr)
        if ic is not None:
            return ic
        if isinstance(expr, (ast.Name, ast.Attribute)):
            r = repo.resolve_expr(fi, expr)
            if r.kind == "func":
                return "funcs"
            if r.kind == "external":
                return "funcs"
            if r.kind == "local":
                kinds = []
                for kind, val in r.entries:
                    if kind != "assign" or not isinstance(val, ast.AST):
                        return None
                    kinds.append(self._callable_kind(r.func, val, _depth + 1))
                return kinds[0] if kinds and all(k == kinds[0] for k in kinds) else None
            if r.kind == "param":
                return self._param_kind(r.func, r.name, _depth + 1)
            return None
        if isinstance(expr, ast.Call):
            f = expr.func
            if isinstance(f, (ast.Name, ast.Attribute)):
                r = repo.resolve_expr(fi, f)
                if r.kind == "external" and r.fq.split(".")[-1] in self.FUNCTION_MAKERS:
                    return "funcs" if all(self._callable_kind(fi, a, _depth + 1) == "funcs" for a in expr.args[:1]) else None
            if isinstance(f, ast.Attribute) and f.attr in ("get", "pop") and expr.args:
                tab = self._table_kind(fi, f.value, _depth + 1)
                dflt = self._callable_kind(fi, expr.args[1], _depth + 1) if len(expr.args) > 1 else tab
                return tab if tab == dflt or (len(expr.args) > 1 and isinstance(expr.args[1], ast.Constant) and expr.args[1].value is None) else None
            return None
        if isinstance(expr, ast.Subscript):
            return self._table_kind(fi, expr.value, _depth + 1)
        return None

    def _table_kind(self, fi, expr, _depth):
        """the common kind of the values of a dict written out as a display (directly, through a local or a module-level name)"""
        repo = self.repo
        d = expr
        scope = fi
        for _ in range(3):
            if isinstance(d, ast.Dict):
                break
            if isinstance(d, ast.Name):
                r = repo.resolve_name(scope, d.id)
                if r.kind == "local" and len(r.entries) == 1 and r.entries[0][0] == "assign" and isinstance(r.entries[0][1], ast.AST):
                    d, scope = r.entries[0][1], r.func
                    continue
                if r.kind == "value" and len(r.exprs) == 1:
                    d, scope = r.exprs[0], r.mod
                    continue
            return None
        if not isinstance(d, ast.Dict) or not d.values or any(k is None for k in d.keys):
            return None
        kinds = [self._callable_kind(scope, v, _depth + 1) for v in d.values]
        return kinds[0] if all(k == kinds[0] for k in kinds) else None

    def _param_kind(self, fn, pname, _depth):
        """the kind of a parameter from the call sites of its function - only when every reference to the function is a direct call"""
        from .interproc import bind_args, Callee
        callers = [(k, nodes) for (k, callee), nodes in self.sites.items() if callee == fn.key]
        if not callers:
            return None
        kinds = []
        for k, nodes in callers:
            cfi = self.funcs[k]
            for n in nodes:
                par = getattr(n, "_parent", None)
                if not (isinstance(par, ast.Call) and par.func is n):
                    return None  # handed on as a value: called from somewhere unknown
                bound, unknown = bind_args(Callee(func=fn), par)
                if unknown or pname not in bound:
                    return None
                kinds.append(self._callable_kind(cfi, bound[pname], _depth + 1))
        return kinds[0] if kinds and all(k == kinds[0] for k in kinds) else None

    def _value_funcs(self, ref, _seen=None):
        """functions referenced by a module-level value (tables of callables)"""
        _seen = _seen if _seen is not None else set()
        key = (ref.mod.name, ref.name)
        if key in _seen:
            return []
        _seen.add(key)
        out = []
        for e in ref.exprs:
            for n in ast.walk(e):
                if isinstance(n, ast.Lambda):
                    for fi in ref.mod.funcs.values():
                        if fi.node is n:
                            out.append(fi)
                if isinstance(n, (ast.Name, ast.Attribute)):
                    r = self.repo.resolve_expr(ref.mod, n)
                    if r.kind == "func":
                        out.append(r.func)
                    elif r.kind == "value":
                        out.extend(self._value_funcs(r, _seen))
        return out

    # ------------------------------------------------------------------
    def reachable(self, roots, stop=()):
        seen = set()
        dq = deque(roots)
        while dq:
            k = dq.popleft()
            if k in seen or k in stop:
                continue
            seen.add(k)
            dq.extend(self.edges.get(k, ()))
        return seen

    def path(self, src, dst, stop=()):
        """one shortest path of keys src..dst or None"""
        prev = {src: None}
        dq = deque([src])
        while dq:
            k = dq.popleft()
            if k == dst:
                out = []
                while k is not None:
                    out.append(k)
                    k = prev[k]
                return list(reversed(out))
            for nx in self.edges.get(k, ()):
                if nx not in prev and nx not in stop:
                    prev[nx] = k
                    dq.append(nx)
        return None

    def all_paths(self, src, dst, limit=50, maxlen=12):
        out = []

        def rec(k, acc):
            if len(out) >= limit or len(acc) > maxlen:
                return
            if k == dst:
                out.append(list(acc))
                return
            for nx in sorted(self.edges.get(k, ())):
                if nx in acc:
                    continue
                acc.append(nx)
                rec(nx, acc)
                acc.pop()

        rec(src, [src])
        return out

    def callers(self, key):
        return [k for k, v in self.edges.items() if key in v]


def _accepts(method, call):
    """can this call bind to the method's signature (receiver = self)?  A by-name candidate that cannot is not a callee:
    the call would raise TypeError before running any of it"""
    a = method.node.args
    if any(isinstance(x, ast.Starred) for x in call.args) or any(k.arg is None for k in call.keywords):
        return True
    deco = [norm(d) for d in method.node.decorator_list]
    pos = [x.arg for x in a.posonlyargs + a.args]
    if "staticmethod" not in deco:
        pos = pos[1:]
    npos = len(call.args)
    if npos > len(pos) and a.vararg is None:
        return False
    bound = set(pos[:npos])
    names = set(pos) | {x.arg for x in a.kwonlyargs}
    for k in call.keywords:
        if k.arg in bound or (k.arg not in names and a.kwarg is None):
            return False
        bound.add(k.arg)
    n_def = len(a.defaults)
    required = set(pos[:len(pos) - n_def] if n_def else pos) | {x.arg for x, d in zip(a.kwonlyargs, a.kw_defaults) if d is None}
    return required <= bound


def _plain_container_local(ref):
    """is every definition of this local a list/dict/set/tuple display, comprehension, or list()/dict()/tuple()/sorted() call?"""
    if not ref.entries:
        return False
    for kind, val in ref.entries:
        if kind != "assign" or not isinstance(val, ast.AST):
            return False
        if isinstance(val, (ast.List, ast.Dict, ast.Set, ast.Tuple, ast.ListComp, ast.DictComp, ast.SetComp)):
            continue
        if isinstance(val, ast.Call) and isinstance(val.func, ast.Name) and val.func.id in ("list", "dict", "set", "tuple", "sorted", "zip", "enumerate"):
            continue
        return False
    return True


def _is_type_test_arg(n):
    """is this Name/Attribute the class argument of isinstance/issubclass (no instantiation)?"""
    par = getattr(n, "_parent", None)
    if isinstance(par, ast.Tuple):
        par = getattr(par, "_parent", None)
    return (
        isinstance(par, ast.Call)
        and isinstance(par.func, ast.Name)
        and par.func.id in ("isinstance", "issubclass")
        and n is not par.func
    )


# ---------------------------------------------------------------------------
# guards


def _terminates(stmts):
    """does this block always leave the enclosing function/loop iteration?"""
    if not stmts:
        return False
    last = stmts[-1]
    if isinstance(last, (ast.Return, ast.Raise, ast.Continue, ast.Break)):
        return True
    if isinstance(last, ast.If):
        return _terminates(last.body) and _terminates(last.orelse)
    return False


def guards_of(node, func_node):
    """conditions that must hold for ``node`` to execute, as [(test expr, polarity)]:
    enclosing ``if`` branches, conditional expressions, and earlier sibling
    statements of the form ``if c: <always exits>`` (-> not c)."""
    out = []
    prev = node
    for p in parents(node):
        if p is func_node:
            # early exits among the function's top-level statements
            body = getattr(p, "body", None)
            if isinstance(body, list):
                out.extend(_early_exits(body, prev))
            break
        if isinstance(p, ast.If):
            if _in(prev, p.body):
                out.append((p.test, True))
                out.extend(_early_exits(p.body, prev))
            elif _in(prev, p.orelse):
                out.append((p.test, False))
                out.extend(_early_exits(p.orelse, prev))
        elif isinstance(p, ast.IfExp):
            if prev is p.body:
                out.append((p.test, True))
            elif prev is p.orelse:
                out.append((p.test, False))
        elif isinstance(p, ast.BoolOp):
            idx = [i for i, v in enumerate(p.values) if v is prev]
            if idx:
                for v in p.values[: idx[0]]:
                    out.append((v, isinstance(p.op, ast.And)))
        elif isinstance(p, (ast.For, ast.While, ast.With, ast.Try, ast.ExceptHandler, ast.AsyncFor, ast.AsyncWith)):
            for blockname in ("body", "orelse", "finalbody"):
                block = getattr(p, blockname, None)
                if isinstance(block, list) and _in(prev, block):
                    out.extend(_early_exits(block, prev))
            if isinstance(p, ast.While) and _in(prev, p.body):
                out.append((p.test, True))
        prev = p
    return out


def _in(node, block):
    return any(node is s for s in block)


def _early_exits(block, upto):
    out = []
    for st in block:
        if st is upto:
            break
        if isinstance(st, ast.If):
            if _terminates(st.body) and not _terminates(st.orelse):
                out.append((st.test, False))
            elif st.orelse and _terminates(st.orelse) and not _terminates(st.body):
                out.append((st.test, True))
    return out


def guard_mentions(guards, name, polarity=True):
    """is there a guard that is exactly ``name`` (polarity True) / ``not name``?"""
    for test, pol in guards:
        t, p = test, pol
        while isinstance(t, ast.UnaryOp) and isinstance(t.op, ast.Not):
            t, p = t.operand, not p
        if isinstance(t, ast.Name) and t.id == name and p == polarity:
            return True
        if isinstance(t, ast.BoolOp) and isinstance(t.op, ast.And) and p and polarity:
            for v in t.values:
                if isinstance(v, ast.Name) and v.id == name:
                    return True
        if isinstance(t, ast.Compare) and len(t.ops) == 1 and isinstance(t.left, ast.Name) and t.left.id == name:
            c = t.comparators[0]
            if isinstance(c, ast.Constant) and isinstance(c.value, bool):
                if isinstance(t.ops[0], (ast.Is, ast.Eq)) and (c.value == p) == polarity:
                    return True
                if isinstance(t.ops[0], (ast.IsNot, ast.NotEq)) and (c.value != p) == polarity:
                    return True
    return False


# ---------------------------------------------------------------------------
# exception handlers

EXC_PARENTS = {
    "JSONDecodeError": "ValueError", "json.JSONDecodeError": "ValueError", "json.decoder.JSONDecodeError": "ValueError",
    "UnicodeDecodeError": "ValueError", "UnicodeError": "ValueError",
    "ValueError": "Exception", "KeyError": "LookupError", "IndexError": "LookupError", "LookupError": "Exception",
    "TypeError": "Exception", "AttributeError": "Exception", "RuntimeError": "Exception", "NotImplementedError": "RuntimeError",
    "FileNotFoundError": "OSError", "PermissionError": "OSError", "IsADirectoryError": "OSError", "NotADirectoryError": "OSError",
    "FileExistsError": "OSError", "IOError": "OSError", "EnvironmentError": "OSError", "OSError": "Exception",
    "ExceptionGroup": "Exception", "StopIteration": "Exception", "ArithmeticError": "Exception",
    "ZeroDivisionError": "ArithmeticError", "OverflowError": "ArithmeticError", "AssertionError": "Exception",
    "NameError": "Exception", "ImportError": "Exception", "ModuleNotFoundError": "ImportError",
    "Exception": "BaseException", "KeyboardInterrupt": "BaseException", "SystemExit": "BaseException",
    "construct.ConstructError": "Exception", "StreamError": "construct.ConstructError",
}


def exc_names(repo, scope, typ):
    """names of the classes an ``except`` clause catches (resolved), [] for bare except -> ['BaseException']"""
    if typ is None:
        return ["BaseException"]
    elts = typ.elts if isinstance(typ, ast.Tuple) else [typ]
    out = []
    for e in elts:
        r = repo.resolve_expr(scope, e)
        if r.kind == "class":
            out.append(("repo", r.mod, r.node))
        elif r.kind == "external":
            fq = r.fq
            if fq.startswith("builtins."):
                fq = fq[len("builtins."):]
            out.append(fq)
        else:
            d = norm(e)
            out.append(d)
    return out


def superclasses(repo, name):
    """transitive superclass names of an exception class (name or ('repo', mod, node))"""
    out = []
    seen = set()
    cur = [name]
    while cur:
        n = cur.pop()
        if isinstance(n, tuple):
            _, mod, node = n
            label = f"{mod.name}.{node.name}"
            if label in seen:
                continue
            seen.add(label)
            out.append(label)
            for b in node.bases:
                r = repo.resolve_expr(mod, b)
                if r.kind == "class":
                    cur.append(("repo", r.mod, r.node))
                elif r.kind == "external":
                    fq = r.fq[len("builtins."):] if r.fq.startswith("builtins.") else r.fq
                    cur.append(fq)
                else:
                    cur.append(norm(b))
        else:
            if n in seen:
                continue
            seen.add(n)
            out.append(n)
            short = n.split(".")[-1]
            p = EXC_PARENTS.get(n) or EXC_PARENTS.get(short)
            if p:
                cur.append(p)
    return out


def catches(repo, scope, handler, raised):
    """does ``except <handler.type>`` catch an exception of class ``raised``
    (a builtin/external name or ('repo', mod, node))?"""
    caught = exc_names(repo, scope, handler.type)
    sup = superclasses(repo, raised)
    sup_short = {s.split(".")[-1] for s in sup} | set(sup)
    for c in caught:
        if isinstance(c, tuple):
            label = f"{c[1].name}.{c[2].name}"
            if label in sup:
                return True
        else:
            if c in sup_short or c.split(".")[-1] in sup_short:
                return True
    return False


def enclosing_handlers(node, func_node):
    """try statements whose *body* contains node, innermost first"""
    out = []
    prev = node
    for p in parents(node):
        if p is func_node:
            break
        if isinstance(p, ast.Try) and _in(prev, p.body):
            out.append(p)
        prev = p
    return out


def handler_reraises(handler):
    """does every path through the handler end in raise?"""
    return _always_raises(handler.body)


def _always_raises(stmts):
    if not stmts:
        return False
    last = stmts[-1]
    if isinstance(last, ast.Raise):
        return True
    if isinstance(last, ast.If):
        return _always_raises(last.body) and _always_raises(last.orelse)
    return False
