"""E5 -- regex literals as finite languages / per-position character classes.

Works on ``re._parser.parse`` trees of regex *literals extracted from the AST*.
"""

from __future__ import annotations

import ast
import itertools
import re
import re._constants as sc
import re._parser as sp

from .core import AnalysisError, const_str

CAP = 50000


def charset(items):
    out = set()
    neg = False
    for op, av in items:
        if op is sc.NEGATE:
            neg = True
        elif op is sc.LITERAL:
            out.add(chr(av))
        elif op is sc.RANGE:
            out.update(chr(c) for c in range(av[0], av[1] + 1))
        elif op is sc.CATEGORY:
            if av is sc.CATEGORY_DIGIT:
                out.update("0123456789")
            else:
                return None
        else:
            return None
    return None if neg else out


def lang(seq):
    """finite language of a parsed (sub)pattern as a set, or None (infinite / too large)"""
    cur = {""}
    for op, av in seq:
        if op is sc.LITERAL:
            nxt = {chr(av)}
        elif op is sc.IN:
            nxt = charset(av)
        elif op is sc.BRANCH:
            parts = [lang(b) for b in av[1]]
            nxt = None if any(p is None for p in parts) else set().union(*parts)
        elif op is sc.SUBPATTERN:
            nxt = lang(av[3])
        elif op in (sc.MAX_REPEAT, sc.MIN_REPEAT):
            lo, hi, body = av
            b = lang(body)
            if b is None or hi is sc.MAXREPEAT or len(b) ** max(hi, 1) > CAP:
                nxt = None
            else:
                nxt = set()
                for n in range(lo, hi + 1):
                    nxt.update("".join(t) for t in itertools.product(sorted(b), repeat=n))
        else:
            return None
        if nxt is None or len(cur) * len(nxt) > CAP:
            return None
        cur = {a + b for a in cur for b in nxt}
    return cur


def posclasses(seq):
    """fixed-width pattern -> list of per-position character sets (exact as a cover:
    L(seq) is contained in their product); None when not fixed width / unsupported"""
    out = []
    for op, av in seq:
        if op is sc.LITERAL:
            out.append({chr(av)})
        elif op is sc.IN:
            cs = charset(av)
            if cs is None:
                return None
            out.append(cs)
        elif op is sc.SUBPATTERN:
            sub = posclasses(av[3])
            if sub is None:
                return None
            out.extend(sub)
        elif op is sc.BRANCH:
            vecs = [posclasses(b) for b in av[1]]
            if any(v is None for v in vecs) or len({len(v) for v in vecs}) != 1:
                return None
            out.extend([set().union(*col) for col in zip(*vecs)])
        elif op in (sc.MAX_REPEAT, sc.MIN_REPEAT):
            lo, hi, body = av
            if lo != hi:
                return None
            sub = posclasses(body)
            if sub is None:
                return None
            out.extend(sub * lo)
        else:
            return None
    return out


def is_product_of_classes(seq):
    """is L(seq) exactly the product of its per-position classes (no alternation of multi-char strings)?"""
    for op, av in seq:
        if op in (sc.LITERAL, sc.IN):
            continue
        if op is sc.SUBPATTERN:
            if not is_product_of_classes(av[3]):
                return False
        elif op in (sc.MAX_REPEAT, sc.MIN_REPEAT):
            if av[0] != av[1] or not is_product_of_classes(av[2]):
                return False
        else:
            return False
    return True


class Regex:
    def __init__(self, pattern, where=""):
        self.pattern = pattern
        self.where = where
        try:
            self.tree = sp.parse(pattern)
        except re.error as e:
            raise AnalysisError(f"regex literal at {where} does not parse: {e}")
        self.names = {v: k for k, v in self.tree.state.groupdict.items()}
        self.groups = {}
        self._collect(self.tree, optional=False)
        self.compiled = re.compile(pattern)

    def _collect(self, seq, optional):
        for op, av in seq:
            if op is sc.SUBPATTERN:
                gid, _, _, body = av
                if gid in self.names:
                    self.groups[self.names[gid]] = {
                        "body": body, "lang": lang(body), "width": body.getwidth(), "classes": posclasses(body),
                        "optional": optional, "product": is_product_of_classes(body),
                    }
                self._collect(body, optional)
            elif op is sc.BRANCH:
                for b in av[1]:
                    self._collect(b, True)
            elif op in (sc.MAX_REPEAT, sc.MIN_REPEAT):
                self._collect(av[2], optional or av[0] == 0)

    def ends_anchored(self):
        if not self.tree.data:
            return False
        op, av = self.tree.data[-1]
        return op is sc.AT and av in (sc.AT_END_STRING,)

    def width(self):
        return self.tree.getwidth()


def compiled_regexes(module):
    """module-level NAME = re.compile(<literal>[, flags]) -> {name: Regex}"""
    out = {}
    for name, exprs in module.assigns.items():
        for e in exprs:
            if isinstance(e, ast.Call) and isinstance(e.func, ast.Attribute) and e.func.attr == "compile" and e.args:
                lit = const_str(e.args[0])
                if lit is None:
                    raise AnalysisError(f"{module.name}:{name}: regex is not a string literal")
                flags = 0
                if len(e.args) > 1 or e.keywords:
                    flagexpr = e.args[1] if len(e.args) > 1 else e.keywords[0].value
                    txt = ast.unparse(flagexpr)
                    for fl, val in (("VERBOSE", re.VERBOSE), ("X", re.VERBOSE), ("IGNORECASE", re.IGNORECASE), ("I", re.IGNORECASE), ("DOTALL", re.DOTALL), ("MULTILINE", re.MULTILINE)):
                        if txt.endswith("." + fl) or ("." + fl + " ") in txt or ("." + fl + "|") in txt.replace(" ", ""):
                            flags |= val
                pat = lit
                if flags & re.VERBOSE and not lit.lstrip().startswith("(?x"):
                    pat = "(?x)" + lit
                if flags & re.IGNORECASE:
                    pat = "(?i)" + pat
                out[name] = Regex(pat, f"{module.name}:{name}")
    return out
