"""effect sites (receiver-aware): file-system writes and reads, locks, stores"""

from __future__ import annotations

import ast

from .core import norm, parents, short

FS_WRITE_METHODS = {
    "write_text", "write_bytes", "mkdir", "unlink", "rename", "replace", "rmdir", "touch",
    "symlink_to", "hardlink_to", "chmod", "makedirs", "mkdirs", "rm", "rm_file", "mv", "put", "put_file",
    "pipe_file", "cp", "copy", "cp_file", "write", "writelines", "truncate", "setxattr", "rmtree",
    "move", "remove", "removedirs", "savez", "save", "tofile", "dump", "to_netcdf", "to_zarr",
}
FS_WRITE_FUNCS = {
    "os.remove", "os.unlink", "os.rename", "os.replace", "os.mkdir", "os.makedirs", "os.rmdir",
    "os.truncate", "os.symlink", "os.link", "os.chmod", "shutil.rmtree", "shutil.move", "shutil.copy",
    "shutil.copyfile", "shutil.copy2", "shutil.copytree", "tempfile.mkstemp", "tempfile.mkdtemp",
    "tempfile.NamedTemporaryFile", "tempfile.TemporaryFile", "tempfile.TemporaryDirectory",
    "pickle.dump", "json.dump", "numpy.save", "numpy.savez", "numpy.savetxt",
}
FS_READ_METHODS = {
    "read", "seek", "readinto", "readline", "readlines", "cat", "cat_file", "cat_ranges", "read_text",
    "read_bytes", "is_file", "exists", "is_dir", "stat", "info", "ls", "glob", "iterdir", "isfile",
    "isdir", "getmtime", "size", "sizes", "head", "tail", "read_block", "get", "get_file", "du",
}
MUTATING_METHODS = {
    "append", "extend", "insert", "pop", "popitem", "clear", "update", "setdefault", "remove",
    "add", "discard", "sort", "reverse", "__setitem__", "__delitem__",
}
MEMO_DECORATORS = {"lru_cache", "cache", "cached_property", "memoize", "cachedmethod", "cached"}


class Effect:
    def __init__(self, kind, node, func, detail):
        self.kind = kind
        self.node = node
        self.func = func
        self.detail = detail

    @property
    def where(self):
        return f"{self.func.module.relpath}:{self.func.qualname}"

    def __repr__(self):
        return f"<{self.kind} {self.where}: {short(self.node, 70)}>"


def _mode_of(call):
    mode = None
    if len(call.args) >= 2 and isinstance(call.args[1], ast.Constant):
        mode = call.args[1].value
    for k in call.keywords:
        if k.arg == "mode" and isinstance(k.value, ast.Constant):
            mode = k.value.value
        elif k.arg == "mode":
            mode = "?"
    return mode


def is_mapper_expr(repo, fi, expr):
    """is expr the product mapper (a parameter named mapper, or derived from fsspec.get_mapper)?"""
    if isinstance(expr, ast.Name):
        if expr.id == "mapper" or expr.id.endswith("mapper"):
            return True
        lb = fi.local_bindings().get(expr.id, [])
        for kind, val in lb:
            if kind == "assign" and isinstance(val, ast.Call):
                r = repo.resolve_expr(fi, val.func)
                if r.kind == "external" and r.fq.endswith("get_mapper"):
                    return True
    if isinstance(expr, ast.Attribute) and isinstance(expr.value, ast.Name) and expr.value.id == "self" and (expr.attr == "mapper" or expr.attr.endswith("mapper")):
        return True  # the mapper kept on an object of the package
    if isinstance(expr, ast.Call):
        r = repo.resolve_expr(fi, expr.func)
        if r.kind == "external" and r.fq.endswith("get_mapper"):
            return True
    return False


def scan(repo, fi):
    """-> [Effect] in the function's own activation (lambdas included)"""
    out = []
    for n in fi.own_nodes(include_lambdas=False):
        if isinstance(n, ast.Call):
            f = n.func
            if isinstance(f, ast.Attribute):
                base = repo.resolve_expr(fi, f.value)
                fq = None
                r = repo.resolve_expr(fi, f)
                if r.kind == "external":
                    fq = r.fq
                if fq in FS_WRITE_FUNCS:
                    out.append(Effect("fs_write", n, fi, fq))
                    continue
                if fq and (fq.startswith("json.") or fq.startswith("numpy.") or fq.startswith("math.") or fq.startswith("re.")
                           or fq.startswith("tlz.") or fq.startswith("toolz.") or fq.startswith("itertools.")
                           or fq.startswith("datetime.") or fq.startswith("copy.") or fq.startswith("posixpath.")
                           or fq.startswith("hashlib.") or fq.startswith("operator.") or fq.startswith("dateutil.")):
                    continue
                if base.kind == "module":
                    continue
                if r.kind == "func":
                    continue  # a method of the package (on self or on a provable instance): the call graph follows it
                m = f.attr
                if m == "open":
                    mode = _mode_of(n)
                    w = isinstance(mode, str) and any(c in mode for c in "wax+")
                    out.append(Effect("fs_write" if w or mode == "?" else "fs_open", n, fi, f"open mode={mode!r}"))
                    continue
                if m == "pipe":
                    # Dataset.pipe(func) / toolz.pipe are not fs.pipe(path, bytes)
                    first = n.args[0] if n.args else None
                    fr = repo.resolve_expr(fi, first) if first is not None else None
                    if fr is not None and fr.kind in ("func", "class") or isinstance(first, ast.Lambda):
                        continue
                    out.append(Effect("fs_write", n, fi, "fs.pipe"))
                    continue
                if m in ("replace", "rename") and len(n.args) >= 2:
                    continue  # str.replace(old, new)
                if m in FS_WRITE_METHODS:
                    # list.remove / set.add style container methods are MUTATING, not fs
                    if m in ("remove", "copy", "move", "save", "dump", "write", "writelines", "truncate", "put", "cp", "mv", "rm"):
                        if _is_plain_container(repo, fi, f.value):
                            continue
                    out.append(Effect("fs_write", n, fi, f".{m}()"))
                    continue
                if m in FS_READ_METHODS:
                    if m in ("get", "info", "size", "ls", "head", "tail", "stat", "glob"):
                        # dict.get etc.: only an fs read when the receiver looks like a filesystem
                        if not _looks_like_fs(f.value):
                            continue
                    if m == "read" or m == "seek" or _looks_like_fs(f.value) or m in ("read_text", "read_bytes", "is_file", "exists", "is_dir", "cat", "cat_file", "readinto", "readline", "readlines"):
                        out.append(Effect("fs_read", n, fi, f".{m}()"))
                    continue
                if m == "acquire":
                    out.append(Effect("lock", n, fi, ".acquire()"))
            elif isinstance(f, ast.Name):
                r = repo.resolve_name(fi, f.id)
                if r.kind == "external":
                    if r.fq == "builtins.open":
                        mode = _mode_of(n)
                        w = isinstance(mode, str) and any(c in mode for c in "wax+")
                        out.append(Effect("fs_write" if w or mode == "?" else "fs_open", n, fi, f"open mode={mode!r}"))
                    elif r.fq in FS_WRITE_FUNCS:
                        out.append(Effect("fs_write", n, fi, r.fq))
        elif isinstance(n, ast.Subscript):
            if is_mapper_expr(repo, fi, n.value):
                if isinstance(n.ctx, ast.Load):
                    out.append(Effect("mapper_read", n, fi, "mapper[...]"))
                else:
                    out.append(Effect("fs_write", n, fi, "mapper[...] store/delete"))
        elif isinstance(n, ast.Compare):
            for op, c in zip(n.ops, n.comparators):
                if isinstance(op, (ast.In, ast.NotIn)) and is_mapper_expr(repo, fi, c):
                    out.append(Effect("mapper_probe", n, fi, "in mapper"))
        elif isinstance(n, (ast.With, ast.AsyncWith)):
            for it in n.items:
                e = it.context_expr
                txt = norm(e)
                if "lock" in txt.lower() and not isinstance(e, ast.Call):
                    out.append(Effect("lock", n, fi, f"with {txt}"))
                elif not isinstance(e, ast.Call) and sync_object(repo, fi, e):
                    out.append(Effect("lock", n, fi, f"with {txt} ({sync_object(repo, fi, e)})"))
        elif isinstance(n, ast.Global):
            out.append(Effect("global_decl", n, fi, ",".join(n.names)))
    return out


SYNC_CTORS = {"threading.Lock", "threading.RLock", "threading.Semaphore", "threading.BoundedSemaphore", "threading.Condition", "_thread.allocate_lock",
              "multiprocessing.Lock", "multiprocessing.RLock", "multiprocessing.Semaphore", "multiprocessing.BoundedSemaphore", "asyncio.Lock", "asyncio.Semaphore",
              "xarray.backends.locks.SerializableLock", "dask.utils.SerializableLock"}


def sync_object(repo, fi, expr, _depth=0):
    """the synchronisation primitive a name denotes (module-level object created by a threading / multiprocessing constructor), or None"""
    if _depth > 3:
        return None
    if isinstance(expr, ast.Name):
        try:
            r = repo.resolve_name(fi, expr.id)
        except Exception:
            return None
        if r.kind == "value" and len(r.exprs) == 1 and isinstance(r.exprs[0], ast.Call):
            c = r.exprs[0]
            rr = repo.resolve_expr(r.mod, c.func) if isinstance(c.func, (ast.Name, ast.Attribute)) else None
            if rr is not None and rr.kind == "external" and rr.fq in SYNC_CTORS:
                return rr.fq
    return None


def decorator_locks(repo, fi):
    """locks a function acquires around its whole body through a decorator of the package: @deco(<sync object>) where deco's
    wrapper runs the function inside `with <that parameter>:` -> [description]"""
    out = []
    for d in getattr(fi.node, "decorator_list", []):
        if not isinstance(d, ast.Call) or not isinstance(d.func, (ast.Name, ast.Attribute)):
            continue
        try:
            r = repo.resolve_expr(fi.module, d.func)
        except Exception:
            continue
        if r.kind != "func":
            continue
        deco = r.func
        params = deco.positional_params
        bound = dict(zip(params, d.args))
        bound.update({k.arg: k.value for k in d.keywords if k.arg})
        for w in ast.walk(deco.node):
            if isinstance(w, (ast.With, ast.AsyncWith)):
                for it in w.items:
                    e = it.context_expr
                    if isinstance(e, ast.Name) and e.id in bound:
                        kind = sync_object(repo, fi.module, bound[e.id])
                        if kind or "lock" in norm(bound[e.id]).lower():
                            out.append(f"@{norm(d)[:50]} holds {norm(bound[e.id])} ({kind or 'lock'}) around the call")
    return out


def _looks_like_fs(expr):
    txt = norm(expr).lower()
    return txt in ("fs", "self.fs", "mapper.fs", "f", "file", "fh", "fileobj") or txt.endswith(".fs") or txt.endswith("fs")


def _is_plain_container(repo, fi, expr):
    """receiver is visibly a list/set/dict literal-built local"""
    if isinstance(expr, ast.Name):
        for kind, val in fi.local_bindings().get(expr.id, []):
            if kind == "assign" and isinstance(val, (ast.List, ast.Dict, ast.Set, ast.ListComp, ast.DictComp, ast.SetComp)):
                return True
            if kind == "assign" and isinstance(val, ast.Call) and isinstance(val.func, ast.Name) and val.func.id in ("list", "dict", "set"):
                return True
    return False


def stores(repo, fi):
    """attribute / item stores and in-place mutations in the function's own activation
    -> [(kind, target root name, node)]  kind: attr_store | item_store | mutate | global_store"""
    out = []
    globals_declared = set()
    for n in fi.own_nodes(include_lambdas=False):
        if isinstance(n, ast.Global):
            globals_declared.update(n.names)
    for n in fi.own_nodes(include_lambdas=False):
        targets = []
        if isinstance(n, ast.Assign):
            targets = n.targets
        elif isinstance(n, (ast.AugAssign, ast.AnnAssign)):
            targets = [n.target]
        elif isinstance(n, ast.Delete):
            targets = n.targets
        elif isinstance(n, (ast.For, ast.AsyncFor)):
            targets = [n.target]
        elif isinstance(n, (ast.With, ast.AsyncWith)):
            targets = [it.optional_vars for it in n.items if it.optional_vars is not None]
        flat = []
        for t in targets:
            if isinstance(t, (ast.Tuple, ast.List)):
                flat.extend(t.elts)
            else:
                flat.append(t)
        for t in flat:
            if isinstance(t, ast.Starred):
                t = t.value
            root = t
            while isinstance(root, (ast.Attribute, ast.Subscript)):
                root = root.value
            rootname = root.id if isinstance(root, ast.Name) else None
            if isinstance(t, ast.Attribute):
                out.append(("attr_store", rootname, t, n))
            elif isinstance(t, ast.Subscript):
                out.append(("item_store", rootname, t, n))
            elif isinstance(t, ast.Name) and t.id in globals_declared:
                out.append(("global_store", t.id, t, n))
        if isinstance(n, ast.AugAssign) and isinstance(n.target, ast.Name) and isinstance(n.op, (ast.BitOr, ast.Add, ast.BitAnd, ast.Sub, ast.BitXor)) \
                and (isinstance(n.value, (ast.Dict, ast.List, ast.Set, ast.DictComp, ast.ListComp, ast.SetComp))
                     or (isinstance(n.value, ast.Call) and isinstance(n.value.func, ast.Name) and n.value.func.id in ("dict", "list", "set"))):
            # x |= {...} / x += [...] updates the object x refers to in place (dict, list, set): every alias sees it
            out.append(("mutate", n.target.id, n.target, n))
        if isinstance(n, ast.Call) and isinstance(n.func, ast.Attribute) and n.func.attr in MUTATING_METHODS:
            root = n.func.value
            while isinstance(root, (ast.Attribute, ast.Subscript)):
                root = root.value
            rootname = root.id if isinstance(root, ast.Name) else None
            out.append(("mutate", rootname, n.func, n))
        if isinstance(n, ast.Call) and isinstance(n.func, ast.Name) and n.func.id == "setattr" and n.args:
            root = n.args[0]
            rootname = root.id if isinstance(root, ast.Name) else None
            out.append(("attr_store", rootname, n, n))
    return out


def memo_decorators(fi):
    out = []
    node = fi.node
    for d in getattr(node, "decorator_list", []):
        target = d.func if isinstance(d, ast.Call) else d
        name = target.attr if isinstance(target, ast.Attribute) else getattr(target, "id", None)
        if name in MEMO_DECORATORS:
            out.append(norm(d))
    return out
