"""E11 -- model evaluation of the cache codec: caching.encode composed with caching.decode on model hierarchies.

The two halves of the codec live in different modules and only their composition is what the property is about
(C08: "encoding an image group to the JSON index and decoding it again reproduces every variable and attribute exactly";
C07: what a cache hit returns; C10: the tree handed to the writer is the tree handed to the caller).  The checker's own
interpreter (vlib/shapes.py; nothing of the package is imported or run) evaluates

    text = caching.encode(group)           encode_hierarchy, preprocess, json.dumps
    back = caching.decode(text, rpc)       json.loads(object_hook=postprocess), decode_hierarchy

on model hierarchies built by the package's own constructors (Group.__post_init__, _adjust_item are evaluated too) with

  json.dumps / json.loads   a model of what JSON can carry: dicts with string keys, lists (a tuple BECOMES a list), strings,
                            numbers, booleans, null; anything else is the TypeError json raises.  loads applies the object
                            hook bottom-up to every object, as the standard library does
  numpy                     arrays are symbolic: a dtype and a term over the variable's original values
                            (astype / tolist / item 0 / difference / sum / np.array(list, dtype)); the algebra below says
                            which compositions are exact (int64 <-> timedelta64, list of python numbers <-> array of the same
                            dtype, str(datetime64[u]) <-> np.array(str, datetime64[u]), ref + (x - ref) == x)
  fsspec.get_mapper, DirFileSystem, Array
                            recording stubs

The verdict compares the decoded hierarchy with the original: paths, urls, names and their order, dims, attributes (a tuple
stays a tuple, a list a list, at every depth), the array terms (must simplify to the original values with the original
dtype), the pixel array's wiring - and the original hierarchy with a snapshot taken before encoding (the encoder does not
change what it is given: open_image returns that very tree).
"""
from __future__ import annotations

import re
from collections import OrderedDict

from .shapes import Const, DictS, Fn, Interp, ListLit, NonTermination, Obj, ShapeError, TupS, _Raise

CACHING = "ceos_alos2.sar_image.caching"
ENC = CACHING + ".encoders"
DEC = CACHING + ".decoders"
HIER = "ceos_alos2.hierarchy"
TYPE_ERROR = ["TypeError", "Exception", "BaseException", "object"]


# ------------------------------------------------------------------ symbolic numpy
def np_kind(dtype):
    d = dtype.lstrip("<>=|")
    if d.startswith(("datetime64", "M8")):
        return "M"
    if d.startswith(("timedelta64", "m8")):
        return "m"
    if d.startswith(("uint", "u")) and not d.startswith("unicode"):
        return "u"
    if d.startswith(("int", "i")):
        return "i"
    if d.startswith(("float", "f")):
        return "f"
    if d.startswith(("complex", "c")):
        return "c"
    if d.startswith(("bool", "?", "b1")):
        return "b"
    if d.startswith(("U", "str", "<U")):
        return "U"
    if d.startswith(("S", "bytes")):
        return "S"
    if d.startswith(("O", "object")):
        return "O"
    raise ShapeError(f"dtype {dtype!r} is not modelled")


def np_units(dtype):
    """the unit of a datetime64 / timedelta64 dtype, multiplier included: 'ns', '25us'"""
    m = re.search(r"\[(\d*[A-Za-z]+)\]", dtype)
    return m.group(1) if m else "generic"


def split_units(u):
    m = re.fullmatch(r"(\d*)([A-Za-z]+)", u)
    if not m or m.group(2) not in UNIT_ORDER:
        raise ShapeError(f"time unit {u!r}")
    return int(m.group(1) or 1), m.group(2)


def canonical_dtype(d):
    """one spelling per dtype, for the comparison"""
    d = d.lstrip("<>=|")
    table = {"i8": "int64", "i4": "int32", "i2": "int16", "i1": "int8", "u8": "uint64", "u4": "uint32", "u2": "uint16", "u1": "uint8",
             "f8": "float64", "f4": "float32", "f2": "float16", "c8": "complex64", "c16": "complex128", "?": "bool", "b1": "bool", "int": "int64", "float": "float64"}
    d = table.get(d, d)
    d = re.sub(r"^M8", "datetime64", d)
    d = re.sub(r"^m8", "timedelta64", d)
    return d


class NP:
    """the numpy namespace handed to the codec modules"""

    def __init__(self, I):
        self.I = I

    def dtype_obj(self, name):
        name = canonical_dtype(name)
        o = Obj("dtype", OrderedDict(name=Const(name), kind=Const(np_kind(name)), str=Const(name)))
        o.fields["__str__"] = Const(name)
        return o

    def dtype_name(self, d):
        if isinstance(d, Const) and isinstance(d.v, str):
            return canonical_dtype(d.v)
        if isinstance(d, Obj) and d.cls == "dtype":
            return d.fields["name"].v
        if isinstance(d, Fn) and d.kind == "lib" and d.name in ("builtins.int", "builtins.float", "builtins.bool", "builtins.str"):
            return {"int": "int64", "float": "float64", "bool": "bool", "str": "U"}[d.name.split(".")[1]]
        raise ShapeError(f"dtype given as {d!r:.60}")

    def arr(self, dtype, term, scalar=False):
        dtype = canonical_dtype(dtype)
        o = Obj("ndarray" if not scalar else "npscalar", OrderedDict(dtype=self.dtype_obj(dtype), term=Const(term)))
        o.fields["astype"] = Fn("py", impl=lambda I, a, kw, o=o: self.astype(o, a, kw), name="astype")
        o.fields["view"] = Fn("py", impl=lambda I, a, kw, o=o: self.astype(o, a, kw, op="view"), name="view")
        o.fields["tolist"] = Fn("py", impl=lambda I, a, kw, o=o: self.tolist(o), name="tolist")
        o.fields["item"] = Fn("py", impl=lambda I, a, kw, o=o: self.tolist(o), name="item")
        o.fields["__getitem__"] = Fn("py", impl=lambda I, a, kw, o=o: self.getitem(o, a[0]), name="__getitem__")
        o.fields["__binop__"] = Fn("py", impl=lambda I, a, kw, o=o: self.binop(o, a[0].v, a[1], a[2].v), name="__binop__")
        o.fields["__str__"] = Const(("str", term, dtype))
        return o

    @staticmethod
    def is_arr(v):
        return isinstance(v, Obj) and v.cls in ("ndarray", "npscalar")

    @staticmethod
    def of(v):
        return v.fields["dtype"].fields["name"].v, v.fields["term"].v

    def astype(self, o, a, kw, op="astype"):
        to = self.dtype_name(a[0] if a else kw.get("dtype"))
        d, t = self.of(o)
        if to == d:
            return o
        if "payload" in o.fields:
            raise ShapeError("cast of an object array")
        return self.arr(to, (op, to, d, t), scalar=o.cls == "npscalar")

    def tolist(self, o):
        if "payload" in o.fields:
            return deep_copy(o.fields["payload"])
        d, t = self.of(o)
        return self.pyvalues(("tolist", d, t), d)

    def pyvalues(self, term, d):
        v = Obj("pyvalues", OrderedDict(term=Const(term), of=Const(d)))
        # sorted(values) / reversed(values): the same numbers in another order
        v.fields["__sorted__"] = Fn("py", impl=lambda I, a, kw, term=term, d=d: self.pyvalues(("reordered", a[0].v, term), d), name="__sorted__")
        return v

    def getitem(self, o, k):
        d, t = self.of(o)
        if isinstance(k, Const) and k.v == 0:
            return self.arr(d, ("item0", t), scalar=True)
        raise ShapeError(f"array subscript {k!r:.40} is not modelled")

    def binop(self, o, opname, other, reflected):
        if not self.is_arr(other):
            raise ShapeError(f"array {opname} {other!r:.40} is not modelled")
        (d1, t1), (d2, t2) = self.of(o), self.of(other)
        if reflected:
            (d1, t1), (d2, t2) = (d2, t2), (d1, t1)
        k1, k2 = np_kind(d1), np_kind(d2)
        if opname == "Sub" and k1 == "M" and k2 == "M":
            u = _finer(np_units(d1), np_units(d2))
            return self.arr(f"timedelta64[{u}]", ("sub", t1, t2))
        if opname == "Add" and {k1, k2} == {"M", "m"}:
            u = _finer(np_units(d1), np_units(d2))
            (tm, dm), (td, dd) = ((t1, d1), (t2, d2)) if k1 == "M" else ((t2, d2), (t1, d1))
            if np_units(dm) != u:
                tm = ("astype", f"datetime64[{u}]", dm, tm)
            if np_units(dd) != u:
                td = ("astype", f"timedelta64[{u}]", dd, td)
            return self.arr(f"datetime64[{u}]", ("add", tm, td))
        raise ShapeError(f"array arithmetic {d1} {opname} {d2} is not modelled")

    # -- functions
    def asarray(self, I, a, kw):
        v = a[0]
        dt = kw.get("dtype", a[1] if len(a) > 1 else None)
        if self.is_arr(v):
            if dt is None or (isinstance(dt, Const) and dt.v is None):
                return v
            return self.astype(v, [dt], {})
        if isinstance(v, Obj) and v.cls == "pylist":
            # a plain python list held by a variable: numpy infers the dtype the model says
            base = self.arr(v.fields["dtype"].v, v.fields["term"].v)
            return base if dt is None or (isinstance(dt, Const) and dt.v is None) else self.astype(base, [dt], {})
        if isinstance(v, (ListLit, TupS)) and (dt is None or (isinstance(dt, Const) and dt.v is None) or self.dtype_name(dt) == "object"):
            # a python list of dicts / tuples (the nested structs of level 1.1 line records): an object array holding them
            if not any(isinstance(x, (DictS, TupS, ListLit)) for x in v.elts):
                raise ShapeError("np.array of a plain python list of scalars: the inferred dtype is not modelled")
            o = self.arr("object", ("lit",))
            o.fields["payload"] = deep_copy(v) if isinstance(v, ListLit) else ListLit([deep_copy(x) for x in v.elts])
            return o
        if isinstance(v, Obj) and v.cls == "pyvalues":
            if dt is None:
                raise ShapeError("np.array(<decoded list>) without a dtype: the inferred dtype is not modelled")
            to = self.dtype_name(dt)
            return self.arr(to, ("fromlist", to, v.fields["term"].v))
        if isinstance(v, Obj) and v.cls == "pystr":
            if dt is None:
                raise ShapeError("np.array(<decoded str>) without a dtype")
            to = self.dtype_name(dt)
            return self.arr(to, ("parse", to, v.fields["term"].v), scalar=True)
        raise ShapeError(f"np.array({v!r:.60}) is not modelled")

    def datetime_data(self, I, a, kw):
        d = self.dtype_name(a[0])
        if np_kind(d) not in "Mm":
            raise _Raise("TypeError: cannot get datetime metadata from non-datetime type", TYPE_ERROR)
        count, base = split_units(np_units(d))
        return TupS([Const(base), Const(count)])

    def dtype(self, I, a, kw):
        return self.dtype_obj(self.dtype_name(a[0]))

    def namespace(self):
        fns = {"asarray": self.asarray, "array": self.asarray, "asanyarray": self.asarray, "datetime_data": self.datetime_data, "dtype": self.dtype}
        ns = Obj("numpy", OrderedDict((k, Fn("py", impl=v, name=f"np.{k}")) for k, v in fns.items()))
        for name in ("int64", "int32", "float64", "float32", "bool_", "uint8", "uint16", "uint32", "uint64", "int8", "int16", "float16"):
            ns.fields[name] = Const(canonical_dtype(name.rstrip("_")))
        ns.fields["datetime64"] = Fn("py", impl=lambda I, a, kw: self.asarray(I, [a[0]], {"dtype": Const(f"datetime64[{a[1].v}]" if len(a) > 1 else "datetime64")}), name="np.datetime64")
        ns.fields["timedelta64"] = Fn("py", impl=lambda I, a, kw: self.asarray(I, [a[0]], {"dtype": Const(f"timedelta64[{a[1].v}]" if len(a) > 1 else "timedelta64")}), name="np.timedelta64")
        return ns


UNIT_ORDER = ["Y", "M", "W", "D", "h", "m", "s", "ms", "us", "ns", "ps", "fs", "as"]


def _finer(u1, u2):
    """the unit numpy promotes to"""
    if u1 == u2:
        return u1
    (c1, b1), (c2, b2) = split_units(u1), split_units(u2)
    if b1 == b2:
        import math
        g = math.gcd(c1, c2)
        return b1 if g == 1 else f"{g}{b1}"
    if c1 == 1 and c2 == 1:
        return max(b1, b2, key=UNIT_ORDER.index)
    raise ShapeError(f"promotion of time units {u1}, {u2} is not modelled")


EXACT_LIST_KINDS = "biufU"


def simplify(term):
    """normal form of an array term; only exact identities are applied"""
    if not isinstance(term, tuple):
        return term
    term = tuple(simplify(x) if isinstance(x, tuple) else x for x in term)
    op = term[0]
    if op == "fromlist":
        to, inner = term[1], term[2]
        if isinstance(inner, tuple) and inner[0] == "tolist":
            d, t = inner[1], inner[2]
            # python ints / floats / bools / strs carry every value of the numpy type they came from
            if canonical_dtype(d) == to and np_kind(d) in EXACT_LIST_KINDS:
                return t
            # int64 list -> timedelta64[u]: the integer is the count of units
            if np_kind(to) == "m" and d == "int64" and isinstance(t, tuple) and t[0] in ("astype", "view") and t[1] == "int64" and canonical_dtype(t[2]) == to:
                return t[3]
            if np_kind(to) == "M" and d == "int64" and isinstance(t, tuple) and t[0] in ("astype", "view") and t[1] == "int64" and canonical_dtype(t[2]) == to:
                return t[3]
    if op == "parse":
        to, inner = term[1], term[2]
        if isinstance(inner, tuple) and inner[0] == "str" and np_kind(to) == "M" and canonical_dtype(inner[2]) == to:
            return inner[1]  # str(datetime64[u]) prints every digit of the unit; parsed with the same unit it is the same instant
    if op == "add":
        a, b = term[1], term[2]
        for x, y in ((a, b), (b, a)):
            if isinstance(y, tuple) and y[0] == "sub" and y[2] == x and not _missing_first(x):
                return y[1]  # ref + (x - ref) in integer arithmetic
    return term


NAT_FIRST = set()   # model variables whose first element may be missing (NaT)


def _missing_first(term):
    """is this the first element of a variable whose first element may be NaT?  NaT - x and NaT + x are NaT"""
    if isinstance(term, tuple):
        if term[0] == "item0" and isinstance(term[1], tuple) and term[1][0] == "var" and term[1][1] in NAT_FIRST:
            return True
        return any(_missing_first(x) for x in term[1:])
    return False


def dtype_of_source(term, sources):
    return sources.get(term)


# ------------------------------------------------------------------ JSON
class NotJSON(Exception):
    pass


def to_json(v, where="$", sort_keys=False):
    """the value json.dumps writes and a reader gets back (before object hooks)"""
    if sort_keys:
        return _sorted_keys(to_json(v, where))
    if isinstance(v, Const):
        if v.v is None or isinstance(v.v, (str, int, float, bool)):
            return Const(v.v)
        if isinstance(v.v, (tuple, list)):
            return ListLit([to_json(Const(x), where) for x in v.v])
        raise NotJSON(f"{where}: Object of type {type(v.v).__name__} is not JSON serializable")
    if isinstance(v, (ListLit, TupS)):
        return ListLit([to_json(x, f"{where}[{i}]") for i, x in enumerate(v.elts)])
    if isinstance(v, DictS):
        out = DictS()
        for k, x in v.items.items():
            if isinstance(k, (str,)):
                out.items[k] = to_json(x, f"{where}.{k}")
            elif k is None or isinstance(k, (int, float, bool)):
                out.items[{None: "null", True: "true", False: "false"}.get(k, str(k)) if isinstance(k, (bool, type(None))) else str(k)] = to_json(x, f"{where}.{k}")
            else:
                raise NotJSON(f"{where}: keys must be str, int, float, bool or None, not {type(k).__name__}")
        return out
    if isinstance(v, Obj) and v.cls == "pyvalues":
        d = v.fields["of"].v
        if np_kind(d) in "Mm":
            # tolist() of a datetime64/timedelta64 array gives datetime objects (or ints for ns): not what the index stores
            raise NotJSON(f"{where}: the list of a {d} array holds datetime objects, which JSON cannot carry")
        if np_kind(d) in "cSO":
            raise NotJSON(f"{where}: the list of a {d} array holds values JSON cannot carry")
        return v
    if isinstance(v, Obj) and v.cls == "pystr":
        return v
    if isinstance(v, Obj):
        raise NotJSON(f"{where}: Object of type {v.cls} is not JSON serializable")
    raise ShapeError(f"{where}: json.dumps of {v!r:.60}")


def _sorted_keys(v):
    if isinstance(v, ListLit):
        return ListLit([_sorted_keys(x) for x in v.elts])
    if isinstance(v, DictS):
        return DictS(OrderedDict((k, _sorted_keys(v.items[k])) for k in sorted(v.items)))
    return v


def from_json(I, v, hook):
    if isinstance(v, ListLit):
        return ListLit([from_json(I, x, hook) for x in v.elts])
    if isinstance(v, DictS):
        d = DictS(OrderedDict((k, from_json(I, x, hook)) for k, x in v.items.items()))
        if hook is not None:
            return I.call(hook, [d], {}, None)
        return d
    return v


# ------------------------------------------------------------------ model hierarchies
ATTRS = OrderedDict([
    ("units", Const("µs")),
    ("count", Const(2 ** 63 - 1)),
    ("ratio", Const(0.1)),
    ("flag", Const(True)),
    ("nothing", Const(None)),
    ("list", ListLit([Const(1), ListLit([Const(2), Const("x")]), TupS([Const(3), Const(4)])])),
    ("tuple", TupS([Const("a"), TupS([Const("b")]), ListLit([Const("c")])])),
    ("nested", DictS(OrderedDict([("inner", TupS([Const(1.5), Const(2)])), ("deep", DictS(OrderedDict([("t", TupS([]))])))]))),
])

VARIABLES = [
    # name, dims (python value), dtype, held as
    ("time", ["rows"], "datetime64[ns]", "ndarray"),
    ("time_us", ("rows",), "datetime64[us]", "pylist"),
    ("delta", ["rows"], "timedelta64[ms]", "ndarray"),
    ("step", ["rows"], "timedelta64[25us]", "ndarray"),
    ("tick", ["rows"], "datetime64[25us]", "ndarray"),
    ("line", ["rows"], "int32", "ndarray"),
    ("big", ["rows"], "int64", "pylist"),
    ("ubig", ["rows"], "uint64", "ndarray"),
    ("half", ["rows"], "float16", "ndarray"),
    ("value", ("rows", "columns"), "float64", "ndarray"),
    ("ok", ["rows"], "bool", "ndarray"),
    ("label", ["rows"], "U7", "ndarray"),
    ("scalar", [], "float32", "ndarray"),
    # per-line nested structs of level 1.1 records: a python list of dicts of (value, attrs) pairs
    ("attitude", ["rows"], "object", "objlist"),
]

OBJECT_PAYLOAD = ListLit([DictS(OrderedDict([("pitch", TupS([Const(0.25), DictS(OrderedDict(units=Const("deg")))])), ("yaw", TupS([Const(-1.5), DictS(OrderedDict(units=Const("deg")))]))])),
                          DictS(OrderedDict([("pitch", TupS([Const(0.5), DictS(OrderedDict(units=Const("deg")))])), ("yaw", TupS([Const(2.0), DictS(OrderedDict(units=Const("deg")))]))]))])


def deep_copy(v):
    if isinstance(v, ListLit):
        return ListLit([deep_copy(x) for x in v.elts])
    if isinstance(v, TupS):
        return TupS([deep_copy(x) for x in v.elts])
    if isinstance(v, DictS):
        return DictS(OrderedDict((k, deep_copy(x)) for k, x in v.items.items()))
    return v


def py_const(x):
    if isinstance(x, list):
        return ListLit([py_const(y) for y in x])
    if isinstance(x, tuple):
        return TupS([py_const(y) for y in x])
    return Const(x)


class Model:
    def __init__(self, repo, paths=("HH_scan3",), nested=True):
        self.repo = repo
        self.I = I = Interp(repo)
        I.real_hierarchy = True
        self.np = NP(I)
        self.calls = []
        self.sources = {}
        hier = repo.module(HIER)
        self.hsc = I.module_scope(hier)
        for m in (ENC, DEC, CACHING):
            sc = I.module_scope(repo.module(m))
            sc.vars["np"] = self.np.namespace()
            sc.vars["numpy"] = sc.vars["np"]
        self._install_json()
        self._install_fs()
        self._install_str()

    # -- stubs
    def _install_json(self):
        I = self.I

        def dumps(I_, a, kw):
            opts = {}
            for k, v in kw.items():
                if k in ("indent", "separators", "check_circular"):
                    continue  # layout of the text only
                if k in ("sort_keys", "ensure_ascii", "allow_nan", "skipkeys") and isinstance(v, Const):
                    opts[k] = v.v
                    continue
                raise ShapeError(f"json.dumps(..., {k}=...) is not modelled")
            try:
                doc = to_json(a[0], sort_keys=bool(opts.get("sort_keys")))
            except NotJSON as e:
                raise _Raise(f"TypeError: {e}", TYPE_ERROR)
            self.calls.append(("json.dumps", doc, opts))
            return Obj("JSONText", OrderedDict(doc=doc))

        def loads(I_, a, kw):
            t = a[0]
            if not (isinstance(t, Obj) and t.cls == "JSONText"):
                raise ShapeError(f"json.loads of {t!r:.60}")
            extra = set(kw) - {"object_hook"}
            if extra:
                raise ShapeError(f"json.loads with {sorted(extra)}")
            return from_json(I, t.fields["doc"], kw.get("object_hook"))
        js = Obj("json", OrderedDict(dumps=Fn("py", impl=dumps, name="json.dumps"), loads=Fn("py", impl=loads, name="json.loads")))
        js.fields["JSONDecodeError"] = Fn("lib", name="json.JSONDecodeError")
        I.module_scope(self.repo.module(CACHING)).vars["json"] = js

    def _install_fs(self):
        I = self.I
        dsc = I.module_scope(self.repo.module(DEC))

        def get_mapper(I_, a, kw):
            root = a[0] if a else kw.get("url")
            self.calls.append(("get_mapper", root))
            return Obj("Mapper", OrderedDict(root=root, fs=Obj("InnerFS", OrderedDict(of=root))))
        dsc.vars["fsspec"] = Obj("fsspec", OrderedDict(get_mapper=Fn("py", impl=get_mapper, name="fsspec.get_mapper")))

        def dirfs(I_, a, kw):
            args = dict(zip(["path", "fs"], a))
            args.update(kw)
            return Obj("DirFileSystem", OrderedDict(path=args.get("path"), fs=args.get("fs")))
        self.dirfs = Fn("py", impl=dirfs, name="DirFileSystem")
        dsc.vars["DirFileSystem"] = self.dirfs

        def array(I_, a, kw):
            if a:
                raise ShapeError("Array(...) called with positional arguments in the decoder")
            self.calls.append(("Array", dict(kw)))
            o = Obj("Array", OrderedDict(kw), klass=self.array_klass)
            return o
        r = self.repo.resolve_module_name(self.repo.module(DEC), "Array")
        if r.kind != "class":
            raise ShapeError("decoders.Array does not resolve to the Array class")
        self.array_klass = (r.mod, r.node)
        self.array_ctor = Fn("classctor", cls=r.node, mod=r.mod, name="Array")
        stub = Fn("py", impl=array, name="Array")
        dsc.vars["Array"] = stub

    def _install_str(self):
        from .shapes_lib import builtin

        def mk_str(I_, a, kw):
            if a and isinstance(a[0], Obj) and "__str__" in a[0].fields:
                s = a[0].fields["__str__"]
                if isinstance(s.v, str):
                    return Const(s.v)
                return Obj("pystr", OrderedDict(term=Const(s.v)))
            return builtin(I_, "str", a, kw, None, _no_override=True)
        ov = dict(getattr(self.I, "builtin_overrides", None) or {})
        ov["str"] = mk_str
        self.I.builtin_overrides = ov

    # -- construction through the package's constructors
    def ctor(self, name):
        return self.I.lookup(name, self.hsc)

    def variable(self, name, dims, dtype, held, prefix=""):
        src = ("var", prefix + name)
        self.sources[src] = canonical_dtype(dtype)
        if held == "objlist":
            data = deep_copy(OBJECT_PAYLOAD)
        elif held == "ndarray":
            data = self.np.arr(dtype, src)
        else:
            data = Obj("pylist", OrderedDict(dtype=Const(canonical_dtype(dtype)), term=Const(src), __plain_list__=Const(True)))
        return self.I.call(self.ctor("Variable"), [], OrderedDict(dims=py_const(dims), data=data, attrs=deep_copy(DictS(OrderedDict(list(ATTRS.items())[:3] + [("of", Const(name))])))))

    def pixel_array(self, url):
        fs = Obj("DirFileSystem", OrderedDict(path=Const("/data/product"), fs=Obj("InnerFS", OrderedDict(of=Const("/data/product")))))
        byte_ranges = ListLit([TupS([Const(920 + 100 * i), Const(1000 + 100 * i)]) for i in range(4)])
        return Obj("Array", OrderedDict(fs=fs, url=Const(url), byte_ranges=byte_ranges, shape=TupS([Const(6), Const(40)]), dtype=self.np.dtype_obj("uint16"), type_code=Const("IU2"),
                                        records_per_chunk=Const(2)), klass=self.array_klass)

    def image_group(self, path, url="IMG-HH-ALOS2012345678-160229-WBDR1.1__D-B3", nested=False, nat_first=False):
        data = DictS()
        for name, dims, dtype, held in VARIABLES + ([("time_gap", ["rows"], "datetime64[ns]", "ndarray")] if nat_first else []):
            data.items[name] = self.variable(name, dims, dtype, held)
        data.items["data"] = self.I.call(self.ctor("Variable"), [], OrderedDict(dims=py_const(["rows", "columns"]), data=self.pixel_array(url), attrs=DictS()))
        if nested:
            sub = DictS()
            sub.items["inner_time"] = self.variable("time", ["rows"], "datetime64[s]", "ndarray", prefix="inner/")
            subsub = self.I.call(self.ctor("Group"), [], OrderedDict(path=Const(None), url=Const(None), data=DictS(OrderedDict(leaf=self.variable("line", ["x"], "int16", "ndarray", prefix="inner/deeper/"))), attrs=DictS(OrderedDict(level=Const(2)))))
            sub.items["deeper"] = subsub
            data.items["inner"] = self.I.call(self.ctor("Group"), [], OrderedDict(path=Const(None), url=Const("other"), data=sub, attrs=DictS(OrderedDict(level=Const(1)))))
        if nested:
            # a generated hierarchy: the constructor gives every member its path
            return self.I.call(self.ctor("Group"), [], OrderedDict(path=Const(path), url=Const("memory://product"), data=data, attrs=deep_copy(DictS(ATTRS))))
        g = self.I.call(self.ctor("Group"), [], OrderedDict(path=Const(None), url=Const("memory://product"), data=data, attrs=deep_copy(DictS(ATTRS))))
        # the reader names the image group after construction (sar_image.open_image: group.path = ...)
        g.fields["path"] = Const(path)
        return g


# ------------------------------------------------------------------ comparison
def describe(v, sources=None, depth=0):
    """a plain python description of a model value, equal exactly when the values are"""
    if isinstance(v, Const):
        x = v.v
        if isinstance(x, tuple):
            return ("tuple", tuple(describe(Const(y)) for y in x))
        if isinstance(x, list):
            return ("list", tuple(describe(Const(y)) for y in x))
        return (type(x).__name__, repr(x))
    if isinstance(v, ListLit):
        return ("list", tuple(describe(x, sources, depth + 1) for x in v.elts))
    if isinstance(v, TupS):
        return ("tuple", tuple(describe(x, sources, depth + 1) for x in v.elts))
    if isinstance(v, DictS):
        return ("dict", tuple((k, describe(x, sources, depth + 1)) for k, x in v.items.items()))
    if NP.is_arr(v) and "payload" in v.fields:
        return ("ndarray", "object", describe(v.fields["payload"], sources, depth + 1))
    if NP.is_arr(v):
        d, t = NP.of(v)
        return ("ndarray", d, simplify(t))
    if isinstance(v, Obj) and v.cls == "pylist":
        return ("ndarray", v.fields["dtype"].v, v.fields["term"].v)  # np.asarray of it: what xarray sees
    if isinstance(v, Obj) and v.cls == "dtype":
        return ("dtype", v.fields["name"].v)
    if isinstance(v, Obj) and v.cls == "Array":
        f = v.fields
        fs = f.get("fs")
        return ("Array", tuple((k, describe(f[k], sources, depth + 1)) for k in ("url", "byte_ranges", "shape", "type_code") if k in f),
                ("dtype", canonical_dtype(f["dtype"].v) if isinstance(f.get("dtype"), Const) and isinstance(f["dtype"].v, str) else describe(f.get("dtype"))[1] if isinstance(f.get("dtype"), Obj) else repr(f.get("dtype"))),
                ("root", describe(fs.fields.get("path")) if isinstance(fs, Obj) and fs.cls == "DirFileSystem" else repr(fs)[:40]))
    if isinstance(v, Obj) and v.cls == "Variable":
        # data held as a python list of objects is what np.asarray makes of it (an object array of the same members)
        return (v.cls, tuple((k, ("ndarray", "object", describe(x, sources, depth + 1)) if k == "data" and isinstance(x, ListLit) else describe(x, sources, depth + 1))
                             for k, x in v.fields.items() if not isinstance(x, Fn)))
    if isinstance(v, Obj) and v.cls == "Group":
        return (v.cls, tuple((k, describe(x, sources, depth + 1)) for k, x in v.fields.items() if not isinstance(x, Fn)))
    if isinstance(v, Obj):
        return (v.cls, tuple((k, describe(x, sources, depth + 1)) for k, x in v.fields.items() if not isinstance(x, Fn) and depth < 6))
    return ("?", repr(v)[:60])


def differences(a, b, where="", out=None, limit=12):
    """human-readable differences between two descriptions (original a, decoded b)"""
    out = [] if out is None else out
    if len(out) >= limit:
        return out
    if a == b:
        return out
    if isinstance(a, tuple) and isinstance(b, tuple) and a and b and a[0] == b[0] and a[0] in ("Group", "Variable", "dict", "Array") and len(a) > 1 and isinstance(a[1], tuple):
        ka, kb = [k for k, _ in a[1]], [k for k, _ in b[1]]
        if ka != kb:
            if sorted(map(str, ka)) == sorted(map(str, kb)):
                out.append(f"{where or 'the root'}: order {ka} became {kb}")
            else:
                out.append(f"{where or 'the root'}: entries {ka} became {kb}")
        db = dict(b[1])
        for k, x in a[1]:
            if k in db:
                differences(x, db[k], f"{where}/{k}" if where else str(k), out, limit)
        for extra_a, extra_b in zip(a[2:], b[2:]):
            if extra_a != extra_b:
                out.append(f"{where}: {extra_a} became {extra_b}")
        return out
    if isinstance(a, tuple) and isinstance(b, tuple) and a and b and a[0] == b[0] and a[0] in ("list", "tuple") and len(a[1]) == len(b[1]):
        for i, (x, y) in enumerate(zip(a[1], b[1])):
            differences(x, y, f"{where}[{i}]", out, limit)
        return out
    if isinstance(a, tuple) and isinstance(b, tuple) and a and b and a[0] == b[0] == "ndarray":
        if a[1] != b[1]:
            out.append(f"{where}: values of dtype {a[1]} come back as {b[1]}")
            return out
        if a[1] == "object":
            return differences(a[2], b[2], where, out, limit)  # python objects held by the array: compared member by member
        why = lossy_reason(b[2])
        if why is None:
            out.append(Undecided(f"{where}: the values come back as {_show(b[2])}; whether that composition is exact is not decided by the array algebra"))
        else:
            out.append(f"{where}: {why}")
        return out
    out.append(f"{where or 'the root'}: {_show(a)} became {_show(b)}")
    return out


class Undecided(str):
    pass


BITS = {"int8": 8, "int16": 16, "int32": 32, "int64": 64, "uint8": 8, "uint16": 16, "uint32": 32, "uint64": 64, "float16": 11, "float32": 24, "float64": 53, "bool": 1}


def lossy_reason(term):
    """a step of the term that provably loses information for some value of its source type, or None"""
    if not isinstance(term, tuple):
        return None
    op = term[0]
    if op in ("astype", "view") and len(term) == 4:
        to, frm = term[1], term[2]
        kt, kf = np_kind(to), np_kind(frm)
        if kt in "Mm" and kf in "Mm" and np_units(to) != np_units(frm) and _finer(np_units(to), np_units(frm)) == np_units(frm):
            return f"{frm} values are converted to {to}: everything below one {np_units(to)} is dropped"
        if kt == "f" and kf in "iumM" and BITS.get(to, 53) < BITS.get(frm, 64):
            return f"{frm} values pass through {to}: integers beyond 2**{BITS.get(to, 53)} are rounded"
        if kt in "iu" and kf == "f":
            return f"{frm} values are converted to {to}: fractions, NaN and infinities are lost"
        if kt in "iu" and kf in "iu" and (BITS.get(to, 64) < BITS.get(frm, 64) or (kt != kf and BITS.get(to, 64) <= BITS.get(frm, 64))):
            return f"{frm} values are converted to {to}: values outside its range wrap around"
        if kt == "f" and kf == "f" and BITS.get(to, 53) < BITS.get(frm, 53):
            return f"{frm} values are converted to {to}: precision is lost"
        if kt == "U" and kf != "U" or kt != "U" and kf == "U":
            return None
    if op == "fromlist":
        to, inner = term[1], term[2]
        if isinstance(inner, tuple) and inner[0] == "tolist":
            d = canonical_dtype(inner[1])
            if d != to:
                r = lossy_reason(("astype", to, d, inner[2]))
                if r:
                    return "the stored list is read back as " + to + ": " + r
    if op == "reordered":
        return f"the stored values are passed through {term[1]}(): they come back in another order than the lines they belong to"
    if op == "add" and any(_missing_first(x) for x in term[1:]):
        return "the values are stored as offsets from their first element; when that element is missing (NaT) every offset and every value read back is NaT"
    if op == "sub" and isinstance(term[2], tuple) and term[2][0] == "item0" and term[2][1] == term[1]:
        # x - x[0] that survived simplification: nothing on the way back added the first element again (ref + (x - ref) folds to x)
        return "the values are stored as offsets from their first element and read back without adding it again: every value comes back shifted by the first one"
    if op == "parse":
        to, inner = term[1], term[2]
        if isinstance(inner, tuple) and inner[0] == "str" and np_kind(to) == "M" and np_kind(inner[2]) == "M" and np_units(to) != np_units(inner[2]) and _finer(np_units(to), np_units(inner[2])) == np_units(inner[2]):
            return f"the reference instant of {inner[2]} is read back as {to}: everything below one {np_units(to)} is dropped"
    for x in term[1:]:
        r = lossy_reason(x)
        if r:
            return r
    return None


def _render(d):
    if isinstance(d, tuple) and len(d) == 2 and isinstance(d[1], str) and d[0] in ("str", "int", "float", "bool", "NoneType"):
        return d[1]
    if isinstance(d, tuple) and len(d) == 2 and d[0] in ("list", "tuple") and isinstance(d[1], tuple):
        inner = ", ".join(_render(x) for x in d[1])
        return f"[{inner}]" if d[0] == "list" else f"({inner}{',' if len(d[1]) == 1 else ''})"
    if isinstance(d, tuple) and len(d) == 2 and d[0] == "dict" and isinstance(d[1], tuple):
        return "{" + ", ".join(f"{k!r}: {_render(x)}" for k, x in d[1]) + "}"
    return repr(d)


def _show(d):
    s = _render(d)
    return s if len(s) <= 150 else s[:147] + "..."


# ------------------------------------------------------------------ runs
class Result:
    def __init__(self):
        self.outcome = None
        self.stage = None
        self.original = None
        self.snapshot = None
        self.after_encode = None
        self.decoded = None
        self.doc = None
        self.calls = []


def run_roundtrip(repo, path="HH_scan3", rpc=7, nested=False, nat_first=False, encode_extra=None):
    """nat_first: the hierarchy also has a datetime column whose first element may be missing (NaT); encode_extra: further (args, kwargs)
    of caching.encode, as another writer of index files (the stand-alone tool) passes them"""
    R = Result()
    NAT_FIRST.clear()
    if nat_first:
        NAT_FIRST.add("time_gap")
    try:
        M = Model(repo)
        R.calls = M.calls
        g = M.image_group(path, nested=nested, nat_first=nat_first)
    except (ShapeError, RecursionError, _Raise) as e:
        R.outcome, R.stage = f"undecided: building the model hierarchy with the package's constructors: {e}", "build"
        return R
    R.original = g
    R.snapshot = describe(g)
    I = M.I
    csc = I.module_scope(repo.module(CACHING))
    try:
        R.stage = "encode"
        extra_a, extra_kw = encode_extra if encode_extra is not None else ([], {})
        text = I.call(I.lookup("encode", csc), [g] + list(extra_a), OrderedDict(extra_kw))
        R.after_encode = describe(g)
        R.doc = text.fields.get("doc") if isinstance(text, Obj) else None
        R.stage = "decode"
        back = I.call(I.lookup("decode", csc), [text], OrderedDict(records_per_chunk=Const(rpc)))
        R.decoded = back
        R.outcome = "returned"
    except _Raise as e:
        R.outcome = f"raised: {e.what}"
    except NonTermination as e:
        R.outcome = f"nonterminating: {e}"
    except (ShapeError, RecursionError) as e:
        R.outcome = f"undecided: {e}"
    R.model = M
    return R


LOSSY = ("astype", "view", "fromlist", "parse", "sub", "add", "tolist", "str")


def judge(R, path, rpc):
    """-> [(key, ok, good, bad)]; ok None = undecided"""
    out = []
    if R.outcome is None or R.outcome.startswith("undecided") or R.outcome.startswith("nonterminating"):
        return [("evaluate", None, "", R.outcome)]
    if R.outcome.startswith("raised"):
        out.append(("total", False, "", f"{'encoding' if R.stage == 'encode' else 'decoding'} a hierarchy the reader can produce (group path {path!r}) fails: {R.outcome[8:][:200]}"))
        return out
    out.append(("total", True, f"encode and decode accept the model hierarchy (group path {path!r})", ""))
    # the encoder leaves its input alone
    diff = differences(R.snapshot, R.after_encode)
    out.append(("input-untouched", not diff, "encoding leaves the hierarchy it is given unchanged (open_image returns that very object after writing the cache)",
                "encoding changes the hierarchy it is given - the tree open_image returns after writing the cache differs from the tree of an open that writes none: " + "; ".join(diff[:3])))
    # the document is plain JSON: ensured by the json model (anything else raised above)
    # round trip
    back = describe(R.decoded)
    diff = differences(R.snapshot, back)
    arrays = [c[1] for c in R.calls if c[0] == "Array"]
    arr_ok = True
    if arrays:
        kw = arrays[-1]
        r = kw.get("records_per_chunk")
        if not (isinstance(r, Const) and r.v == rpc):
            diff.append(f"data: the decoded pixel array is chunked by records_per_chunk={r!r}, the caller of decode asked for {rpc}")
    undecided = [d for d in diff if isinstance(d, Undecided)]
    if undecided and len(undecided) == len(diff):
        out.append(("roundtrip", None, "", "; ".join(undecided[:3])))
        return out
    diff = [d for d in diff if not isinstance(d, Undecided)]
    out.append(("roundtrip", not diff, "decode(encode(g)) equals g: paths, urls, names in order, dims, attributes at every depth, array values and dtypes, the pixel array's file, ranges, shape and type code",
                "decode(encode(g)) differs from g: " + "; ".join(diff[:4])))
    return out
