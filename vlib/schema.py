"""output schema (with provenance) of the post-processing pipelines, derived by
shape inference, and its comparison with spec/schema_reference.json"""

from __future__ import annotations

import json
import os
from collections import OrderedDict

from .core import VERIF, AnalysisError
from .poly import Poly
from .records import Layouts
from .shapes import Choice, Const, DictS, Interp, Leaf, ListLit, ListOf, Obj, SetS, ShapeError, Top, TupS, _Raise, shape_of_con

SCHEMA_REF = os.path.join(VERIF, "spec", "schema_reference.json")


def desc(v, depth=0):
    """canonical description of a value shape"""
    if isinstance(v, Leaf):
        also = "".join("+" + ".".join(a) for a in v.also)
        ops = "".join("|" + o for o in v.ops)
        return f"{v.kind}:{'.'.join(v.src)}{also}{ops}"
    if isinstance(v, Const):
        return repr(v.v)
    if isinstance(v, ListOf):
        return f"[{desc(v.elem, depth + 1)}]*{v.n}"
    if isinstance(v, ListLit):
        return "[" + ", ".join(desc(x, depth + 1) for x in v.elts) + "]"
    if isinstance(v, TupS):
        return "(" + ", ".join(desc(x, depth + 1) for x in v.elts) + ")"
    if isinstance(v, SetS):
        return "{" + ", ".join(sorted(desc(x, depth + 1) for x in v.elts)) + "}"
    if isinstance(v, DictS):
        return "{" + ", ".join(f"{k!r}: {desc(x, depth + 1)}" for k, x in v.items.items()) + "}"
    if isinstance(v, Choice):
        return _choice_desc([(desc(a, depth + 1), l) for a, l in zip(v.alts, v.labels)])
    if isinstance(v, Top):
        return f"TOP({v.reason})"
    if isinstance(v, Obj):
        return f"<{v.cls}>"
    return f"<{type(v).__name__}>"


def _choice_desc(pairs):
    """[(description, label)] -> canonical text; equal descriptions merge their labels"""
    merged = []
    for d, l in pairs:
        for m in merged:
            if m[0] == d:
                if l:
                    m[1].append(l)
                break
        else:
            merged.append((d, [l] if l else []))
    if len(merged) == 1:
        return merged[0][0]
    return "choice(" + " | ".join(("[" + "|".join(sorted(set(ls))) + "] " if ls else "") + d for d, ls in merged) + ")"


def flatten(v, path="", out=None, opt=False):
    """Group/Variable tree (or plain attrs dict) -> {entry path: description}"""
    out = OrderedDict() if out is None else out
    q = "?" if opt else ""
    if isinstance(v, Choice):
        # alternatives of a whole subtree: flatten each under a discriminating label
        subs = []
        for a in v.alts:
            o = OrderedDict()
            flatten(a, path, o, opt)
            subs.append(o)
        keys = []
        for o in subs:
            for k in o:
                if k not in keys:
                    keys.append(k)
        for k in keys:
            out[k] = _choice_desc([(o.get(k, "<absent>"), l) for o, l in zip(subs, v.labels)])
        return out
    if isinstance(v, Obj) and v.cls == "Group":
        data = v.fields.get("data")
        attrs = v.fields.get("attrs")
        if isinstance(attrs, DictS):
            for k, x in attrs.items.items():
                out[f"{path}/@{k}{'?' if k in attrs.optional or opt else ''}"] = desc(x)
        elif attrs is not None:
            out[f"{path}/@*"] = desc(attrs)
        if isinstance(data, DictS):
            for k, x in data.items.items():
                flatten(x, f"{path}/{k}", out, opt or k in data.optional)
        elif data is not None:
            out[f"{path}/*"] = desc(data)
        return out
    if isinstance(v, Obj) and v.cls == "Variable":
        out[f"{path}{q}"] = f"var dims={desc(v.fields.get('dims'))} data={desc(v.fields.get('data'))}"
        attrs = v.fields.get("attrs")
        if isinstance(attrs, DictS):
            for k, x in attrs.items.items():
                out[f"{path}{q}@{k}"] = desc(x)
        return out
    if isinstance(v, DictS):
        for k, x in v.items.items():
            out[f"{path}/@{k}{'?' if k in v.optional or opt else ''}"] = desc(x)
        return out
    out[path or "/"] = desc(v)
    return out


class Pipelines:
    """runs the shape interpreter over the five post-processing entry points"""

    def __init__(self, repo, layouts=None):
        self.repo = repo
        self.L = layouts or Layouts(repo)
        self.I = Interp(repo, strict=False)
        self._results = None

    STRUCT_NAMES = ("leader", "volume", "lines:signal", "lines:processed", "header")  # fed by the record layouts
    NAMES = STRUCT_NAMES + ("summary",)

    def _call(self, modname, fname, arg):
        repo, I = self.repo, self.I
        f = I.resolve_global(repo.module(modname), fname)
        try:
            return I.call(f, [arg], {})
        except _Raise as e:
            raise AnalysisError(f"shape inference: {modname}:{fname} raises on the struct's own shape: {e.what}")
        except RecursionError:
            raise AnalysisError(f"shape inference: recursion limit in {modname}:{fname}")

    def get(self, name):
        """result shape of one pipeline (computed on demand, once)"""
        if self._results is None:
            self._results = OrderedDict()
        if name in self._results:
            return self._results[name]
        L = self.L
        if name == "leader":
            v = self._call("ceos_alos2.sar_leader.metadata", "transform_metadata", shape_of_con(L.con("leader")))
        elif name == "volume":
            v = self._call("ceos_alos2.volume_directory.metadata", "transform_record", shape_of_con(L.con("volume")))
        elif name.startswith("lines:"):
            rec = shape_of_con(L.con(name.split(":")[1]))
            v = self._call("ceos_alos2.sar_image.metadata", "transform_line_metadata", ListOf(rec, Poly.sym("n_lines")))
        elif name == "header":
            v = self._call("ceos_alos2.sar_image.metadata", "extract_attrs", shape_of_con(L.con("image_descriptor")))
        elif name == "summary":
            v = self._call("ceos_alos2.summary", "transform_summary", summary_model())
        else:
            raise KeyError(name)
        self._results[name] = v
        return v

    def run(self, names=None):
        return OrderedDict((n, self.get(n)) for n in (names or self.STRUCT_NAMES))

    def schemas(self, names=None):
        return OrderedDict((k, flatten(v)) for k, v in self.run(names).items())


# the summary file: a model with every keyword the section transformers single out, one keyword per section that
# goes through the section's default conversion, three images and two shape indices
SUMMARY_MODEL = OrderedDict([
    ("odi", ["SceneId", "Comment"]),
    ("scs", ["SceneID", "SceneShift"]),
    ("pds", ["ProductID", "ResamplingMethod", "UTM_ZoneNo", "MapDirection", "OrbitDataPrecision", "AttitudeDataPrecision", "PixelSpacing"]),
    ("img", ["SceneCenterDateTime", "SceneStartDateTime", "OffNadirAngle"]),
    ("pdi", ["ProductFormat", "BitPixel", "ProductDataSize", "CntOfL15ProductFileName",
             "L15ProductFileName01", "L15ProductFileName02", "L15ProductFileName03", "L15ProductFileName04", "L15ProductFileName05", "L15ProductFileName06",
             "NoOfPixels_0", "NoOfLines_0", "NoOfPixels_1", "NoOfLines_1", "NoOfPixels_2", "NoOfLines_2"]),
    ("ach", ["TimeCheck", "AttitudeCheck"]),
    ("rad", ["PracticeResultCode"]),
    ("lbi", ["ObservationDate", "ProcessFacility", "Sensor"]),
])


def summary_model(order=None):
    """shape of parse_summary's result for the model file: {section: {keyword: text}}; ``order`` permutes the keywords
    of a section (the positional contract of the ProductFileName lines is another rule's business: they keep their order)"""
    out = OrderedDict()
    for sec, keys in SUMMARY_MODEL.items():
        ks = list(keys)
        if order is not None:
            ks = order(sec, ks)
        out[sec] = DictS(OrderedDict((k, Leaf("str", (sec, k))) for k in ks))
    return DictS(out)


def dump_reference(repo):
    p = Pipelines(repo)
    return {"_comment": "output schema with provenance, bootstrapped from the pinned commit by shape inference; see DESIGN.md E3",
            "pipelines": p.schemas(p.NAMES)}


def load_reference():
    if not os.path.exists(SCHEMA_REF):
        raise AnalysisError(f"schema reference {SCHEMA_REF} missing")
    with open(SCHEMA_REF) as f:
        return json.load(f)["pipelines"]
