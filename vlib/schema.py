"""output schema (with provenance) of the post-processing pipelines, derived by
shape inference, and its comparison with spec/schema_reference.json"""

from __future__ import annotations

import json
import os
from collections import OrderedDict

from .core import VERIF, AnalysisError
from .poly import Poly
from .records import Layouts
from .shapes import Choice, Const, DictS, Interp, Leaf, ListLit, ListOf, Obj, SetS, ShapeError, Top, TupS, _Raise, shape_of_con

SCHEMA_REF = os.path.join(VERIF, "spec", "schema_reference.json")


def desc(v, depth=0):
    """canonical description of a value shape"""
    if isinstance(v, Leaf):
        also = "".join("+" + ".".join(a) for a in v.also)
        ops = "".join("|" + o for o in v.ops)
        return f"{v.kind}:{'.'.join(v.src)}{also}{ops}"
    if isinstance(v, Const):
        return repr(v.v)
    if isinstance(v, ListOf):
        return f"[{desc(v.elem, depth + 1)}]*{v.n}"
    if isinstance(v, ListLit):
        return "[" + ", ".join(desc(x, depth + 1) for x in v.elts) + "]"
    if isinstance(v, TupS):
        return "(" + ", ".join(desc(x, depth + 1) for x in v.elts) + ")"
    if isinstance(v, SetS):
        return "{" + ", ".join(sorted(desc(x, depth + 1) for x in v.elts)) + "}"
    if isinstance(v, DictS):
        return "{" + ", ".join(f"{k!r}: {desc(x, depth + 1)}" for k, x in v.items.items()) + "}"
    if isinstance(v, Choice):
        return _choice_desc([(desc(a, depth + 1), l) for a, l in zip(v.alts, v.labels)])
    if isinstance(v, Top):
        return f"TOP({v.reason})"
    if isinstance(v, Obj):
        return f"<{v.cls}>"
    return f"<{type(v).__name__}>"


def _choice_desc(pairs):
    """[(description, label)] -> canonical text; equal descriptions merge their labels"""
    merged = []
    for d, l in pairs:
        for m in merged:
            if m[0] == d:
                if l:
                    m[1].append(l)
                break
        else:
            merged.append((d, [l] if l else []))
    if len(merged) == 1:
        return merged[0][0]
    return "choice(" + " | ".join(("[" + "|".join(sorted(set(ls))) + "] " if ls else "") + d for d, ls in merged) + ")"


def flatten(v, path="", out=None, opt=False):
    """Group/Variable tree (or plain attrs dict) -> {entry path: description}"""
    out = OrderedDict() if out is None else out
    q = "?" if opt else ""
    if isinstance(v, Choice):
        # alternatives of a whole subtree: flatten each under a discriminating label
        subs = []
        for a in v.alts:
            o = OrderedDict()
            flatten(a, path, o, opt)
            subs.append(o)
        keys = []
        for o in subs:
            for k in o:
                if k not in keys:
                    keys.append(k)
        for k in keys:
            out[k] = _choice_desc([(o.get(k, "<absent>"), l) for o, l in zip(subs, v.labels)])
        return out
    if isinstance(v, Obj) and v.cls == "Group":
        data = v.fields.get("data")
        attrs = v.fields.get("attrs")
        if isinstance(attrs, DictS):
            for k, x in attrs.items.items():
                out[f"{path}/@{k}{'?' if k in attrs.optional or opt else ''}"] = desc(x)
        elif attrs is not None:
            out[f"{path}/@*"] = desc(attrs)
        if isinstance(data, DictS):
            for k, x in data.items.items():
                flatten(x, f"{path}/{k}", out, opt or k in data.optional)
        elif data is not None:
            out[f"{path}/*"] = desc(data)
        return out
    if isinstance(v, Obj) and v.cls == "Variable":
        out[f"{path}{q}"] = f"var dims={desc(v.fields.get('dims'))} data={desc(v.fields.get('data'))}"
        attrs = v.fields.get("attrs")
        if isinstance(attrs, DictS):
            for k, x in attrs.items.items():
                out[f"{path}{q}@{k}"] = desc(x)
        return out
    if isinstance(v, DictS):
        for k, x in v.items.items():
            out[f"{path}/@{k}{'?' if k in v.optional or opt else ''}"] = desc(x)
        return out
    out[path or "/"] = desc(v)
    return out


class Pipelines:
    """runs the shape interpreter over the five post-processing entry points"""

    def __init__(self, repo, layouts=None):
        self.repo = repo
        self.L = layouts or Layouts(repo)
        self.I = Interp(repo)
        self._results = None

    def run(self):
        if self._results is not None:
            return self._results
        repo, L, I = self.repo, self.L, self.I
        res = OrderedDict()

        def call(modname, fname, arg):
            f = I.resolve_global(repo.module(modname), fname)
            try:
                return I.call(f, [arg], {})
            except _Raise as e:
                raise AnalysisError(f"shape inference: {modname}:{fname} raises on the struct's own shape: {e.what}")
            except RecursionError:
                raise AnalysisError(f"shape inference: recursion limit in {modname}:{fname}")

        res["leader"] = call("ceos_alos2.sar_leader.metadata", "transform_metadata", shape_of_con(L.con("leader")))
        res["volume"] = call("ceos_alos2.volume_directory.metadata", "transform_record", shape_of_con(L.con("volume")))
        for key in ("signal", "processed"):
            rec = shape_of_con(L.con(key))
            res[f"lines:{key}"] = call("ceos_alos2.sar_image.metadata", "transform_line_metadata", ListOf(rec, Poly.sym("n_lines")))
        res["header"] = call("ceos_alos2.sar_image.metadata", "extract_attrs", shape_of_con(L.con("image_descriptor")))
        self._results = res
        return res

    def schemas(self):
        return OrderedDict((k, flatten(v)) for k, v in self.run().items())


def dump_reference(repo):
    p = Pipelines(repo)
    return {"_comment": "output schema with provenance, bootstrapped from the pinned commit by shape inference; see DESIGN.md E3",
            "pipelines": p.schemas()}


def load_reference():
    if not os.path.exists(SCHEMA_REF):
        raise AnalysisError(f"schema reference {SCHEMA_REF} missing")
    with open(SCHEMA_REF) as f:
        return json.load(f)["pipelines"]
