"""E2 -- reference layout: dump / load / compare.

The reference (spec/layout_reference.json) was bootstrapped from the pinned
commit and confirmed against the format's invariants (DESIGN section 3, E2).  The
comparison is semantic and keyed by field path: offset and width polynomials,
base codec, adapter chain (scale factors, enum tables, units), array strides.
"""
from __future__ import annotations

import json
import os
import re

from .core import VERIF, AnalysisError
from .records import STRUCTS, Layouts

REF_PATH = os.path.join(VERIF, "spec", "layout_reference.json")

PADDING_RE = re.compile(r"^(spare|blanks?|reserved)\d*$|^(system_reserve|local_use_segment)$")


def is_padding_name(name):
    return bool(PADDING_RE.match(name))


ADAPTER_SPECS = ("AsciiInteger", "AsciiFloat", "PaddedString", "StripNullBytes", "AsciiComplex")


def canon_codec(steps):
    """codec description for comparison: under one of the package's text / bytes adapters, HOW construct's own primitives are
    composed (PaddedString(n, enc) or StringEncoded(FixedSized(n, NullStripped(GreedyBytes))), Bytes or NullStripped(Bytes)) is
    not compared here - what the composition decodes to is decided by evaluating adapter and primitives together on field
    contents (T7 rules).  Without such an adapter on top the primitives are compared as they stand."""
    steps = list(steps)
    top = [s_ for s_ in steps if s_.split("(")[0] in ADAPTER_SPECS]
    if not top:
        return steps
    out = []
    for s_ in steps:
        name = s_.split("(")[0]
        if name in ("StringEncoded", "NullStripped"):
            continue
        if name in ("PaddedString",) and "enc=" in s_ and s_ is steps[-1]:
            out.append("<bytes>")
            continue
        if name == "Bytes" and s_ is steps[-1]:
            out.append("<bytes>")
            continue
        out.append(s_)
    return out


def leaf_record(lf):
    return {
        "path": lf.name,
        "kind": lf.kind,
        "offset": repr(lf.offset),
        "width": repr(lf.width) if lf.width is not None else None,
        "codec": lf.codec(),
        "strides": [[a, repr(c), repr(s)] for a, c, s in lf.strides],
        "padding": any(is_padding_name(p) for p in lf.path),
    }


def dump(repo):
    L = Layouts(repo)
    out = {"_comment": "reference layout bootstrapped from the pinned commit; see DESIGN.md E2", "records": {}}
    for key in STRUCTS:
        leaves, end, start = L.get(key)
        out["records"][key] = {
            "struct": list(STRUCTS[key]),
            "start": repr(start),
            "end": repr(end),
            "leaves": [leaf_record(lf) for lf in leaves],
        }
    return out


def load():
    if not os.path.exists(REF_PATH):
        raise AnalysisError(f"reference layout {REF_PATH} missing")
    with open(REF_PATH) as f:
        return json.load(f)


def compare(chk, rule, L, key, select=None, where_prefix=""):
    """compare the current layout of struct ``key`` with the reference.
    select(path) -> bool restricts to a sub-tree of the record."""
    ref = load()["records"][key]
    cur = L.by_name(key)
    modname, sname = STRUCTS[key]
    n = 0
    collapsed = set()  # composites that are now decoded as one field by the same scalar-producing adapter
    for r in ref["leaves"]:
        if select is not None and not select(r["path"]):
            continue
        if any(r["path"].startswith(c + ".") for c in collapsed):
            continue
        if r["padding"]:
            continue
        if r["kind"] == "duplicate":
            continue
        n += 1
        where = f"{modname}:{sname}.{r['path']}"
        lf = cur.get(r["path"])
        if lf is None:
            chk.fail(rule, where, f"MISSING: field {r['path']} of the reference layout no longer exists", key=f"{key}:{r['path']}:missing")
            continue
        now = leaf_record(lf)
        if {now["kind"], r["kind"]} == {"composite", "field"} and now["offset"] == r["offset"] and now["width"] == r["width"] \
                and now["codec"][0].split("(")[0] == r["codec"][0].split("(")[0] and r["codec"][0].split("(")[0] in ("AsciiComplex", "DatetimeYdms"):
            # same bytes, same scalar-producing adapter, different internal representation (struct of parts vs one text):
            # the adapter's own semantics are decided by the T4 / P3 rules
            collapsed.add(r["path"])
            chk.ok(rule, where, f"@{r['offset']} +{r['width']} {now['codec'][0]} (representation {r['kind']} -> {now['kind']})")
            continue
        diffs = []
        if now["offset"] != r["offset"]:
            diffs.append(f"MOVED: offset {r['offset']} -> {now['offset']}")
        if now["width"] != r["width"]:
            diffs.append(f"RESIZED: width {r['width']} -> {now['width']}")
        if now["kind"] != r["kind"]:
            diffs.append(f"RECODED: kind {r['kind']} -> {now['kind']}")
        if canon_codec(now["codec"]) != canon_codec(r["codec"]):
            tag = "REATTR" if _strip_attrs(now["codec"]) == _strip_attrs(r["codec"]) else "RECODED"
            diffs.append(f"{tag}: {r['codec']} -> {now['codec']}")
        if now["strides"] != r["strides"]:
            diffs.append(f"RESTRIDED: {r['strides']} -> {now['strides']}")
        if diffs:
            chk.fail(rule, where, "; ".join(diffs), key=f"{key}:{r['path']}:layout")
        else:
            chk.ok(rule, where, f"@{r['offset']} +{r['width']} {r['codec']}",
                   sample={"field": r["path"], "offset": r["offset"], "width": r["width"], "codec": r["codec"]} if n % 40 == 1 else None)
    # NEW surfacing leaves are reported, not violations
    refpaths = {r["path"] for r in ref["leaves"]}
    new = [p for p in cur if p not in refpaths and (select is None or select(p)) and not any(is_padding_name(x) for x in p.split("."))]
    if new:
        chk.note(f"{key}: fields not in the reference layout (uncovered, not a violation): {new[:20]}")
    return n


def _strip_attrs(codec):
    return [re.sub(r"\(.*\)$", "", c) if c.startswith("Metadata") else c for c in codec]
