"""shared rules over the open path (C06, C07, C09, C10, C18)"""

from __future__ import annotations

import ast

from . import effects
from .callgraph import (
    CallGraph, catches, enclosing_handlers, exc_names, guard_mentions, guards_of, handler_reraises, superclasses,
)
from .core import AnalysisError, norm, parents, short
from .dataflow import Flow, calls_in
from .interproc import bind_args, resolve_callees

OPTIONS = ("records_per_chunk", "use_cache", "create_cache")

ENTRY = "ceos_alos2.xarray:open_alos2"
IO_OPEN = "ceos_alos2.io:open"
OPEN_IMAGE = "ceos_alos2.sar_image:open_image"
READ_CACHE = "ceos_alos2.sar_image.caching:read_cache"
CREATE_CACHE = "ceos_alos2.sar_image.caching:create_cache"
CACHE_DECODE = "ceos_alos2.sar_image.caching:decode"
LOCAL_LOC = "ceos_alos2.sar_image.caching.path:local_cache_location"
REMOTE_LOC = "ceos_alos2.sar_image.caching.path:remote_cache_location"
CLI_CREATE = "ceos_alos2.sar_image.cli:create_cache"


class OpenPath:
    def __init__(self, repo):
        self.repo = repo
        self.g = CallGraph(repo)
        for k in (ENTRY, IO_OPEN, OPEN_IMAGE, READ_CACHE, CREATE_CACHE, LOCAL_LOC, REMOTE_LOC):
            if k not in self.g.funcs:
                raise AnalysisError(f"anchor vanished: function {k}")
        # what runs while *opening*: pixel loads (the lazy backend's __getitem__) happen later and are not part of it;
        # they are only reachable here through the by-name over-approximation of subscripts
        self.load_time = {"ceos_alos2.array:Array.__getitem__", "ceos_alos2.xarray:LazilyIndexedWrapper.__getitem__",
                          "ceos_alos2.xarray:LazilyIndexedWrapper._raw_indexing_method"}
        for k in sorted(self.load_time):
            try:
                self.load_time.add(repo.func(k).key)  # a method the class inherits from a base class of the package
            except AnalysisError:
                pass
        self.reach = self.g.reachable([ENTRY], stop=self.load_time)

    def fi(self, key):
        return self.g.funcs[key]

    def where(self, fi):
        return f"{fi.module.relpath}:{fi.qualname}"

    # ------------------------------------------------------------------ call sites
    def call_sites_of(self, callee_key, within=None):
        """[(caller FuncInfo, Call node, Callee)] for calls (incl. curry/partial bindings and
        references passed as values) to a repo function"""
        out = []
        for fi in self.g.funcs.values():
            if within is not None and fi.key not in within:
                continue
            if callee_key not in self.g.edges.get(fi.key, ()):
                continue
            found = False
            for c in calls_in(fi, include_lambdas=False):
                for cal in resolve_callees(self.repo, fi, c.func):
                    if cal.key == callee_key:
                        out.append((fi, c, cal, False))
                        found = True
                # curry(f, ...) / partial: the binding site
                r = self.repo.resolve_expr(fi, c.func) if isinstance(c.func, (ast.Name, ast.Attribute)) else None
                if r is not None and r.kind == "external" and r.fq.split(".")[-1] in ("curry", "partial") and c.args:
                    for cal in resolve_callees(self.repo, fi, c):
                        if cal.key == callee_key:
                            out.append((fi, c, cal, True))
                            found = True
            if not found:
                # referenced as a value only (passed to map/valmap/...): report the reference nodes
                for n in self.g.sites.get((fi.key, callee_key), []):
                    out.append((fi, n, None, None))
        return out

    # ------------------------------------------------------------------ guards
    def site_guarded(self, fi, node, option, polarity=True, _seen=None):
        """is ``node`` (in fi) executed only when ``option`` has truth ``polarity``?
        Either guarded locally by fi's own parameter, or fi is only ever called from
        guarded sites (recursively)."""
        _seen = _seen or set()
        if option in fi.params:
            gs = guards_of(node, fi.node)
            if guard_mentions(gs, option, polarity):
                return True
        if fi.key in _seen:
            return False
        _seen = _seen | {fi.key}
        callers = [(c, n) for c in self.g.callers(fi.key) if c in self.reach or c == CLI_CREATE
                   for n in self.g.sites.get((c, fi.key), [])]
        if not callers:
            return False
        for ckey, n in callers:
            cfi = self.g.funcs[ckey]
            if not self.site_guarded(cfi, n, option, polarity, _seen):
                return False
        return True


def exception_fate(op, chain_sites, raised):
    """follow an exception of class ``raised`` (builtin name or ('repo', mod, node)) raised at the
    innermost site up a call chain.
    chain_sites: [(FuncInfo, node)] innermost first (node = raising call in that frame).
    -> ("handled", FuncInfo, handler, raised_class) | ("escapes", raised_class)"""
    repo = op.repo
    cur = raised
    for fi, node in chain_sites:
        for tr in enclosing_handlers(node, fi.node):
            for h in tr.handlers:
                if catches(repo, fi, h, cur):
                    if handler_reraises(h):
                        last = h.body[-1]
                        if isinstance(last, ast.Raise):
                            if last.exc is None:
                                pass  # bare raise: same class continues
                            else:
                                exc = last.exc.func if isinstance(last.exc, ast.Call) else last.exc
                                r = repo.resolve_expr(fi, exc)
                                if r.kind == "class":
                                    cur = ("repo", r.mod, r.node)
                                elif r.kind == "external":
                                    cur = r.fq[len("builtins."):] if r.fq.startswith("builtins.") else r.fq
                                else:
                                    cur = norm(exc)
                        break  # continue with outer try statements of this frame
                    return ("handled", fi, h, cur)
    return ("escapes", cur)


def json_loads_sites(op):
    """call sites of json.loads/json.load reachable from open_image -> [(FuncInfo, Call)]"""
    out = []
    reach = op.g.reachable([OPEN_IMAGE])
    for k in reach:
        fi = op.g.funcs[k]
        for c in calls_in(fi, include_lambdas=False):
            r = op.repo.resolve_expr(fi, c.func) if isinstance(c.func, (ast.Name, ast.Attribute)) else None
            if r is not None and r.kind == "external" and r.fq in ("json.loads", "json.load", "json.JSONDecoder.decode"):
                out.append((fi, c))
    return out


def chains_to(op, src_key, dst_fi, dst_node):
    """call chains src..dst as lists of (FuncInfo, node) innermost first"""
    out = []
    for path in op.g.all_paths(src_key, dst_fi.key, limit=20, maxlen=8):
        # path: [src, ..., dst]; choose for each edge every call site
        frames = [[(dst_fi, dst_node)]]
        ok = True
        for a, b in reversed(list(zip(path, path[1:]))):
            sites = op.g.sites.get((a, b), [])
            if not sites:
                ok = False
                break
            frames.append([(op.g.funcs[a], s) for s in sites])
        if not ok:
            continue
        # cartesian product is tiny here; take each combination
        combos = [[]]
        for fr in frames:
            combos = [c + [x] for c in combos for x in fr]
        out.extend(combos)
    return out
