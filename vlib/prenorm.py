"""E0b -- source-level pre-normalisation (syntax-tree rewriting, nothing is executed).

The rules are anchored in the functions of the pinned tree (spec/functions_reference.json).  A refactoring that
extracts a helper, renames a private function or hoists a closure leaves behaviour alone but moves the anchors.
Before anything else looks at the package, every module's syntax tree is therefore rewritten:

  R  a reference function that vanished while exactly one *new* function of the same arity appeared in the same
     module (or as a closure <-> module-level function of the same parent) is the same function under a new name:
     the new name is renamed back everywhere it is used;
  I  a call to a *new* helper (a function the reference does not know) whose body is structured (assignments, if,
     with, a return in tail position) is replaced by the helper's body with the parameters bound to the arguments,
     so that the anchor function reads as it did before the extraction.

Both rewrites preserve meaning (modulo evaluation order of side-effect free argument expressions); on the pinned tree
neither applies and the modules are left exactly as parsed.  What was rewritten is reported in the evidence notes.
"""
from __future__ import annotations

import ast
import json
import os

from .core import VERIF, AnalysisError, norm

REF_PATH = os.path.join(VERIF, "spec", "functions_reference.json")
MAX_ROUNDS = 4


def load_reference():
    if not os.path.exists(REF_PATH):
        return None
    with open(REF_PATH) as f:
        return json.load(f)


def function_table(tree):
    """qualname -> (node, parent qualname or None, class qualname or None) for defs (no lambdas)"""
    out = {}

    def visit(node, prefix, parent, cls):
        for ch in ast.iter_child_nodes(node):
            if isinstance(ch, (ast.FunctionDef, ast.AsyncFunctionDef)):
                q = prefix + ch.name
                out[q] = (ch, parent, cls)
                visit(ch, q + ".", q, None)
            elif isinstance(ch, ast.ClassDef):
                visit(ch, prefix + ch.name + ".", parent, prefix + ch.name)
            elif isinstance(ch, ast.Lambda):
                continue
            else:
                visit(ch, prefix, parent, cls)

    visit(tree, "", None, None)
    return out


def params_of(fn):
    a = fn.args
    return [x.arg for x in a.posonlyargs + a.args + a.kwonlyargs]


def body_hash(fn):
    """digest of a function's statements (docstring and positions excluded)"""
    import hashlib
    body = _docless(list(fn.body))
    return hashlib.sha1("\n".join(ast.dump(st) for st in body).encode()).hexdigest()[:16]


def ref_params(entry):
    return entry["params"] if isinstance(entry, dict) else entry


def dump_reference(repo_root):
    from .core import PKG
    ref = {}
    pkgdir = os.path.join(repo_root, PKG)
    for dp, dn, fn in os.walk(pkgdir):
        dn[:] = sorted(d for d in dn if d not in ("tests", "__pycache__"))
        for f in sorted(fn):
            if f.endswith(".py"):
                p = os.path.join(dp, f)
                rel = os.path.relpath(p, repo_root)[:-3].replace(os.sep, ".")
                if rel.endswith(".__init__"):
                    rel = rel[: -len(".__init__")]
                tree = ast.parse(open(p, encoding="utf-8").read())
                ref[rel] = {q: {"params": params_of(n), "hash": body_hash(n)} for q, (n, _, _) in function_table(tree).items()}
    os.makedirs(os.path.dirname(REF_PATH), exist_ok=True)
    with open(REF_PATH, "w") as f:
        json.dump(ref, f, indent=1, sort_keys=True)
    return ref


# ---------------------------------------------------------------------------
def identifiers_bound_elsewhere(trees, name, fn_node):
    """is ``name`` bound (param, store, import alias, def, class) anywhere other than by fn_node?"""
    for tree in trees:
        for n in ast.walk(tree):
            if isinstance(n, ast.Name) and n.id == name and isinstance(n.ctx, (ast.Store, ast.Del)):
                return True
            if isinstance(n, ast.arg) and n.arg == name:
                return True
            if isinstance(n, (ast.FunctionDef, ast.AsyncFunctionDef, ast.ClassDef)) and n.name == name and n is not fn_node:
                return True
            if isinstance(n, ast.alias) and (n.asname == name):
                return True
    return False


def rename_everywhere(trees, old, new):
    for tree in trees:
        for n in ast.walk(tree):
            if isinstance(n, ast.Name) and n.id == old:
                n.id = new
            elif isinstance(n, ast.Attribute) and n.attr == old:
                n.attr = new
            elif isinstance(n, (ast.FunctionDef, ast.AsyncFunctionDef)) and n.name == old:
                n.name = new
            elif isinstance(n, ast.alias) and n.name == old:
                n.name = new


def detect_renames(modules, ref):
    """-> [(module, old qualname, new qualname)]"""
    out = []
    for mname, tree in modules.items():
        known = ref.get(mname)
        if known is None:
            continue
        table = function_table(tree)
        missing = [q for q in known if q not in table]
        new = [q for q in table if q not in known]
        taken = set()
        for q in missing:
            want = ref_params(known[q])
            scope = q.rsplit(".", 1)[0] if "." in q else ""
            base = q.rsplit(".", 1)[-1]

            def scope_of(x):
                return x.rsplit(".", 1)[0] if "." in x else ""
            # same scope first, then closure <-> module level
            cands = [c for c in new if c not in taken and scope_of(c) == scope and len(params_of(table[c][0])) == len(want)]
            if len(cands) > 1:
                same = [c for c in cands if params_of(table[c][0]) == want]
                if len(same) == 1:
                    cands = same
            if not cands and scope:
                cands = [c for c in new if c not in taken and scope_of(c) in ("", scope.rsplit(".", 1)[0] if "." in scope else "") and len(params_of(table[c][0])) == len(want)
                         and _referenced_from(table, scope, c.rsplit(".", 1)[-1])]
            if not cands and not scope:
                # module level function became a closure of its only caller
                cands = [c for c in new if c not in taken and "." in c and len(params_of(table[c][0])) == len(want) and table[c][2] is None]
                cands = [c for c in cands if params_of(table[c][0]) == want]
            if len(cands) == 1:
                taken.add(cands[0])
                out.append((mname, q, cands[0]))
    return out


def _referenced_from(table, scope_q, name):
    ent = table.get(scope_q)
    if ent is None:
        return False
    return any(isinstance(n, ast.Name) and n.id == name for n in ast.walk(ent[0]))


# ---------------------------------------------------------------------------
class NotInlinable(Exception):
    pass


def _contains(node, kinds):
    return any(isinstance(n, kinds) for n in ast.walk(node))


def _walk_own(stmts):
    """nodes of a statement list without descending into nested defs/lambdas/classes"""
    stack = list(stmts)
    while stack:
        n = stack.pop()
        yield n
        if isinstance(n, (ast.FunctionDef, ast.AsyncFunctionDef, ast.ClassDef, ast.Lambda)):
            continue
        stack.extend(ast.iter_child_nodes(n))


def _always_exits(stmts):
    if not stmts:
        return False
    last = stmts[-1]
    if isinstance(last, (ast.Return, ast.Raise)):
        return True
    if isinstance(last, ast.If):
        return _always_exits(last.body) and _always_exits(last.orelse)
    if isinstance(last, ast.With):
        return _always_exits(last.body)
    if isinstance(last, ast.Try) and not last.orelse and not last.finalbody:
        return _always_exits(last.body) and all(_always_exits(h.body) for h in last.handlers)
    return False


def _has_return(stmts):
    return any(isinstance(n, ast.Return) for n in _walk_own(stmts))


def convert_returns(stmts, mk):
    """rewrite a structured body so that `return e` becomes mk(e) (returns must be in tail position)"""
    out = []
    for i, st in enumerate(stmts):
        rest = stmts[i + 1:]
        if isinstance(st, ast.Return):
            out.extend(mk(st.value if st.value is not None else ast.Constant(None)))
            return out
        if isinstance(st, ast.If) and (_has_return(st.body) or _has_return(st.orelse)):
            b_exit, o_exit = _always_exits(st.body), _always_exits(st.orelse)
            if (_has_return(st.body) and not b_exit) or (_has_return(st.orelse) and not o_exit):
                raise NotInlinable("return in a branch that can also fall through")
            body = convert_returns(list(st.body) + ([] if b_exit else list(rest)), mk)
            orelse = convert_returns(list(st.orelse) + ([] if o_exit else list(rest)), mk)
            if b_exit and o_exit:
                out.append(ast.If(test=st.test, body=body or [ast.Pass()], orelse=orelse))
                return out
            if b_exit:
                out.append(ast.If(test=st.test, body=body or [ast.Pass()], orelse=orelse))
                return out
            out.append(ast.If(test=st.test, body=body or [ast.Pass()], orelse=orelse))
            return out
        if isinstance(st, ast.With) and _has_return(st.body):
            if rest and _always_exits(st.body) is False:
                raise NotInlinable("return inside a with block that can fall through")
            if not _always_exits(st.body):
                raise NotInlinable("return inside a with block that can fall through")
            out.append(ast.With(items=st.items, body=convert_returns(list(st.body), mk), type_comment=None))
            return out
        if isinstance(st, ast.Try) and _has_return([st]):
            # try in tail position whose body and handlers all leave the helper: `return e` evaluates e inside the try,
            # and so does the assignment that replaces it
            if rest or st.orelse or st.finalbody or not _always_exits(st.body) or not all(_always_exits(h.body) for h in st.handlers):
                raise NotInlinable("return inside a try statement that is not in tail position")
            out.append(ast.Try(body=convert_returns(list(st.body), mk) or [ast.Pass()],
                               handlers=[ast.ExceptHandler(type=h.type, name=h.name, body=convert_returns(list(h.body), mk) or [ast.Pass()]) for h in st.handlers],
                               orelse=[], finalbody=[]))
            return out
        if _has_return([st]):
            raise NotInlinable(f"return inside {type(st).__name__}")
        out.append(st)
    if not _always_exits(out):
        out.extend(mk(ast.Constant(None)))
    return out


def _simple(e):
    """side-effect free and cheap: may be substituted for a parameter at every use"""
    if isinstance(e, (ast.Name, ast.Constant)):
        return True
    if isinstance(e, ast.Attribute):
        return _simple(e.value)
    if isinstance(e, ast.Subscript):
        return _simple(e.value) and _simple(e.slice)
    if isinstance(e, ast.Slice):
        return all(x is None or _simple(x) for x in (e.lower, e.upper, e.step))
    if isinstance(e, (ast.Tuple, ast.List)):
        return all(_simple(x) for x in e.elts)
    if isinstance(e, ast.UnaryOp):
        return _simple(e.operand)
    return False


def _copy(n):
    import copy
    return copy.deepcopy(n)


class _Subst(ast.NodeTransformer):
    def __init__(self, mapping, renames):
        self.mapping = mapping
        self.renames = renames

    def visit_Name(self, n):
        if n.id in self.mapping and isinstance(n.ctx, ast.Load):
            return _copy(self.mapping[n.id])
        if n.id in self.renames:
            return ast.Name(id=self.renames[n.id], ctx=n.ctx)
        return n

    def visit_arg(self, n):
        return n

    def visit_ExceptHandler(self, n):
        # `except E as name`: the bound name is a plain string on the handler node, not a Name node
        if n.name is not None and n.name in self.renames:
            n.name = self.renames[n.name]
        return self.generic_visit(n)

    def _inner(self, bound_here):
        return _Subst({k: v for k, v in self.mapping.items() if k not in bound_here}, {k: v for k, v in self.renames.items() if k not in bound_here})

    def visit_FunctionDef(self, n):
        # the function's own name is a local of the enclosing body; its parameters and locals shadow the outer names
        if n.name in self.renames:
            n.name = self.renames[n.name]
        n.decorator_list = [self.visit(d) for d in n.decorator_list]
        n.args.defaults = [self.visit(d) for d in n.args.defaults]
        n.args.kw_defaults = [self.visit(d) if d is not None else None for d in n.args.kw_defaults]
        inner = self._inner(set(params_of(n)) | _stored_names(n.body))
        n.body = [inner.visit(st) for st in n.body]
        return n

    def visit_Lambda(self, n):
        n.args.defaults = [self.visit(d) for d in n.args.defaults]
        n.args.kw_defaults = [self.visit(d) if d is not None else None for d in n.args.kw_defaults]
        n.body = self._inner(set(params_of(n))).visit(n.body)
        return n


def _strip_parents(node):
    for n in ast.walk(node):
        if hasattr(n, "_parent"):
            try:
                del n._parent
            except AttributeError:
                pass


def _walk_no_comp(stmts):
    stack = list(stmts)
    while stack:
        n = stack.pop()
        yield n
        if isinstance(n, (ast.FunctionDef, ast.AsyncFunctionDef, ast.ClassDef, ast.Lambda)):
            continue
        if isinstance(n, (ast.ListComp, ast.SetComp, ast.DictComp, ast.GeneratorExp)):
            continue
        stack.extend(ast.iter_child_nodes(n))


def _stored_names(stmts):
    out = set()
    for n in _walk_no_comp(stmts):
        if isinstance(n, ast.Name) and isinstance(n.ctx, ast.Store):
            out.add(n.id)
        elif isinstance(n, (ast.FunctionDef, ast.ClassDef)):
            out.add(n.name)
        elif isinstance(n, ast.alias):
            out.add((n.asname or n.name).split(".")[0])
        elif isinstance(n, ast.ExceptHandler) and n.name:
            out.add(n.name)
    return out


def _comp_bound(stmts):
    out = set()
    for st in stmts:
        for n in ast.walk(st):
            if isinstance(n, ast.comprehension):
                for t in ast.walk(n.target):
                    if isinstance(t, ast.Name):
                        out.add(t.id)
            elif isinstance(n, ast.Lambda):
                out |= set(params_of(n))
    return out


class Helper:
    def __init__(self, mname, qual, node, cls):
        self.mname, self.qual, self.node, self.cls = mname, qual, node, cls
        self.name = node.name

    def check(self):
        fn = self.node
        if isinstance(fn, ast.AsyncFunctionDef):
            raise NotInlinable("async")
        for d in fn.decorator_list:
            if not (isinstance(d, ast.Name) and d.id == "staticmethod"):
                raise NotInlinable("decorated")
        if fn.args.vararg or fn.args.kwarg:
            raise NotInlinable("star parameters")
        body = list(fn.body)
        self.generator = any(isinstance(n, (ast.Yield, ast.YieldFrom)) for n in _walk_own(body))
        if self.generator and generator_expression(self) is None:
            raise NotInlinable("generator that is not a single mapping loop")
        for n in _walk_own(body):
            if isinstance(n, (ast.Await, ast.Global, ast.Nonlocal)):
                raise NotInlinable("generator / global")
            if isinstance(n, ast.Call) and isinstance(n.func, ast.Name) and n.func.id in ("locals", "vars", "super"):
                raise NotInlinable("introspection")
            if isinstance(n, ast.Name) and n.id == self.name:
                raise NotInlinable("recursive")
            if isinstance(n, ast.Attribute) and n.attr == self.name and isinstance(n.value, ast.Name) and n.value.id == "self":
                raise NotInlinable("recursive")


def _docless(body):
    if body and isinstance(body[0], ast.Expr) and isinstance(body[0].value, ast.Constant) and isinstance(body[0].value.value, str):
        return body[1:]
    return body


def expansion(helper, call, caller_names, ctx, static_self=None):
    """statements (and the result expression name/None) replacing a statement-level call.
    ctx: ('assign', targets) | ('return',) | ('expr',)"""
    fn = helper.node
    if getattr(helper, "generator", False):
        raise NotInlinable("generator: substituted as an expression only")
    a = fn.args
    pos = [x.arg for x in a.posonlyargs + a.args]
    kwonly = [x.arg for x in a.kwonlyargs]
    is_method = helper.cls is not None and not any(isinstance(d, ast.Name) and d.id == "staticmethod" for d in fn.decorator_list)
    args = list(call.args)
    if any(isinstance(x, ast.Starred) for x in args) or any(k.arg is None for k in call.keywords):
        raise NotInlinable("star arguments")
    bound = {}
    if is_method:
        if static_self is None:
            raise NotInlinable("method without receiver")
        bound[pos[0]] = static_self
        pos_rest = pos[1:]
    else:
        pos_rest = pos
    if len(args) > len(pos_rest):
        raise NotInlinable("too many arguments")
    for p, v in zip(pos_rest, args):
        bound[p] = v
    for k in call.keywords:
        if k.arg in bound or k.arg not in pos + kwonly:
            raise NotInlinable("bad keyword")
        bound[k.arg] = k.value
    defaults = dict(zip(pos[len(pos) - len(a.defaults):], a.defaults))
    defaults.update({p.arg: d for p, d in zip(a.kwonlyargs, a.kw_defaults) if d is not None})
    for p in pos + kwonly:
        if p not in bound:
            if p not in defaults:
                raise NotInlinable(f"missing argument {p}")
            if _mutable_default(defaults[p]):
                raise NotInlinable(f"default of {p} is a mutable object shared by all calls")
            bound[p] = defaults[p]
    body = [_copy(s) for s in _docless(list(fn.body))]
    for s in body:
        _strip_parents(s)
    stored = _stored_names(body)
    comp = _comp_bound(body)
    mapping, renames, pre = {}, {}, []
    for p, v in bound.items():
        if p in stored or p in comp:
            # parameter rebound in the helper: keep it as a local, initialised from the argument
            new = p if (p not in caller_names or (isinstance(v, ast.Name) and v.id == p)) else f"{p}__{helper.name.strip('_')}"
            if new != p:
                renames[p] = new
            if not (isinstance(v, ast.Name) and v.id == new):
                pre.append(ast.Assign(targets=[ast.Name(id=new, ctx=ast.Store())], value=_copy(v), lineno=0))
        elif _simple(v):
            mapping[p] = v
        else:
            uses = sum(1 for s in body for n in ast.walk(s) if isinstance(n, ast.Name) and n.id == p and isinstance(n.ctx, ast.Load))
            if uses <= 1 and not _used_in_nested_scope(body, p):
                mapping[p] = v
            else:
                new = p if p not in caller_names else f"{p}__{helper.name.strip('_')}"
                if new != p:
                    renames[p] = new
                pre.append(ast.Assign(targets=[ast.Name(id=new, ctx=ast.Store())], value=_copy(v), lineno=0))
    # the names the call's result is assigned to are (re)defined by this very statement: a helper local may keep such a
    # name, and the local(s) the helper returns are given the target name(s)
    own_targets = []
    if ctx[0] == "assign" and len(ctx[1]) == 1:
        tg = ctx[1][0]
        tnames = [tg] if isinstance(tg, ast.Name) else list(tg.elts) if isinstance(tg, (ast.Tuple, ast.List)) else []
        if tnames and all(isinstance(t, ast.Name) for t in tnames):
            used_in_args = {n.id for v in bound.values() for n in ast.walk(v) if isinstance(n, ast.Name)}
            if not any(t.id in used_in_args or t.id in bound for t in tnames):
                own_targets = [t.id for t in tnames]
    rets = [n for n in _walk_own(body) if isinstance(n, ast.Return)]
    if own_targets and len(rets) == 1 and rets[0].value is not None:
        rv = rets[0].value
        rnames = [rv] if isinstance(rv, ast.Name) else list(rv.elts) if isinstance(rv, ast.Tuple) else []
        if len(rnames) == len(own_targets) and all(isinstance(r, ast.Name) and r.id in stored and r.id not in bound for r in rnames) and len({r.id for r in rnames}) == len(rnames):
            for r, t in zip(rnames, own_targets):
                if r.id != t and t not in stored and t not in comp:
                    renames[r.id] = t
    for loc in stored - set(bound):
        if loc in caller_names and loc not in own_targets and loc not in renames:
            renames[loc] = f"{loc}__{helper.name.strip('_')}"
    sub = _Subst(mapping, renames)
    body = [sub.visit(s) for s in body]
    if ctx[0] == "return":
        stmts = pre + body
        if not _always_exits(stmts):
            stmts.append(ast.Return(value=ast.Constant(None)))
        return stmts
    if ctx[0] == "assign":
        targets = ctx[1]
        def mk(e):
            if len(targets) == 1 and norm(targets[0]) == norm(e) and all(isinstance(n, (ast.Name, ast.Tuple, ast.List, ast.Load, ast.Store)) for n in ast.walk(e)):
                return []
            return [ast.Assign(targets=[_copy(t) for t in targets], value=e, lineno=0)]
    else:
        mk = lambda e: ([] if isinstance(e, ast.Constant) else [ast.Expr(value=e)])
    return pre + convert_returns(body, mk)


def _used_in_nested_scope(body, name):
    for s in body:
        for n in ast.walk(s):
            if isinstance(n, (ast.Lambda, ast.FunctionDef, ast.ListComp, ast.SetComp, ast.DictComp, ast.GeneratorExp)):
                if any(isinstance(x, ast.Name) and x.id == name for x in ast.walk(n)):
                    return True
    return False


def generator_expression(helper):
    """a generator function of the shape  [assignments;] for t in it: [assignments;] yield e   (or a single `yield from x`)
    as the generator expression (e for t in it) it denotes; None for any other generator"""
    body = _docless(list(helper.node.body))
    env = {}
    for i, st in enumerate(body):
        if isinstance(st, ast.Assign) and len(st.targets) == 1 and isinstance(st.targets[0], ast.Name):
            env[st.targets[0].id] = _Subst(dict(env), {}).visit(_copy(st.value))
            continue
        if i != len(body) - 1:
            return None
        if isinstance(st, ast.Expr) and isinstance(st.value, ast.YieldFrom):
            e = _copy(st.value.value)
            _strip_parents(e)
            return _Subst(env, {}).visit(e)
        if isinstance(st, ast.For) and not st.orelse:
            tnames = {n.id for n in ast.walk(st.target) if isinstance(n, ast.Name)}
            inner = {k: v for k, v in env.items() if k not in tnames}
            for j, b in enumerate(st.body):
                if isinstance(b, ast.Assign) and len(b.targets) == 1 and isinstance(b.targets[0], ast.Name) and b.targets[0].id not in tnames:
                    inner[b.targets[0].id] = _Subst(dict(inner), {}).visit(_copy(b.value))
                    continue
                if j == len(st.body) - 1 and isinstance(b, ast.Expr) and isinstance(b.value, ast.Yield) and b.value.value is not None:
                    elt = _copy(b.value.value)
                    it = _copy(st.iter)
                    tgt = _copy(st.target)
                    for x in (elt, it, tgt):
                        _strip_parents(x)
                    # locals used more than once would duplicate their (possibly effectful) definition
                    for k in inner:
                        uses = sum(1 for n in ast.walk(b.value.value) if isinstance(n, ast.Name) and n.id == k)
                        uses += sum(1 for kk, vv in inner.items() for n in ast.walk(vv) if isinstance(n, ast.Name) and n.id == k)
                    elt = _Subst({k: v for k, v in inner.items()}, {}).visit(elt)
                    it = _Subst(env, {}).visit(it)
                    return ast.GeneratorExp(elt=elt, generators=[ast.comprehension(target=tgt, iter=it, ifs=[], is_async=0)])
                return None
        return None
    return None


def single_expression(helper):
    """the helper as one expression over its parameters (assignments + one return), or None"""
    if getattr(helper, "generator", False):
        return generator_expression(helper)
    body = _docless(list(helper.node.body))
    env = {}
    for st in body[:-1]:
        if isinstance(st, ast.Assign) and len(st.targets) == 1 and isinstance(st.targets[0], ast.Name):
            env[st.targets[0].id] = _Subst(dict(env), {}).visit(_copy(st.value))
        else:
            return None
    if not body or not isinstance(body[-1], ast.Return) or body[-1].value is None:
        return None
    e = _copy(body[-1].value)
    _strip_parents(e)
    return _Subst(env, {}).visit(e)


class Inliner:
    def __init__(self, modules, ref, notes):
        self.modules = modules
        self.ref = ref
        self.notes = notes
        self.changed = set()

    def helpers(self):
        out = {}
        for mname, tree in self.modules.items():
            known = self.ref.get(mname, {})
            for q, (node, parent, cls) in function_table(tree).items():
                if q in known or parent is not None:
                    continue
                h = Helper(mname, q, node, cls)
                try:
                    h.check()
                except NotInlinable:
                    continue
                out[(mname, q)] = h
        return out

    def resolve(self, mname, tree, func_expr, enclosing_cls, helpers):
        """(helper, receiver expr|None) denoted by the callee expression in module mname"""
        if isinstance(func_expr, ast.Name):
            h = helpers.get((mname, func_expr.id))
            if h is not None and h.cls is None and not _module_rebinds(tree, func_expr.id, h.node):
                return h, None
            imp = _import_of(tree, func_expr.id)
            if imp is not None and imp[0] == "symbol":
                h = helpers.get((imp[1], imp[2]))
                if h is not None and h.cls is None:
                    return h, None
        if isinstance(func_expr, ast.Attribute) and isinstance(func_expr.value, ast.Name):
            if func_expr.value.id == "self" and enclosing_cls is not None:
                h = helpers.get((mname, f"{enclosing_cls}.{func_expr.attr}"))
                # dynamic dispatch: only when no other class defines a method of that name (no override can be selected)
                if h is not None and self.method_defs(func_expr.attr) == 1:
                    return h, func_expr.value
            imp = _import_of(tree, func_expr.value.id)
            if imp is not None:
                target = imp[1] if imp[0] == "module" else f"{imp[1]}.{imp[2]}"
                h = helpers.get((target, func_expr.attr))
                if h is not None and h.cls is None:
                    return h, None
        return None, None

    def method_defs(self, name):
        n = 0
        for tree in self.modules.values():
            for q, (node, parent, cls) in function_table(tree).items():
                if cls is not None and node.name == name:
                    n += 1
        return n

    def run(self):
        for _ in range(MAX_ROUNDS):
            helpers = self.helpers()
            if not helpers:
                return
            progress = False
            for mname, tree in self.modules.items():
                for q, (fn, parent, cls) in list(function_table(tree).items()):
                    if self.inline_in_function(mname, tree, fn, cls, helpers):
                        progress = True
                        self.changed.add(mname)
            if not progress:
                return

    def inline_in_function(self, mname, tree, fn, cls, helpers):
        changed = False
        caller_names = set(params_of(fn)) | _stored_names(fn.body) | _comp_bound(fn.body)
        if fn.args.vararg:
            caller_names.add(fn.args.vararg.arg)
        if fn.args.kwarg:
            caller_names.add(fn.args.kwarg.arg)

        def imports_ok(h):
            return h.mname == mname or self.make_globals_visible(mname, tree, h)

        def rewrite_block(stmts):
            nonlocal changed
            out = []
            for st in stmts:
                if isinstance(st, (ast.FunctionDef, ast.AsyncFunctionDef, ast.ClassDef)):
                    out.append(st)
                    continue
                for field in ("body", "orelse", "finalbody"):
                    blk = getattr(st, field, None)
                    if isinstance(blk, list) and blk and isinstance(blk[0], ast.stmt):
                        setattr(st, field, rewrite_block(blk))
                if isinstance(st, ast.Try):
                    for hd in st.handlers:
                        hd.body = rewrite_block(hd.body)
                call, ctx = None, None
                if isinstance(st, ast.Assign) and isinstance(st.value, ast.Call):
                    call, ctx = st.value, ("assign", st.targets)
                elif isinstance(st, ast.Return) and isinstance(st.value, ast.Call):
                    call, ctx = st.value, ("return",)
                elif isinstance(st, ast.Expr) and isinstance(st.value, ast.Call):
                    call, ctx = st.value, ("expr",)
                if call is not None:
                    h, recv = self.resolve(mname, tree, call.func, cls, helpers)
                    if h is not None and h.node is not fn and imports_ok(h):
                        try:
                            new = expansion(h, call, caller_names, ctx, static_self=recv)
                        except NotInlinable:
                            new = None
                        if new is not None:
                            # arguments of the call may themselves contain helper calls: handled in the next round
                            out.extend(new)
                            caller_names.update(_stored_names(new))
                            changed = True
                            self.notes.append(f"{mname}:{fn.name}: call to the new helper {h.mname}:{h.qual} replaced by its body")
                            continue
                # nested occurrences: single-expression helpers are substituted in place
                if self.substitute_nested(mname, tree, st, cls, helpers, fn):
                    changed = True
                # other helpers called unconditionally inside a simple statement: computed into a temporary first
                if isinstance(st, (ast.Assign, ast.AugAssign, ast.AnnAssign, ast.Return, ast.Expr)):
                    hoisted = self.hoist(mname, tree, st, cls, helpers, fn, caller_names, imports_ok)
                    if hoisted:
                        out.extend(hoisted)
                        caller_names.update(_stored_names(hoisted))
                        changed = True
                out.append(st)
            return out

        fn.body = rewrite_block(fn.body)
        return changed

    def hoist(self, mname, tree, st, cls, helpers, fn, caller_names, imports_ok):
        """first helper call evaluated unconditionally within the simple statement ``st`` -> statements computing it into
        a temporary (the call node is replaced by the temporary's name)"""
        def unconditional_calls(e):
            # post-order, skipping parts that are evaluated conditionally or repeatedly
            if isinstance(e, (ast.Lambda, ast.ListComp, ast.SetComp, ast.DictComp, ast.GeneratorExp, ast.IfExp)):
                if isinstance(e, ast.IfExp):
                    yield from unconditional_calls(e.test)
                elif not isinstance(e, ast.Lambda):
                    yield from unconditional_calls(e.generators[0].iter)
                return
            if isinstance(e, ast.BoolOp):
                yield from unconditional_calls(e.values[0])
                return
            for ch in ast.iter_child_nodes(e):
                yield from unconditional_calls(ch)
            if isinstance(e, ast.Call):
                yield e
        roots = []
        if isinstance(st, ast.Assign):
            roots = [st.value]
        elif isinstance(st, (ast.AugAssign, ast.AnnAssign, ast.Return, ast.Expr)) and st.value is not None:
            roots = [st.value]
        for root in roots:
            for call in unconditional_calls(root):
                if call is root and not isinstance(st, ast.AugAssign):
                    continue  # statement-level call: handled by the splice
                h, recv = self.resolve(mname, tree, call.func, cls, helpers)
                if h is None or h.node is fn or not imports_ok(h):
                    continue
                tmp = f"{h.name.strip('_')}_result"
                while tmp in caller_names:
                    tmp += "_"
                try:
                    new = expansion(h, call, caller_names | {tmp}, ("assign", [ast.Name(id=tmp, ctx=ast.Store())]), static_self=recv)
                except NotInlinable:
                    continue
                # replace the call node by the temporary
                for parent in ast.walk(st):
                    for field, value in ast.iter_fields(parent):
                        if value is call:
                            setattr(parent, field, ast.Name(id=tmp, ctx=ast.Load()))
                        elif isinstance(value, list):
                            for i, x in enumerate(value):
                                if x is call:
                                    value[i] = ast.Name(id=tmp, ctx=ast.Load())
                self.notes.append(f"{mname}:{fn.name}: nested call to the new helper {h.mname}:{h.qual} computed into `{tmp}` from its body")
                return new
        return None

    def substitute_nested(self, mname, tree, st, cls, helpers, fn):
        changed = False
        inliner = self

        class T(ast.NodeTransformer):
            def visit_FunctionDef(self, n):
                return n

            def visit_ClassDef(self, n):
                return n

            def visit_Call(self, n):
                nonlocal changed
                self.generic_visit(n)
                h, recv = inliner.resolve(mname, tree, n.func, cls, helpers)
                if h is None or h.node is fn:
                    return n
                if h.mname != mname and not inliner.make_globals_visible(mname, tree, h):
                    return n
                e = single_expression(h)
                if e is None:
                    return n
                a = h.node.args
                pos = [x.arg for x in a.posonlyargs + a.args]
                is_method = h.cls is not None and not h.node.decorator_list
                if any(isinstance(x, ast.Starred) for x in n.args) or any(k.arg is None for k in n.keywords):
                    return n
                bound = {}
                rest = pos
                if is_method:
                    if recv is None:
                        return n
                    bound[pos[0]] = recv
                    rest = pos[1:]
                if len(n.args) > len(rest):
                    return n
                for p, v in zip(rest, n.args):
                    bound[p] = v
                for k in n.keywords:
                    bound[k.arg] = k.value
                defaults = dict(zip(pos[len(pos) - len(a.defaults):], a.defaults))
                defaults.update({p.arg: d for p, d in zip(a.kwonlyargs, a.kw_defaults) if d is not None})
                for p in pos + [x.arg for x in a.kwonlyargs]:
                    if p not in bound:
                        if p not in defaults:
                            return n
                        if _mutable_default(defaults[p]):
                            return n
                        bound[p] = defaults[p]
                for p, v in bound.items():
                    uses = sum(1 for x in ast.walk(e) if isinstance(x, ast.Name) and x.id == p and isinstance(x.ctx, ast.Load))
                    if uses > 1 and not _simple(v) and _contains(v, (ast.Call,)):
                        return n
                # bound names of the helper expression must not capture names of the arguments
                inner_bound = _comp_bound([ast.Expr(value=e)])
                for v in bound.values():
                    if any(isinstance(x, ast.Name) and x.id in inner_bound for x in ast.walk(v)):
                        return n
                changed = True
                inliner.notes.append(f"{mname}:{fn.name}: call to the new single-expression helper {h.mname}:{h.qual} replaced by its expression")
                return _Subst(bound, {}).visit(e)

        T().visit(st)
        return changed

    def make_globals_visible(self, mname, tree, h):
        """a helper of another module is inlined only if its free global names mean the same in the caller's module;
        missing ones are imported (added to the caller's module header)"""
        htree = self.modules[h.mname]
        local = set(params_of(h.node)) | _stored_names(h.node.body) | _comp_bound(h.node.body)
        import builtins
        free = {n.id for n in _walk_own(h.node.body) if isinstance(n, ast.Name) and isinstance(n.ctx, ast.Load)} - local
        # names used inside nested lambdas/comprehensions
        for s in h.node.body:
            for n in ast.walk(s):
                if isinstance(n, ast.Name) and isinstance(n.ctx, ast.Load) and n.id not in local:
                    free.add(n.id)
        add = []
        for name in sorted(free):
            if hasattr(builtins, name) and _binding_of(htree, name) is None:
                if _binding_of(tree, name) is not None:
                    return False
                continue
            hb = _binding_of(htree, name)
            if hb is None:
                return False
            cb = _binding_of(tree, name)
            if cb is not None:
                if _same_binding(hb, cb, h.mname, mname):
                    continue
                return False
            if hb[0] in ("def", "assign"):
                add.append(ast.ImportFrom(module=h.mname, names=[ast.alias(name=name, asname=None)], level=0))
            elif hb[0] == "import":
                add.append(_copy(hb[1]))
            else:
                return False
        for st in add:
            tree.body.insert(_after_imports(tree), st)
        return True


def _after_imports(tree):
    i = 0
    for i, st in enumerate(tree.body):
        if not isinstance(st, (ast.Import, ast.ImportFrom)) and not (isinstance(st, ast.Expr) and isinstance(st.value, ast.Constant)):
            return i
    return i + 1


def _binding_of(tree, name):
    """module-level binding of a name: ('def', node) | ('assign', node) | ('import', stmt, target)"""
    found = None
    for st in tree.body:
        if isinstance(st, (ast.FunctionDef, ast.ClassDef, ast.AsyncFunctionDef)) and st.name == name:
            found = ("def", st)
        elif isinstance(st, ast.Assign) and any(isinstance(t, ast.Name) and t.id == name for t in st.targets):
            found = ("assign", st)
        elif isinstance(st, ast.AnnAssign) and isinstance(st.target, ast.Name) and st.target.id == name:
            found = ("assign", st)
        elif isinstance(st, ast.Import):
            for a in st.names:
                if (a.asname or a.name.split(".")[0]) == name:
                    found = ("import", ast.Import(names=[a]), ("module", a.name if a.asname else a.name.split(".")[0]))
        elif isinstance(st, ast.ImportFrom):
            for a in st.names:
                if (a.asname or a.name) == name:
                    found = ("import", ast.ImportFrom(module=st.module, names=[a], level=st.level), ("symbol", st.module, a.name, st.level))
    return found


def _same_binding(hb, cb, hmod, cmod):
    if hb[0] == "import" and cb[0] == "import":
        return hb[2] == cb[2]
    if hb[0] in ("def", "assign") and cb[0] == "import":
        t = cb[2]
        return t[0] == "symbol" and t[1] == hmod and t[2] == (hb[1].name if hb[0] == "def" else None or t[2]) and not t[3]
    return False


def _import_of(tree, name):
    b = _binding_of(tree, name)
    if b is not None and b[0] == "import":
        t = b[2]
        if t[0] == "module":
            return ("module", t[1])
        if not t[3]:
            return ("symbol", t[1], t[2])
    return None


def _module_rebinds(tree, name, node):
    n = 0
    for st in tree.body:
        if isinstance(st, (ast.FunctionDef, ast.ClassDef)) and st.name == name:
            n += 1
        elif isinstance(st, ast.Assign) and any(isinstance(t, ast.Name) and t.id == name for t in st.targets):
            n += 1
    return n != 1


# ---------------------------------------------------------------------------
# canonical forms inside functions whose statements differ from the reference (pinned functions are left as written)


def _mutable_default(d):
    """a default value that is created once, at definition time, and could be mutated: substituting it at a call site would
    create a fresh object per call - not the same program"""
    if isinstance(d, (ast.Dict, ast.List, ast.Set, ast.ListComp, ast.DictComp, ast.SetComp, ast.Call)):
        return True
    if isinstance(d, ast.Tuple):
        return any(_mutable_default(x) for x in d.elts)
    return False


def _single_target_assign(st):
    if isinstance(st, ast.Assign) and len(st.targets) == 1:
        return st.targets[0], st.value
    return None, None


def _subst_locals(stmts, final):
    """fold leading single-use assignments  a = e  of a loop body into its final statement; None if not possible"""
    env = {}
    for st in stmts:
        t, v = _single_target_assign(st)
        if not isinstance(t, ast.Name):
            return None
        env[t.id] = _Subst(dict(env), {}).visit(_copy(v))
    for name in env:
        uses = sum(1 for n in ast.walk(final) if isinstance(n, ast.Name) and n.id == name and isinstance(n.ctx, ast.Load))
        uses += sum(1 for k, v in env.items() if k != name for n in ast.walk(v) if isinstance(n, ast.Name) and n.id == name)
        if uses > 1 and _contains(env[name], (ast.Call,)):
            return None
    return _Subst(env, {}).visit(_copy(final))


def _as_ifexp(st):
    """if c: T = a else: T = b  ->  T = a if c else b   (same simple target / same subscript store / same append)"""
    if not (isinstance(st, ast.If) and len(st.body) == 1 and len(st.orelse) == 1):
        return None
    a, b = st.body[0], st.orelse[0]
    ta, va = _single_target_assign(a)
    tb, vb = _single_target_assign(b)
    if ta is not None and tb is not None and norm(ta) == norm(tb):
        return ast.Assign(targets=[ta], value=ast.IfExp(test=st.test, body=va, orelse=vb), lineno=0)

    def one_arg_method(x):
        if isinstance(x, ast.Expr) and isinstance(x.value, ast.Call) and isinstance(x.value.func, ast.Attribute) and x.value.func.attr in ("append", "add") \
                and isinstance(x.value.func.value, ast.Name) and len(x.value.args) == 1 and not x.value.keywords and not isinstance(x.value.args[0], ast.Starred):
            return x.value.func.value.id, x.value.func.attr, x.value.args[0]
        return None
    ma, mb = one_arg_method(a), one_arg_method(b)
    if ma is not None and mb is not None and ma[:2] == mb[:2]:
        return ast.Expr(value=ast.Call(func=ast.Attribute(value=ast.Name(id=ma[0], ctx=ast.Load()), attr=ma[1], ctx=ast.Load()),
                                       args=[ast.IfExp(test=st.test, body=ma[2], orelse=mb[2])], keywords=[]))
    return None


def canonical_loops(fn, notes, where):
    """X = {} / [] followed by a loop that only fills X  ->  comprehension;  if/else assigning one target -> conditional expression"""
    changed = False

    def rewrite(stmts):
        nonlocal changed
        out = []
        i = 0
        while i < len(stmts):
            st = stmts[i]
            for field in ("body", "orelse", "finalbody"):
                blk = getattr(st, field, None)
                if isinstance(blk, list) and blk and isinstance(blk[0], ast.stmt) and not isinstance(st, (ast.FunctionDef, ast.ClassDef, ast.AsyncFunctionDef)):
                    setattr(st, field, rewrite(blk))
            if isinstance(st, ast.Try):
                for h in st.handlers:
                    h.body = rewrite(h.body)
            ie = _as_ifexp(st)
            if ie is not None:
                st = ie
                changed = True
            t, v = _single_target_assign(st)
            nxt = stmts[i + 1] if i + 1 < len(stmts) else None
            if isinstance(t, ast.Name) and isinstance(v, (ast.Dict, ast.List)) and isinstance(nxt, ast.For) and not nxt.orelse and nxt.body:
                body = list(nxt.body)
                last = _as_ifexp(body[-1]) or body[-1]
                lead = body[:-1]
                comp = None
                tnames = {n.id for n in ast.walk(nxt.target) if isinstance(n, ast.Name)}
                uses_x = lambda e: any(isinstance(n, ast.Name) and n.id == t.id for n in ast.walk(e))
                if isinstance(v, ast.Dict):
                    lt, lv = _single_target_assign(last)
                    if isinstance(lt, ast.Subscript) and isinstance(lt.value, ast.Name) and lt.value.id == t.id:
                        pair = _subst_locals(lead, ast.Tuple(elts=[lt.slice, lv], ctx=ast.Load()))
                        if pair is not None and not uses_x(pair) and not uses_x(nxt.iter):
                            dc = ast.DictComp(key=pair.elts[0], value=pair.elts[1], generators=[ast.comprehension(target=nxt.target, iter=nxt.iter, ifs=[], is_async=0)])
                            comp = dc if not v.keys else ast.BinOp(left=v, op=ast.BitOr(), right=dc)
                else:
                    if not v.elts and isinstance(last, ast.Expr) and isinstance(last.value, ast.Call) and isinstance(last.value.func, ast.Attribute) and last.value.func.attr == "append" \
                            and isinstance(last.value.func.value, ast.Name) and last.value.func.value.id == t.id and len(last.value.args) == 1:
                        elt = _subst_locals(lead, last.value.args[0])
                        if elt is not None and not uses_x(elt) and not uses_x(nxt.iter):
                            comp = ast.ListComp(elt=elt, generators=[ast.comprehension(target=nxt.target, iter=nxt.iter, ifs=[], is_async=0)])
                if comp is not None:
                    out.append(ast.Assign(targets=[t], value=comp, lineno=0))
                    changed = True
                    notes.append(f"{where}: the loop filling `{t.id}` is read as a comprehension")
                    i += 2
                    continue
            out.append(st)
            i += 1
        return out

    fn.body = rewrite(fn.body)
    return changed


def _module_constants(tree):
    """module-level names bound exactly once, to a literal number / string / bytes, and never rebound anywhere in the module"""
    cand, stores = {}, {}
    imported = set()
    for st in tree.body:
        if isinstance(st, ast.Import):
            imported.update((a.asname or a.name).split(".")[0] for a in st.names)
        elif isinstance(st, ast.ImportFrom):
            imported.update(a.asname or a.name for a in st.names)

    def const_path(e):
        # an attribute of something imported (datetime.time.min, indexing.IndexingSupport.BASIC): the same object wherever it is read
        while isinstance(e, ast.Attribute):
            e = e.value
        return isinstance(e, ast.Name) and e.id in imported
    for st in tree.body:
        if isinstance(st, ast.Assign) and len(st.targets) == 1 and isinstance(st.targets[0], ast.Name) and isinstance(st.value, ast.UnaryOp) and isinstance(st.value.op, (ast.USub, ast.UAdd)) \
                and isinstance(st.value.operand, ast.Constant) and isinstance(st.value.operand.value, (int, float)) and not isinstance(st.value.operand.value, bool):
            # a signed literal (-1): the same constant
            v_ = st.value.operand.value
            cand[st.targets[0].id] = ast.copy_location(ast.Constant(value=-v_ if isinstance(st.value.op, ast.USub) else v_), st.value)
        elif isinstance(st, ast.AnnAssign) and isinstance(st.target, ast.Name) and isinstance(st.value, ast.Constant) and isinstance(st.value.value, (int, float, str, bytes)) and not isinstance(st.value.value, bool):
            cand[st.target.id] = st.value
        if isinstance(st, ast.Assign) and len(st.targets) == 1 and isinstance(st.targets[0], ast.Name) and isinstance(st.value, ast.Constant) \
                and isinstance(st.value.value, (int, float, str, bytes)) and not isinstance(st.value.value, bool):
            cand[st.targets[0].id] = st.value
        elif isinstance(st, ast.Assign) and len(st.targets) == 1 and isinstance(st.targets[0], ast.Name) and isinstance(st.value, ast.Attribute) and const_path(st.value):
            cand[st.targets[0].id] = st.value
    for n in ast.walk(tree):
        if isinstance(n, ast.Name) and isinstance(n.ctx, (ast.Store, ast.Del)):
            stores[n.id] = stores.get(n.id, 0) + 1
        elif isinstance(n, ast.Global):
            for nm in n.names:
                stores[nm] = stores.get(nm, 0) + 2
        elif isinstance(n, (ast.FunctionDef, ast.AsyncFunctionDef, ast.ClassDef)):
            stores[n.name] = stores.get(n.name, 0) + 2
    return {k: v for k, v in cand.items() if stores.get(k, 0) == 1}


def propagate_constants(mname, tree, fn, consts_by_module, notes, where):
    """in a function that differs from the reference, a module-level constant hoisted out of it reads as its literal"""
    local = set()
    for n in ast.walk(fn):
        if isinstance(n, ast.arg):
            local.add(n.arg)
        elif isinstance(n, ast.Name) and isinstance(n.ctx, (ast.Store, ast.Del)):
            local.add(n.id)
    table = dict(consts_by_module.get(mname, {}))
    for st in tree.body:
        if isinstance(st, ast.ImportFrom) and st.module in consts_by_module and st.level == 0:
            for a in st.names:
                if a.name in consts_by_module[st.module] and isinstance(consts_by_module[st.module][a.name], ast.Constant):
                    table.setdefault(a.asname or a.name, consts_by_module[st.module][a.name])  # (attribute paths are only read where their imports are)
    table = {k: v for k, v in table.items() if k not in local}
    if not table:
        return False
    done = set()

    class T(ast.NodeTransformer):
        def visit_Name(self, node):
            if isinstance(node.ctx, ast.Load) and node.id in table:
                done.add(node.id)
                v = table[node.id]
                return ast.copy_location(ast.Constant(value=v.value) if isinstance(v, ast.Constant) else _copy(v), node)
            return node
    T().visit(fn)
    if done:
        notes.append(f"{where}: module-level constant(s) {sorted(done)} read as their literals")
    return bool(done)


def desugar_suppress(tree, notes, mname):
    """`with contextlib.suppress(E1, ...): body`  is  `try: body / except (E1, ...): pass`  - written as the try statement,
    so that every analysis of handlers (exception flow, guards, fallbacks) sees it"""
    changed = False

    class T(ast.NodeTransformer):
        def visit_With(self, node):
            nonlocal changed
            self.generic_visit(node)
            if len(node.items) != 1 or node.items[0].optional_vars is not None:
                return node
            c = node.items[0].context_expr
            if not (isinstance(c, ast.Call) and not c.keywords and c.args and ((isinstance(c.func, ast.Attribute) and c.func.attr == "suppress" and isinstance(c.func.value, ast.Name) and c.func.value.id == "contextlib")
                                                                               or (isinstance(c.func, ast.Name) and c.func.id == "suppress" and (_import_of(tree, "suppress") or (None, None, None))[1:] == ("contextlib", "suppress")))):
                return node
            typ = c.args[0] if len(c.args) == 1 else ast.Tuple(elts=list(c.args), ctx=ast.Load())
            new = ast.Try(body=node.body, handlers=[ast.ExceptHandler(type=typ, name=None, body=[ast.Pass()])], orelse=[], finalbody=[])
            ast.copy_location(new, node)
            ast.fix_missing_locations(new)
            changed = True
            notes.append(f"{mname}: `with contextlib.suppress(...)` read as try / except ...: pass")
            return new
    T().visit(tree)
    return changed


def desugar_walrus(tree, notes, mname):
    """`if (m := f(x)) is None: ...`  is  `m = f(x)` followed by `if m is None: ...` - and likewise for a walrus in the value of a
    return / assignment / expression statement - whenever the assignment expression is evaluated unconditionally and before
    anything else of the statement that could have an effect (it sits on the left spine: test, left operand, first operand, callee
    argument after simple names and constants only).  Written as the plain assignment, so that every analysis sees a binding.
    A walrus in a `while` test, in a later operand of and / or, in a conditional expression's arms, in a comprehension or a lambda
    stays as it is (the interpreter evaluates it; the form rules leave it undecided)"""
    changed = False

    def simple(e):
        return isinstance(e, (ast.Name, ast.Constant)) or (isinstance(e, ast.Attribute) and simple(e.value))

    def find(e):
        """the assignment expression that is evaluated first in ``e``, with a setter that replaces it; None when there is none there"""
        if isinstance(e, ast.NamedExpr):
            if isinstance(e.target, ast.Name) and find(e.value) is None and not any(isinstance(x, ast.NamedExpr) for x in ast.walk(e.value)):
                return e
            return None
        if isinstance(e, ast.Compare):
            kids = [e.left] + list(e.comparators)
        elif isinstance(e, ast.UnaryOp):
            kids = [e.operand]
        elif isinstance(e, ast.BinOp):
            kids = [e.left, e.right]
        elif isinstance(e, ast.BoolOp):
            kids = [e.values[0]]
        elif isinstance(e, ast.IfExp):
            kids = [e.test]
        elif isinstance(e, ast.Attribute):
            kids = [e.value]
        elif isinstance(e, ast.Subscript):
            kids = [e.value, e.slice]
        elif isinstance(e, ast.Call):
            kids = [e.func] + list(e.args) + [k.value for k in e.keywords]
        elif isinstance(e, (ast.Tuple, ast.List)):
            kids = list(e.elts)
        else:
            return None
        for k in kids:
            got = find(k)
            if got is not None:
                return got
            if any(isinstance(x, ast.NamedExpr) for x in ast.walk(k)):
                return None  # a walrus further inside something that is evaluated conditionally
            if not simple(k):
                return None  # something with a possible effect is evaluated before the walrus
        return None

    class Replace(ast.NodeTransformer):
        def __init__(self, target):
            self.target = target

        def visit_NamedExpr(self, node):
            if node is self.target:
                return ast.copy_location(ast.Name(id=node.target.id, ctx=ast.Load()), node)
            return self.generic_visit(node)

        def visit_Lambda(self, node):
            return node

    def rewrite(stmts):
        nonlocal changed
        out = []
        for st in stmts:
            for field in ("body", "orelse", "finalbody"):
                sub = getattr(st, field, None)
                if isinstance(sub, list) and sub and isinstance(sub[0], ast.stmt):
                    setattr(st, field, rewrite(sub))
            for h in getattr(st, "handlers", []) or []:
                h.body = rewrite(h.body)
            for c in getattr(st, "cases", []) or []:
                c.body = rewrite(c.body)
            while True:
                holder = "test" if isinstance(st, ast.If) else "value" if isinstance(st, (ast.Return, ast.Assign, ast.Expr, ast.AnnAssign, ast.AugAssign)) else None
                expr = getattr(st, holder, None) if holder else None
                got = find(expr) if expr is not None else None
                if got is None:
                    break
                assign = ast.copy_location(ast.Assign(targets=[ast.Name(id=got.target.id, ctx=ast.Store())], value=got.value, lineno=st.lineno), st)
                ast.fix_missing_locations(assign)
                out.append(assign)
                setattr(st, holder, Replace(got).visit(expr))
                ast.fix_missing_locations(st)
                changed = True
                notes.append(f"{mname}: line {st.lineno}: `{got.target.id} := ...` written as an assignment before the statement")
            out.append(st)
        return out
    for node in ast.walk(tree):
        if isinstance(node, (ast.FunctionDef, ast.AsyncFunctionDef)):
            node.body = rewrite(node.body)
    return changed


def desugar_match(tree, notes, mname):
    """`match x: case C(): A / case D() | E(): B / case _: Z`  is  `if isinstance(x, C): A / elif isinstance(x, (D, E)): B / else: Z`
    when the subject is a name and every pattern is a class pattern without sub-patterns (or an alternative of such, a constant,
    None / True / False, or the wildcard): written as the if-chain, so that every analysis of branches sees it"""
    changed = False

    def test_of(pat, subj):
        if isinstance(pat, ast.MatchClass) and not pat.patterns and not pat.kwd_attrs:
            return ast.Call(func=ast.Name(id="isinstance", ctx=ast.Load()), args=[ast.Name(id=subj, ctx=ast.Load()), pat.cls], keywords=[])
        if isinstance(pat, ast.MatchOr):
            parts = [test_of(p, subj) for p in pat.patterns]
            if any(p is None for p in parts):
                return None
            if all(isinstance(p, ast.Call) and getattr(p.func, "id", None) == "isinstance" for p in parts):
                return ast.Call(func=ast.Name(id="isinstance", ctx=ast.Load()), args=[ast.Name(id=subj, ctx=ast.Load()), ast.Tuple(elts=[p.args[1] for p in parts], ctx=ast.Load())], keywords=[])
            return ast.BoolOp(op=ast.Or(), values=parts)
        if isinstance(pat, ast.MatchSingleton):
            return ast.Compare(left=ast.Name(id=subj, ctx=ast.Load()), ops=[ast.Is()], comparators=[ast.Constant(value=pat.value)])
        if isinstance(pat, ast.MatchValue) and isinstance(pat.value, ast.Constant):
            return ast.Compare(left=ast.Name(id=subj, ctx=ast.Load()), ops=[ast.Eq()], comparators=[pat.value])
        return None

    class T(ast.NodeTransformer):
        def visit_Match(self, node):
            nonlocal changed
            self.generic_visit(node)
            if not isinstance(node.subject, ast.Name):
                return node
            subj = node.subject.id
            arms = []
            default = None
            for i, case in enumerate(node.cases):
                if case.guard is not None:
                    return node
                pat = case.pattern
                if isinstance(pat, ast.MatchAs) and pat.pattern is None and pat.name is None:
                    if i != len(node.cases) - 1:
                        return node
                    default = case.body
                    continue
                t = test_of(pat, subj)
                if t is None:
                    return node
                arms.append((t, case.body))
            if not arms:
                return node
            orelse = default or []
            for t, body in reversed(arms):
                new = ast.If(test=t, body=body, orelse=orelse)
                orelse = [new]
            ast.copy_location(new, node)
            ast.fix_missing_locations(new)
            changed = True
            notes.append(f"{mname}: `match {subj}` over class patterns read as an isinstance chain")
            return new
    T().visit(tree)
    return changed


def prenormalise(trees):
    """trees: {module name: ast.Module}; rewrites in place -> (set of changed module names, notes)"""
    ref = load_reference()
    notes = []
    if ref is None:
        return set(), notes
    changed = set()
    for mname, tree in trees.items():
        if desugar_suppress(tree, notes, mname):
            changed.add(mname)
        if desugar_match(tree, notes, mname):
            changed.add(mname)
        if desugar_walrus(tree, notes, mname):
            changed.add(mname)
    for mname, old, new in detect_renames(trees, ref):
        table = function_table(trees[mname])
        node = table[new][0]
        old_base, new_base = old.rsplit(".", 1)[-1], new.rsplit(".", 1)[-1]
        if old_base == new_base:
            continue  # moved between nesting levels only: looked up by Module.func's fallback
        if identifiers_bound_elsewhere(trees.values(), new_base, node) or identifiers_bound_elsewhere(trees.values(), old_base, None):
            continue
        rename_everywhere(trees.values(), new_base, old_base)
        notes.append(f"{mname}: function {new} is the reference's {old} under a new name; analysed under its reference name")
        changed.update(trees)  # references may sit in any module
    inl = Inliner(trees, ref, notes)
    inl.run()
    changed |= inl.changed
    consts = {mname: _module_constants(tree) for mname, tree in trees.items()}
    for mname, tree in trees.items():
        known = ref.get(mname, {})
        for q, (fn, parent, cls) in function_table(tree).items():
            entry = known.get(q)
            if isinstance(entry, dict) and entry.get("hash") == body_hash(fn):
                continue  # as in the reference: left as written
            if propagate_constants(mname, tree, fn, consts, notes, f"{mname}:{q}"):
                changed.add(mname)
            if canonical_loops(fn, notes, f"{mname}:{q}"):
                changed.add(mname)
    return changed, notes


class SelfInliner(Inliner):
    """specialisation of a method for a concrete class: calls to other methods on ``self`` are replaced by the body the
    class's method resolution order selects (template-method refactorings: a base class _decode calling self._convert)"""

    def __init__(self, find_method, mod, cls, skip=("__init__",)):
        super().__init__({}, {}, [])
        self.find_method = find_method
        self.mod, self.cls_node, self.skip = mod, cls, set(skip)

    def resolve(self, mname, tree, func_expr, enclosing_cls, helpers):
        if isinstance(func_expr, ast.Attribute) and isinstance(func_expr.value, ast.Name) and func_expr.value.id == "self" and func_expr.attr not in self.skip:
            got = self.find_method(self.mod, self.cls_node, func_expr.attr)
            if got is not None:
                node, fmod, fcls = got
                h = Helper(mname, f"{fcls.name}.{node.name}", node, fcls.name)
                try:
                    h.check()
                except NotInlinable:
                    return None, None
                return h, func_expr.value
        return None, None

    def specialise(self, fn, rounds=3):
        fn = _copy(fn)
        _strip_parents(fn)
        for _ in range(rounds):
            if not self.inline_in_function(self.mod.name, None, fn, self.cls_node.name, {}):
                break
        ast.fix_missing_locations(fn)
        return ast.parse(ast.unparse(fn)).body[0]
