"""integer polynomials over named symbols (enough for record sizes/offsets)"""

from fractions import Fraction


# non-polynomial atoms (max/min of polynomials): symbol name -> (function name, [Poly args])
FUNC_ATOMS = {}


class Poly:
    __slots__ = ("t",)

    def __init__(self, terms=None):
        self.t = {k: v for k, v in (terms or {}).items() if v != 0}

    @staticmethod
    def const(c):
        return Poly({(): c})

    @staticmethod
    def sym(s):
        return Poly({(s,): 1})

    def __add__(self, o):
        o = lift(o)
        d = dict(self.t)
        for k, v in o.t.items():
            d[k] = d.get(k, 0) + v
        return Poly(d)

    __radd__ = __add__

    def __neg__(self):
        return Poly({k: -v for k, v in self.t.items()})

    def __sub__(self, o):
        return self + (-lift(o))

    def __rsub__(self, o):
        return lift(o) - self

    def __mul__(self, o):
        o = lift(o)
        d = {}
        for k1, v1 in self.t.items():
            for k2, v2 in o.t.items():
                k = tuple(sorted(k1 + k2))
                d[k] = d.get(k, 0) + v1 * v2
        return Poly(d)

    __rmul__ = __mul__

    def is_const(self):
        return all(k == () for k in self.t)

    def value(self):
        if not self.is_const():
            raise ValueError(f"not constant: {self}")
        return self.t.get((), 0)

    def symbols(self):
        return sorted({s for k in self.t for s in k})

    def degree(self):
        return max((len(k) for k in self.t), default=0)

    @staticmethod
    def func(name, args):
        """max/min of polynomials as an opaque atom that folds once its arguments are constant"""
        args = [lift(a) for a in args]
        if all(a.is_const() for a in args):
            vals = [a.value() for a in args]
            if name in ("floordiv", "mod"):
                if vals[1] == 0:
                    raise ZeroDivisionError(f"{name} by zero in a size expression")
                return Poly.const(vals[0] // vals[1] if name == "floordiv" else vals[0] % vals[1])
            return Poly.const({"max": max, "min": min}[name](vals))
        sym = f"{name}({', '.join(repr(a) for a in args)})"
        FUNC_ATOMS[sym] = (name, args)
        return Poly.sym(sym)

    def has_func_atoms(self):
        return any(s in FUNC_ATOMS for s in self.symbols())

    def plain_symbols(self):
        """ordinary symbols, looking inside max/min atoms"""
        out = set()
        for s in self.symbols():
            if s in FUNC_ATOMS:
                for a in FUNC_ATOMS[s][1]:
                    out |= set(a.plain_symbols())
            else:
                out.add(s)
        return sorted(out)

    def subs(self, mapping):
        """mapping: symbol -> Poly|int|new symbol name"""
        out = Poly()
        for k, v in self.t.items():
            term = Poly.const(v)
            for s in k:
                r = mapping.get(s, None)
                if r is None and s in FUNC_ATOMS:
                    name, args = FUNC_ATOMS[s]
                    r = Poly.func(name, [a.subs(mapping) for a in args])
                elif r is None:
                    r = Poly.sym(s)
                elif isinstance(r, str):
                    r = Poly.sym(r)
                term = term * lift(r)
            out = out + term
        return out

    def coeff(self, sym):
        """coefficient of a linear symbol (poly must be linear in it)"""
        return self.t.get((sym,), 0)

    def __eq__(self, o):
        try:
            return self.t == lift(o).t
        except TypeError:
            return NotImplemented

    def __hash__(self):
        return hash(tuple(sorted(self.t.items())))

    def __repr__(self):
        if not self.t:
            return "0"
        parts = []
        for k, v in sorted(self.t.items(), key=lambda kv: (len(kv[0]), kv[0])):
            if k == ():
                parts.append(str(v))
            else:
                parts.append(("" if v == 1 else "-" if v == -1 else f"{v}*") + "*".join(k))
        return " + ".join(parts).replace("+ -", "- ")


def lift(x):
    if isinstance(x, Poly):
        return x
    if isinstance(x, bool):
        raise TypeError("bool is not a size")
    if isinstance(x, (int, Fraction)):
        return Poly.const(x)
    raise TypeError(f"cannot lift {type(x).__name__} to a polynomial")
