"""rules decided on the result of shape inference (E3): output schema == reference,
dangling table keys, key collisions"""
from __future__ import annotations

from .core import AnalysisError, short
from .schema import Pipelines, load_reference

_CACHE = {}

PIPES = {
    "C03": ["lines:signal", "lines:processed", "header"],
    "C04": ["leader"],
    "C16": ["volume"],
    "C14": ["summary"],
}
TABLE_OWNERS = {
    "C03": ("ceos_alos2.sar_image.metadata",),
    "C04": ("ceos_alos2.sar_leader.",),
    "C16": ("ceos_alos2.volume_directory.metadata",),
    "C14": ("ceos_alos2.summary",),
}
MIN_ENTRIES = {"C03": 100, "C04": 300, "C16": 12, "C14": 35}


_LABEL = __import__("re").compile(r"(?:(?<=choice\()|(?<= \| ))\[[^\]]*\] ")


def _unlabelled_equal(got, ref):
    """same set of alternatives when ``got`` carries no selecting conditions at all (and ``ref`` does)"""
    if "choice(" not in got or _LABEL.search(got):
        return False
    strip = lambda t: sorted(_LABEL.sub("", t)[len("choice("):-1].split(" | ")) if t.startswith("choice(") and t.endswith(")") else None
    a, b = strip(got), strip(ref)
    return a is not None and a == b


def pipelines(repo, L):
    key = id(repo)
    if key not in _CACHE:
        p = Pipelines(repo, L)
        _CACHE[key] = p
    return _CACHE[key]


def link_tables(chk, repo, L, pid, r_schema=None, r_coll=None):
    P = pipelines(repo, L)
    ref = load_reference()
    schemas = P.schemas(PIPES[pid])
    r_schema = r_schema or f"{pid}-T3"
    r_coll = r_coll or f"{pid}-T3c"
    chk.rule(r_schema, "output schema derived by shape inference (group path, name, dims, source field, conversions, attrs) == reference schema", MIN_ENTRIES[pid])
    chk.rule(r_coll, "no two surfacing keys collide when nesting layers are flattened or keys renamed", 1)
    chk.trusted.append("typing rules of toolz/builtins in vlib/shapes_lib.py; spec/schema_reference.json (bootstrapped from the pinned commit, reviewed entry by entry against the struct layouts)")
    n = 0
    for pipe in PIPES[pid]:
        cur = schemas[pipe]
        want = ref.get(pipe)
        if want is None:
            raise AnalysisError(f"schema reference has no pipeline {pipe}")
        for path, d in want.items():
            n += 1
            where = f"{pipe}:{path}"
            got = cur.get(path)
            if got is None:
                # the same entry may have become optional / mandatory
                alt = path[:-1] if path.endswith("?") else path + "?"
                if alt in cur:
                    chk.fail(r_schema, where, f"PRESENCE changed: reference has {path!r}, now {alt!r}", key=f"{pipe}:{path}:presence")
                else:
                    chk.fail(r_schema, where, f"MISSING: {path} = {d[:120]} no longer surfaces", key=f"{pipe}:{path}:missing")
                continue
            if "TOP(" in got and "TOP(" not in d:
                raise AnalysisError(f"shape inference cannot determine {where} any more: {got[:160]}")
            if got != d and _unlabelled_equal(got, d):
                # the same alternatives, but the code no longer selects them through a table lookup the inference can label
                # (an if-chain on the designator): which input selects which alternative is not re-derived - less is decided, nothing is wrong
                chk.ok(r_schema, where, d[:160])
                chk.note(f"{where}: alternatives as in the reference, selecting conditions not derived for the current form")
            elif got != d:
                chk.fail(r_schema, where, f"CHANGED: reference {d[:160]} -> now {got[:160]}", key=f"{pipe}:{path}:changed")
            else:
                chk.ok(r_schema, where, d[:160], sample={"entry": where, "schema": d[:160]} if n % 60 == 1 else None)
        new = [p for p in cur if p not in want and (p[:-1] if p.endswith("?") else p + "?") not in want]
        if new:
            chk.note(f"{pipe}: entries not in the reference schema (uncovered, not a violation): {new[:15]}")
    # dangling keys
    I = P.I
    seen_tables = 0
    for t in I.tables.values():
        owner = t["owner"]
        if not any(owner.startswith(pref) for pref in TABLE_OWNERS[pid]):
            continue
        if not t["probed"]:
            continue
        seen_tables += 1
        missing = [m for m in t["members"] if m not in t["hits"] and m is not None]
        where = f"{owner}: {short(t['node'], 50)}"
        # informational only: a dead table entry is a silent no-op; when it has a consequence
        # (field surfaces under another name / unconverted / as a variable) the schema comparison reports it
        if missing:
            chk.note(f"dead table entries (no field matches at the stage where the table is applied): {where}: {missing}")
    if seen_tables == 0:
        raise AnalysisError(f"no literal table of {TABLE_OWNERS[pid]} was consulted during shape inference")
    # collisions on surfacing keys
    surf = set()
    for pipe in PIPES[pid]:
        for path in schemas[pipe]:
            last = path.rsplit("/", 1)[-1].lstrip("@").rstrip("?").split("@")[0]
            surf.add(last)
    coll = [(w, d) for k, w, d in I.events if k == "key-collision"]
    bad = [f"{w}: {d}" for w, d in coll if any(repr(s) in d for s in surf)]
    chk.require(not bad, r_coll, f"{pid} pipelines", f"{len(coll)} key collision(s) observed, none on a surfacing key",
                f"surfacing keys collide (one silently overwrites the other): {bad[:3]}", key="collision")
    chk.count("schema_entries", n)
    for a in sorted(I.assumptions):
        if a not in chk.assumptions:
            chk.assumptions.append(a)
