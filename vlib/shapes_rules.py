"""placeholder until the shape-inference engine (E3) lands"""


def link_tables(chk, repo, L, pid):
    chk.note("E3 table linking not yet built")
