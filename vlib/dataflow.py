"""def-use helpers on a single function (flow-insensitive where a name has one
definition, refusing -- not guessing -- where it has several)"""

from __future__ import annotations

import ast
import copy

from .core import AnalysisError, norm, parents, walk_no_nested


def bound_names_in(expr):
    """names bound inside an expression (comprehension targets, lambda params)"""
    out = set()
    for n in ast.walk(expr):
        if isinstance(n, ast.comprehension):
            for t in ast.walk(n.target):
                if isinstance(t, ast.Name):
                    out.add(t.id)
        elif isinstance(n, ast.Lambda):
            a = n.args
            for x in a.posonlyargs + a.args + a.kwonlyargs:
                out.add(x.arg)
            if a.vararg:
                out.add(a.vararg.arg)
            if a.kwarg:
                out.add(a.kwarg.arg)
        elif isinstance(n, ast.NamedExpr):
            out.add(n.target.id)
    return out


class Flow:
    def __init__(self, fi):
        self.fi = fi
        self.lb = fi.local_bindings()

    def single_def(self, name):
        """the unique ('assign', expr) definition of a local, else None"""
        entries = self.lb.get(name)
        if not entries or len(entries) != 1:
            return None
        kind, val = entries[0]
        if kind == "assign":
            return val
        return None

    def unpack_def(self, name):
        entries = self.lb.get(name)
        if not entries or len(entries) != 1:
            return None
        kind, val = entries[0]
        if kind == "unpack":
            return val  # ("unpack", value_expr, index, n)
        return None

    def expand(self, expr, depth=8, stop=()):
        """copy of expr with single-assignment locals replaced by their definitions"""
        expr = copy.deepcopy(expr)
        return self._expand(expr, depth, set(stop))

    def _expand(self, expr, depth, stop):
        if depth <= 0:
            return expr
        bound = bound_names_in(expr)

        flow = self

        class T(ast.NodeTransformer):
            def visit_Name(self, n):
                if not isinstance(n.ctx, ast.Load) or n.id in bound or n.id in stop:
                    return n
                if n.id in flow.fi.params and n.id not in flow.lb:
                    return n
                d = flow.single_def(n.id)
                if d is None:
                    return n
                return flow._expand(copy.deepcopy(d), depth - 1, stop | {n.id})

        return T().visit(expr)

    def deps(self, expr, _seen=None):
        """free names (params, globals, multiply-defined locals) expr depends on,
        following every local definition (all of them: an over-approximation)"""
        _seen = _seen if _seen is not None else set()
        out = set()
        bound = bound_names_in(expr)
        for n in ast.walk(expr):
            if isinstance(n, ast.Name) and isinstance(n.ctx, ast.Load) and n.id not in bound:
                if n.id in _seen:
                    continue
                entries = self.lb.get(n.id)
                if entries and not (n.id in self.fi.params and False):
                    _seen.add(n.id)
                    for kind, val in entries:
                        if kind in ("assign", "iter", "with") and isinstance(val, ast.AST):
                            out |= self.deps(val, _seen)
                        elif kind == "unpack":
                            out |= self.deps(val[1], _seen)
                        elif kind == "aug":
                            out |= self.deps(val.value, _seen)
                        else:
                            out.add(n.id)
                    if n.id in self.fi.params:
                        out.add(n.id)
                else:
                    out.add(n.id)
        return out

    def names_derived_from(self, seeds):
        """locals (transitively) computed from any of the seed names"""
        derived = set(seeds)
        changed = True
        while changed:
            changed = False
            for name, entries in self.lb.items():
                if name in derived:
                    continue
                for kind, val in entries:
                    e = val if isinstance(val, ast.AST) else (val[1] if kind == "unpack" else None)
                    if kind == "aug":
                        e = val.value
                    if e is None:
                        continue
                    used = {n.id for n in ast.walk(e) if isinstance(n, ast.Name)}
                    if used & derived:
                        derived.add(name)
                        changed = True
                        break
        return derived


def calls_in(fi, include_lambdas=True):
    return [n for n in fi.own_nodes(include_lambdas) if isinstance(n, ast.Call)]


def enclosing_stmt(node):
    for p in [node] + list(parents(node)):
        if isinstance(p, ast.stmt):
            return p
    return None


def loop_depth(node, stop_at):
    """number of enclosing loops/comprehensions between node and stop_at (a function node)"""
    d = 0
    prev = node
    for p in parents(node):
        if p is stop_at:
            break
        if isinstance(p, (ast.For, ast.AsyncFor, ast.While)):
            # the iterable / test is evaluated outside the body
            if prev in p.body or prev in p.orelse:
                d += 1
        elif isinstance(p, (ast.ListComp, ast.SetComp, ast.DictComp, ast.GeneratorExp)):
            # first iterable is evaluated once
            if not (p.generators and prev is p.generators[0] and False):
                first_iter = p.generators[0].iter
                if not _contains(first_iter, node):
                    d += 1
        prev = p
    return d


def _contains(root, node):
    return any(n is node for n in ast.walk(root))


def source_order(fi, nodes):
    """nodes sorted by position in the function (line, col)"""
    return sorted(nodes, key=lambda n: (n.lineno, n.col_offset))
