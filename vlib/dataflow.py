"""def-use helpers on a single function (flow-insensitive where a name has one
definition, refusing -- not guessing -- where it has several)"""

from __future__ import annotations

import ast
import copy

from .core import AnalysisError, norm, parents, walk_no_nested


def bound_names_in(expr):
    """names bound inside an expression (comprehension targets, lambda params)"""
    out = set()
    for n in ast.walk(expr):
        if isinstance(n, ast.comprehension):
            for t in ast.walk(n.target):
                if isinstance(t, ast.Name):
                    out.add(t.id)
        elif isinstance(n, ast.Lambda):
            a = n.args
            for x in a.posonlyargs + a.args + a.kwonlyargs:
                out.add(x.arg)
            if a.vararg:
                out.add(a.vararg.arg)
            if a.kwarg:
                out.add(a.kwarg.arg)
        elif isinstance(n, ast.NamedExpr):
            out.add(n.target.id)
    return out


def _always_exits(stmts):
    if not stmts:
        return False
    last = stmts[-1]
    if isinstance(last, (ast.Raise, ast.Return)):
        return True
    if isinstance(last, ast.If):
        return _always_exits(last.body) and _always_exits(last.orelse)
    return False


def _definitely_assigns(stmts, name):
    for st in stmts:
        if isinstance(st, ast.Assign) and any(isinstance(t, ast.Name) and t.id == name for t in st.targets):
            return True
        if isinstance(st, ast.If) and _definitely_assigns(st.body, name) and _definitely_assigns(st.orelse, name):
            return True
        if isinstance(st, ast.With) and _definitely_assigns(st.body, name):
            return True
        if isinstance(st, ast.Try) and _definitely_assigns(st.body, name) and all(_definitely_assigns(h.body, name) or _always_exits(h.body) for h in st.handlers):
            return True
    return False


def clone(node, repl=None):
    """structural copy of an AST (fields only: no parent links), substituting nodes by id"""
    repl = repl or {}

    def rec(n):
        if id(n) in repl:
            return repl[id(n)]
        if isinstance(n, ast.AST):
            new = type(n)()
            for f, v in ast.iter_fields(n):
                setattr(new, f, rec(v))
            for a in ("lineno", "col_offset", "end_lineno", "end_col_offset"):
                if hasattr(n, a):
                    setattr(new, a, getattr(n, a))
            return new
        if isinstance(n, list):
            return [rec(x) for x in n]
        return n

    return rec(node)


class Flow:
    def __init__(self, fi):
        self.fi = fi
        self.lb = fi.local_bindings()

    def single_def(self, name):
        """the unique ('assign', expr) definition of a local, else None"""
        entries = self.lb.get(name)
        if not entries or len(entries) != 1:
            return None
        kind, val = entries[0]
        if kind == "assign":
            return val
        return None

    def unpack_def(self, name):
        entries = self.lb.get(name)
        if not entries or len(entries) != 1:
            return None
        kind, val = entries[0]
        if kind == "unpack":
            return val  # ("unpack", value_expr, index, n)
        return None

    def _assign_stmts(self, name):
        """[(stmt, value expr)] plain assignments ``name = value`` in this activation"""
        out = []
        for n in self.fi.own_nodes(include_lambdas=False):
            if isinstance(n, ast.Assign):
                for t in n.targets:
                    if isinstance(t, ast.Name) and t.id == name:
                        out.append((n, n.value))
                    elif isinstance(t, (ast.Tuple, ast.List)) and any(isinstance(e, ast.Name) and e.id == name for e in ast.walk(t)):
                        out.append((n, None))
            elif isinstance(n, ast.AnnAssign) and isinstance(n.target, ast.Name) and n.target.id == name and n.value is not None:
                out.append((n, n.value))
            elif isinstance(n, ast.AugAssign) and isinstance(n.target, ast.Name) and n.target.id == name:
                out.append((n, None))
            elif isinstance(n, (ast.For, ast.AsyncFor)) and any(isinstance(e, ast.Name) and e.id == name for e in ast.walk(n.target)):
                out.append((n, None))
            elif isinstance(n, (ast.With, ast.AsyncWith)):
                for it in n.items:
                    if it.optional_vars is not None and any(isinstance(e, ast.Name) and e.id == name for e in ast.walk(it.optional_vars)):
                        out.append((n, None))
        return out

    def reaching_def(self, name, at):
        """the defining expression of ``name`` that reaches node ``at``: the last assignment before
        ``at`` in source order, provided it dominates ``at`` (same or enclosing block); else None"""
        pos = (getattr(at, "lineno", None), getattr(at, "col_offset", 0))
        if pos[0] is None:
            return self.single_def(name)
        before = [(s, v) for s, v in self._assign_stmts(name) if (s.lineno, s.col_offset) < pos and not _contains(s, at)]
        if not before:
            return None
        s, v = max(before, key=lambda sv: (sv[0].lineno, sv[0].col_offset))
        if v is None:
            return None
        # dominance: the block holding s must (transitively) hold ``at``
        block_owner = getattr(s, "_parent", None)
        anc = [at] + list(parents(at))
        # an assignment in a try body whose handlers all leave the function dominates what follows the try
        while isinstance(block_owner, ast.Try) and any(x is s for x in block_owner.body) and not any(a is block_owner for a in anc) \
                and all(_always_exits(h.body) for h in block_owner.handlers) and not block_owner.orelse:
            s = block_owner
            block_owner = getattr(s, "_parent", None)
        if not any(a is block_owner for a in anc):
            return None
        # s must not sit in a different branch of the owner than ``at`` (e.g. if-body vs else)
        for field in ("body", "orelse", "finalbody", "handlers"):
            blk = getattr(block_owner, field, None)
            if isinstance(blk, list) and any(x is s for x in blk):
                if not any(any(a is x for a in anc) for x in blk):
                    return None
        # a loop carrying a later redefinition would also reach: refuse
        later = [x for x, _ in self._assign_stmts(name) if (x.lineno, x.col_offset) > pos]
        for x in later:
            for p in parents(x):
                if isinstance(p, (ast.For, ast.While, ast.AsyncFor)) and any(a is p for a in anc):
                    return None
        return v

    def reaching_defs(self, name, at):
        """every defining expression of ``name`` that may reach ``at`` (branches merged): the last dominating assignment
        unless the conditional assignments after it cover all paths, plus those conditional assignments.
        None when some definition is not a plain assignment (loop variable, augmented, unpacking)"""
        one = self.reaching_def(name, at)
        pos = (getattr(at, "lineno", None), getattr(at, "col_offset", 0))
        if pos[0] is None:
            return [one] if one is not None else None
        before = [(s, v) for s, v in self._assign_stmts(name) if (s.lineno, s.col_offset) < pos and not _contains(s, at)]
        if not before:
            return None
        if any(v is None for s, v in before):
            return None
        anc = [at] + list(parents(at))

        def dominates(s):
            owner = getattr(s, "_parent", None)
            if not any(a is owner for a in anc):
                return False
            for field in ("body", "orelse", "finalbody", "handlers"):
                blk = getattr(owner, field, None)
                if isinstance(blk, list) and any(x is s for x in blk):
                    return any(any(a is x for a in anc) for x in blk)
            return True
        doms = [(s, v) for s, v in before if dominates(s)]
        last_dom = max(doms, key=lambda sv: (sv[0].lineno, sv[0].col_offset)) if doms else None
        cond = [(s, v) for s, v in before if not dominates(s) and (last_dom is None or (s.lineno, s.col_offset) > (last_dom[0].lineno, last_dom[0].col_offset))]
        if not cond:
            return [last_dom[1]] if last_dom is not None else None
        # do the conditional assignments cover every path?  look at the outermost statement holding them
        tops = set()
        for s, _ in cond:
            t = s
            while getattr(t, "_parent", None) is not None and not any(a is t._parent for a in anc):
                t = t._parent
            tops.add(id(t))
            top = t
        covered = len(tops) == 1 and _definitely_assigns([top], name)
        out = [v for _, v in cond]
        if not covered:
            if last_dom is None:
                return None
            out.insert(0, last_dom[1])
        return out

    def expand(self, expr, depth=8, stop=()):
        """copy of expr with locals replaced by their (reaching) definitions"""
        return self._expand(expr, depth, set(stop), expr)

    def _expand(self, expr, depth, stop, at):
        if depth <= 0:
            return clone(expr)
        bound = bound_names_in(expr)
        flow = self
        repl = {}
        for n in ast.walk(expr):
            if isinstance(n, ast.Name) and isinstance(n.ctx, ast.Load) and n.id not in bound and n.id not in stop:
                if n.id in flow.fi.params and n.id not in flow.lb:
                    continue
                where = n if hasattr(n, "lineno") and getattr(n, "_parent", None) is not None else at
                d = flow.reaching_def(n.id, where)
                if d is None:
                    continue
                repl[id(n)] = flow._expand(d, depth - 1, stop | {n.id}, d)
        return clone(expr, repl)

    def deps(self, expr, _seen=None):
        """free names (params, globals, multiply-defined locals) expr depends on,
        following every local definition (all of them: an over-approximation)"""
        _seen = _seen if _seen is not None else set()
        out = set()
        bound = bound_names_in(expr)
        for n in ast.walk(expr):
            if isinstance(n, ast.Name) and isinstance(n.ctx, ast.Load) and n.id not in bound:
                if n.id in _seen:
                    continue
                entries = self.lb.get(n.id)
                if entries and not (n.id in self.fi.params and False):
                    _seen.add(n.id)
                    for kind, val in entries:
                        if kind in ("assign", "iter", "with") and isinstance(val, ast.AST):
                            out |= self.deps(val, _seen)
                        elif kind == "unpack":
                            out |= self.deps(val[1], _seen)
                        elif kind == "aug":
                            out |= self.deps(val.value, _seen)
                        else:
                            out.add(n.id)
                    if n.id in self.fi.params:
                        out.add(n.id)
                else:
                    out.add(n.id)
        return out

    def names_derived_from(self, seeds):
        """locals (transitively) computed from any of the seed names"""
        derived = set(seeds)
        changed = True
        while changed:
            changed = False
            for name, entries in self.lb.items():
                if name in derived:
                    continue
                for kind, val in entries:
                    e = val if isinstance(val, ast.AST) else (val[1] if kind == "unpack" else None)
                    while isinstance(e, tuple):  # nested unpacking: ("unpack", value, i, n) inside another
                        e = e[1] if len(e) > 1 else None
                    if kind == "aug":
                        e = val.value
                    if not isinstance(e, ast.AST):
                        continue
                    used = {n.id for n in ast.walk(e) if isinstance(n, ast.Name)}
                    if used & derived:
                        derived.add(name)
                        changed = True
                        break
        return derived


def calls_in(fi, include_lambdas=True):
    return [n for n in fi.own_nodes(include_lambdas) if isinstance(n, ast.Call)]


def enclosing_stmt(node):
    for p in [node] + list(parents(node)):
        if isinstance(p, ast.stmt):
            return p
    return None


def loop_depth(node, stop_at):
    """number of enclosing loops/comprehensions between node and stop_at (a function node)"""
    d = 0
    prev = node
    for p in parents(node):
        if p is stop_at:
            break
        if isinstance(p, (ast.For, ast.AsyncFor, ast.While)):
            # the iterable / test is evaluated outside the body
            if prev in p.body or prev in p.orelse:
                d += 1
        elif isinstance(p, (ast.ListComp, ast.SetComp, ast.DictComp, ast.GeneratorExp)):
            # first iterable is evaluated once
            if not (p.generators and prev is p.generators[0] and False):
                first_iter = p.generators[0].iter
                if not _contains(first_iter, node):
                    d += 1
        prev = p
    return d


def _contains(root, node):
    return any(n is node for n in ast.walk(root))


def source_order(fi, nodes):
    """nodes sorted by position in the function (line, col)"""
    return sorted(nodes, key=lambda n: (n.lineno, n.col_offset))


def enclosing_iterations(node, stop_at):
    """loops that repeat ``node``, innermost first, as (iterable expr, target) pairs: a for statement whose body holds the
    node, or the comprehension generators that are evaluated per element around it (a call inside the iterable of
    generator k is repeated by generators 0..k-1 only)"""
    out = []
    prev = node
    for p in parents(node):
        if p is stop_at:
            break
        if isinstance(p, (ast.For, ast.AsyncFor)):
            if any(prev is x for x in p.body) or any(prev is x for x in p.orelse):
                out.append((p.iter, p.target))
        elif isinstance(p, ast.While):
            if any(prev is x for x in p.body):
                out.append((None, None))
        elif isinstance(p, (ast.ListComp, ast.SetComp, ast.DictComp, ast.GeneratorExp)):
            gens = p.generators
            if isinstance(prev, ast.comprehension):
                k = next(i for i, g in enumerate(gens) if g is prev)
                inside_iter = _contains(prev.iter, node)
                upto = k if inside_iter else k + 1
            else:
                upto = len(gens)
            for g in reversed(gens[:upto]):
                out.append((g.iter, g.target))
        prev = p
    return out


ACCESS_PATH = (ast.Name, ast.Attribute, ast.Subscript, ast.Constant, ast.Slice, ast.Tuple, ast.UnaryOp)


def is_access_path(e):
    """a plain reference: names, attributes and constant subscripts only (no calls, no arithmetic)"""
    return all(isinstance(n, ACCESS_PATH + (ast.Load, ast.USub)) for n in ast.walk(e))


def init_aliases(fi):
    """{parameter name: 'self.<attr>'} for the parameters an initialiser stores unchanged (`self.x = x`, x never rebound):
    inside that function the parameter and the attribute are the same object"""
    out = {}
    params = set(fi.params)
    rebound = set()
    for n in fi.own_nodes():
        if isinstance(n, (ast.Assign, ast.AugAssign, ast.AnnAssign)):
            for t in (n.targets if isinstance(n, ast.Assign) else [n.target]):
                for x in ast.walk(t):
                    if isinstance(x, ast.Name) and isinstance(x.ctx, ast.Store):
                        rebound.add(x.id)
    for st in fi.node.body:
        if isinstance(st, ast.Assign) and len(st.targets) == 1 and isinstance(st.targets[0], ast.Attribute) and isinstance(st.targets[0].value, ast.Name) \
                and st.targets[0].value.id == "self" and isinstance(st.value, ast.Name) and st.value.id in params and st.value.id not in rebound:
            out.setdefault(st.value.id, f"self.{st.targets[0].attr}")
    # a local bound once to an attribute that this function never stores: `ranges = self.byte_ranges`
    stores = {}
    attr_stored = set()
    for n in fi.own_nodes():
        if isinstance(n, (ast.Assign, ast.AugAssign, ast.AnnAssign)):
            for t in (n.targets if isinstance(n, ast.Assign) else [n.target]):
                for x in ast.walk(t):
                    if isinstance(x, ast.Name) and isinstance(x.ctx, ast.Store):
                        stores[x.id] = stores.get(x.id, 0) + 1
                    if isinstance(x, ast.Attribute) and isinstance(x.value, ast.Name) and x.value.id == "self":
                        attr_stored.add(x.attr)
        elif isinstance(n, (ast.For, ast.comprehension, ast.With, ast.NamedExpr)):
            tgt = n.target if not isinstance(n, ast.With) else None
            for x in (ast.walk(tgt) if tgt is not None else []):
                if isinstance(x, ast.Name):
                    stores[x.id] = stores.get(x.id, 0) + 2
    for st in fi.node.body:
        if isinstance(st, ast.Assign) and len(st.targets) == 1 and isinstance(st.targets[0], ast.Name) and stores.get(st.targets[0].id) == 1 and st.targets[0].id not in params \
                and isinstance(st.value, ast.Attribute) and isinstance(st.value.value, ast.Name) and st.value.value.id == "self" and st.value.attr not in attr_stored:
            out.setdefault(st.targets[0].id, f"self.{st.value.attr}")
    return out


def canon_self(fi, expr, aliases=None):
    """text of ``expr`` with aliased initialiser parameters written as the attributes they are stored in"""
    aliases = init_aliases(fi) if aliases is None else aliases

    class R(ast.NodeTransformer):
        def visit_Name(self, node):
            if isinstance(node.ctx, ast.Load) and node.id in aliases:
                return ast.parse(aliases[node.id], mode="eval").body
            return node
    return norm(R().visit(clone(expr)))


def wired(flow, expr, wants):
    """is ``expr`` (after replacing locals by their reaching definitions) one of the wanted reference texts?
    -> ('equal'|'different'|'unknown', expanded text).  'different' only when the expression is a plain reference to
    something else; anything computed is 'unknown' (the caller reports it as undecided, never as a violation)."""
    if expr is None:
        return "different", None
    wants = [wants] if isinstance(wants, str) else list(wants)
    e = flow.expand(expr)
    t = norm(e).replace('"', "'")
    if t in [w.replace('"', "'") for w in wants] or norm(expr).replace('"', "'") in wants:
        return "equal", t
    if is_access_path(e):
        return "different", t
    return "unknown", t


def require_wired(chk, flow, expr, wants, rule, where, ok_text, bad_text, key, sample=None):
    """three-way obligation on a wiring: holds / violated (a plain reference to something else) / undecided"""
    verdict, t = wired(flow, expr, wants)
    if verdict == "unknown":
        raise AnalysisError(f"{where}: {ok_text}: found `{t}`, which is computed rather than referenced; not decided")
    return chk.require(verdict == "equal", rule, where, ok_text, f"{bad_text} (found `{t}`)", key=key, sample=sample)



def dep_closure(fi, exprs):
    """names the expressions may depend on, data or control, inside one function (over-approximation: every definition of a
    name, every in-place update  x.m(args) / x[k] = v / x += v  of it, and the tests / iterables that guard those statements)"""
    from .core import parents
    lb = fi.local_bindings()
    updates = {}
    for n in fi.own_nodes():
        root, val = None, []
        if isinstance(n, ast.Expr) and isinstance(n.value, ast.Call) and isinstance(n.value.func, ast.Attribute):
            r = n.value.func.value
            while isinstance(r, (ast.Attribute, ast.Subscript)):
                r = r.value
            if isinstance(r, ast.Name):
                root, val = r.id, list(n.value.args) + [k.value for k in n.value.keywords]
        elif isinstance(n, (ast.Assign, ast.AugAssign)):
            for t in (n.targets if isinstance(n, ast.Assign) else [n.target]):
                r = t
                extra = []
                while isinstance(r, (ast.Attribute, ast.Subscript)):
                    if isinstance(r, ast.Subscript):
                        extra.append(r.slice)
                    r = r.value
                if isinstance(r, ast.Name) and (r is not t or isinstance(n, ast.AugAssign)):
                    root, val = r.id, [n.value] + extra
        if root is None:
            continue
        guards = []
        for p in parents(n):
            if p is fi.node:
                break
            if isinstance(p, (ast.If, ast.While)):
                guards.append(p.test)
            elif isinstance(p, (ast.For, ast.AsyncFor)):
                guards.append(p.iter)
        updates.setdefault(root, []).extend(val + guards)
    seen, todo = set(), [x.id for e in exprs for x in ast.walk(e) if isinstance(x, ast.Name)]
    while todo:
        nm = todo.pop()
        if nm in seen:
            continue
        seen.add(nm)
        vals = []
        for kind, val in lb.get(nm, []):
            if kind == "aug":
                vals.append(val.value)
            elif kind == "unpack":
                vals.append(val[1])
            elif isinstance(val, ast.AST):
                vals.append(val)
        vals += updates.get(nm, [])
        for v in vals:
            todo += [x.id for x in ast.walk(v) if isinstance(x, ast.Name)]
    return seen
