"""inter-procedural helpers: callee resolution (incl. curry/partial and literal
dispatch tables), argument binding, inlining of single-return functions"""
from __future__ import annotations

import ast
import copy

from .core import AnalysisError, FuncInfo, norm
from .dataflow import Flow, bound_names_in, clone

PARTIAL_NAMES = {"curry", "partial"}


def dataclass_fields(cls):
    """init parameters of a @dataclass class body (AnnAssign order), honouring field(init=False)"""
    out = []
    for st in cls.body:
        if isinstance(st, ast.AnnAssign) and isinstance(st.target, ast.Name):
            init = True
            if isinstance(st.value, ast.Call) and isinstance(st.value.func, ast.Name) and st.value.func.id == "field":
                for k in st.value.keywords:
                    if k.arg == "init" and isinstance(k.value, ast.Constant) and k.value.value is False:
                        init = False
            if init:
                out.append(st.target.id)
    if not out:
        # a plain class: the parameters of its explicit __init__
        for st in cls.body:
            if isinstance(st, ast.FunctionDef) and st.name == "__init__":
                a = st.args
                out = [x.arg for x in (a.posonlyargs + a.args)[1:]] + [x.arg for x in a.kwonlyargs]
    return out


def dict_entries(repo, mod, expr, _depth=0):
    """{constant key: value node} of a module-level table however it is assembled: a dict literal, `{**a, **b}`, `a | b`,
    `dict(a, **b)` / `dict(k=v)`, `merge(a, b)`, or a name bound once to one of those.  None when it is built some other way"""
    from .core import const_str
    if _depth > 6 or expr is None:
        return None
    if isinstance(expr, ast.Name):
        r = repo.resolve_module_name(mod, expr.id)
        if r.kind == "value" and len(r.exprs) == 1:
            return dict_entries(repo, r.mod, r.exprs[0], _depth + 1)
        return None
    if isinstance(expr, ast.Dict):
        out = {}
        for k, v in zip(expr.keys, expr.values):
            if k is None:
                sub = dict_entries(repo, mod, v, _depth + 1)
                if sub is None:
                    return None
                out.update(sub)
            else:
                key = const_str(k) if const_str(k) is not None else (k.value if isinstance(k, ast.Constant) else None)
                if key is None:
                    return None
                out[key] = v
        return out
    if isinstance(expr, ast.BinOp) and isinstance(expr.op, ast.BitOr):
        a, b = dict_entries(repo, mod, expr.left, _depth + 1), dict_entries(repo, mod, expr.right, _depth + 1)
        if a is None or b is None:
            return None
        return {**a, **b}
    if isinstance(expr, ast.Call):
        name = expr.func.attr if isinstance(expr.func, ast.Attribute) else getattr(expr.func, "id", None)
        if name in ("dict", "OrderedDict", "merge"):
            out = {}
            for a in expr.args:
                sub = dict_entries(repo, mod, a, _depth + 1)
                if sub is None:
                    return None
                out.update(sub)
            for k in expr.keywords:
                if k.arg is None:
                    sub = dict_entries(repo, mod, k.value, _depth + 1)
                    if sub is None:
                        return None
                    out.update(sub)
                else:
                    out[k.arg] = k.value
            return out
    return None


class Callee:
    """a resolved callee: repo function or dataclass constructor"""

    def __init__(self, func=None, cls=None, mod=None, pre_args=(), pre_kwargs=None, via=None):
        self.func = func
        self.cls = cls
        self.mod = mod
        self.pre_args = list(pre_args)
        self.pre_kwargs = dict(pre_kwargs or {})
        self.via = via

    @property
    def key(self):
        if self.func is not None:
            return self.func.key
        return f"{self.mod.name}:{self.cls.name}"

    def params(self):
        if self.func is not None:
            ps = self.func.positional_params
            if self.func.cls is not None and ps and ps[0] in ("self", "cls"):
                ps = ps[1:]
            return ps, self.func.kwonly_params
        return dataclass_fields(self.cls), []

    def has_default(self, name):
        if self.func is not None:
            return self.func.param_default(name) is not None
        for st in self.cls.body:
            if isinstance(st, ast.AnnAssign) and isinstance(st.target, ast.Name) and st.target.id == name:
                if st.value is None:
                    return False
                if isinstance(st.value, ast.Call) and isinstance(st.value.func, ast.Name) and st.value.func.id == "field":
                    return any(k.arg in ("default", "default_factory") for k in st.value.keywords)
                return True
        return False


def resolve_callees(repo, fi, expr, _depth=0):
    """possible repo callees denoted by a callable expression -> [Callee]"""
    if _depth > 6:
        return []
    r = repo.resolve_expr(fi, expr) if isinstance(expr, (ast.Name, ast.Attribute)) else None
    if r is not None:
        if r.kind == "func":
            return [Callee(func=r.func)]
        if r.kind == "class":
            return [Callee(cls=r.node, mod=r.mod)]
        if r.kind == "local":
            out = []
            for kind, val in r.entries:
                if kind == "assign" and isinstance(val, ast.AST):
                    out.extend(resolve_callees(repo, r.func, val, _depth + 1))
            return out
        if r.kind == "value":
            out = []
            for e in r.exprs:
                out.extend(resolve_callees(repo, r.mod, e, _depth + 1))
            return out
        return []
    if isinstance(expr, ast.Call):
        fr = repo.resolve_expr(fi, expr.func) if isinstance(expr.func, (ast.Name, ast.Attribute)) else None
        # curry(f, *a, **k) / partial(f, ...)
        if fr is not None and fr.kind == "external" and fr.fq.split(".")[-1] in PARTIAL_NAMES and expr.args:
            inner = resolve_callees(repo, fi, expr.args[0], _depth + 1)
            out = []
            for c in inner:
                out.append(Callee(func=c.func, cls=c.cls, mod=c.mod, pre_args=c.pre_args + list(expr.args[1:]),
                                  pre_kwargs={**c.pre_kwargs, **{k.arg: k.value for k in expr.keywords if k.arg}}, via=expr))
            return out
        # table.get(key[, default]) on a literal dict of callables
        if isinstance(expr.func, ast.Attribute) and expr.func.attr == "get":
            table = _dict_literal(repo, fi, expr.func.value)
            if table is not None:
                out = []
                for v in table.values:
                    out.extend(resolve_callees(repo, fi, v, _depth + 1))
                if len(expr.args) > 1:
                    out.extend(resolve_callees(repo, fi, expr.args[1], _depth + 1))
                return out
        return []
    if isinstance(expr, ast.Subscript):
        table = _dict_literal(repo, fi, expr.value)
        if table is not None:
            out = []
            for v in table.values:
                out.extend(resolve_callees(repo, fi, v, _depth + 1))
            return out
    if isinstance(expr, ast.Lambda):
        scope_mod = fi.module if isinstance(fi, FuncInfo) else fi
        for f in scope_mod.funcs.values():
            if f.node is expr:
                return [Callee(func=f)]
    return []


def _dict_literal(repo, fi, expr):
    if isinstance(expr, ast.Dict):
        return expr
    if isinstance(expr, ast.Name):
        r = repo.resolve_name(fi, expr.id)
        if r.kind == "local":
            vals = [v for k, v in r.entries if k == "assign" and isinstance(v, ast.Dict)]
            if len(vals) == 1 and len(r.entries) == 1:
                return vals[0]
        if r.kind == "value" and len(r.exprs) == 1 and isinstance(r.exprs[0], ast.Dict):
            return r.exprs[0]
    return None


def bind_args(callee, call, partial=False):
    """map callee parameter names to the argument expressions of ``call``
    -> (bound: {param: expr}, unknown: bool (star-args present))"""
    pos, kwonly = callee.params()
    bound = {}
    unknown = False
    args = list(callee.pre_args) + ([] if partial else list(call.args))
    i = 0
    for a in args:
        if isinstance(a, ast.Starred):
            unknown = True
            break
        if i < len(pos):
            bound[pos[i]] = a
        i += 1
    for k, v in callee.pre_kwargs.items():
        bound[k] = v
    if not partial:
        for k in call.keywords:
            if k.arg is None:
                unknown = True
            else:
                bound[k.arg] = k.value
    return bound, unknown


def single_return(fi):
    """the returned expression of a function whose body is assignments + one return, else None"""
    if fi.is_lambda:
        return fi.node.body
    rets = [n for n in fi.own_nodes(include_lambdas=False) if isinstance(n, ast.Return)]
    if len(rets) != 1 or rets[0].value is None:
        return None
    for st in fi.node.body:
        if isinstance(st, (ast.Assign, ast.AnnAssign, ast.Return, ast.FunctionDef)):
            continue
        if isinstance(st, ast.Expr) and isinstance(st.value, ast.Constant):
            continue
        return None
    return rets[0].value


def inline_call(repo, fi, call, depth=3):
    """expression equivalent to ``call`` with the (single-return) callee's body inlined and
    parameters replaced by the arguments; None when not possible"""
    cs = resolve_callees(repo, fi, call.func)
    if len(cs) != 1 or cs[0].func is None:
        return None
    callee = cs[0]
    ret = single_return(callee.func)
    if ret is None:
        return None
    bound, unknown = bind_args(callee, call)
    if unknown:
        return None
    flow = Flow(callee.func)
    body = flow.expand(ret)
    params = callee.func.params
    bnames = bound_names_in(body)

    class T(ast.NodeTransformer):
        def visit_Name(self, n):
            if isinstance(n.ctx, ast.Load) and n.id in params and n.id not in bnames:
                if n.id in bound:
                    return clone(bound[n.id])
                d = callee.func.param_default(n.id)
                if d is not None:
                    return clone(d)
            return n

    out = T().visit(clone(body))
    ast.fix_missing_locations(out)
    return out
