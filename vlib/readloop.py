"""the chunk loop of read_metadata as a recurrence: what is read in iteration i and by which offset its records are rebased.

Accepted shapes (all reduce to the same obligation, offset_i == descriptor size + sum of the bytes read before i):
  * lazy pipelines / comprehensions / for loops over aligned sequences (zip, enumerate, accumulate, range);
  * loops with a running variable  v = v0; ...; v += delta;
  * loops that use the number of records received so far  len(M)  where M collects the parsed records.
Terms are the canonical terms of vlib/symexpr.py; sums over the iterations are taken with prefix sums for per-position
quantities, `constant * index` for loop invariants, and an opaque ('sum', t) otherwise (linear in loop invariants).
"""
from __future__ import annotations

import ast

from .core import AnalysisError, norm, parents, short
from .dataflow import Flow, enclosing_iterations
from .interproc import bind_args, resolve_callees
from .streams import INDEX, Streams, _positional, prefix_sum
from .symexpr import Canon, Undecidable, const, mk_poly, p_add, p_mul, poly_of, show


def _names_in(t, acc=None):
    acc = set() if acc is None else acc
    if isinstance(t, tuple):
        if len(t) == 2 and t[0] == "name":
            acc.add(t[1])
        for x in t:
            if isinstance(x, tuple):
                _names_in(x, acc)
    return acc


class ReadLoop:
    def __init__(self, repo, rm, adjust_call):
        self.repo, self.rm, self.call = repo, rm, adjust_call
        self.flow = Flow(rm)
        self.where = f"{rm.module.relpath}:{rm.qualname}"
        self.its = enclosing_iterations(adjust_call, rm.node)
        self.loop = None
        for p in parents(adjust_call):
            if isinstance(p, (ast.For, ast.While)):
                self.loop = p
                break
        acc_names = set()
        for n in rm.own_nodes():
            if isinstance(n, ast.Call) and norm(n.func).split(".")[-1] == "accumulate" and n.args and isinstance(n.args[0], ast.Name):
                acc_names.add(n.args[0].id)
        self.streams = Streams(self.flow, keep_atomic=acc_names)
        self.env = {}
        try:
            for it, tgt in reversed(self.its):
                if it is not None:
                    self.streams.bind(tgt, it, self.env)
        except Undecidable as e:
            raise AnalysisError(f"{self.where}: the chunk loop iterates over something that has no aligned elements: {e}")
        # names (re)bound or mutated inside the loop body: anything mentioning them varies per iteration
        self.variant = set()
        self.carried_names = set()  # mutated in place / augmented in the loop: their definition before the loop is not their value
        if self.loop is not None:
            for n in ast.walk(self.loop):
                if isinstance(n, ast.Name) and isinstance(n.ctx, ast.Store):
                    self.variant.add(n.id)
                if isinstance(n, ast.AugAssign) and isinstance(n.target, ast.Name):
                    self.carried_names.add(n.target.id)
                if isinstance(n, ast.Call) and isinstance(n.func, ast.Attribute) and isinstance(n.func.value, ast.Name) and n.func.attr in ("append", "extend", "insert", "pop", "clear", "update", "add"):
                    self.variant.add(n.func.value.id)
                    self.carried_names.add(n.func.value.id)

    # -------------------------------------------------------------- terms
    def term(self, expr):
        try:
            return Canon(self.env)(self.flow.expand(expr, stop=set(self.env) | self.carried_names))
        except Undecidable as e:
            raise AnalysisError(f"{self.where}: {short(expr, 60)} is outside the decidable fragment: {e}")

    def args(self):
        b = {}
        for cal in resolve_callees(self.repo, self.rm, self.call.func):
            b, _ = bind_args(cal, self.call)
        return b.get("records"), b.get("offset")

    def read_of(self, rec_term):
        """(size term, element size term) of parse_chunk(<f>.read(size), element) inside the records term"""
        found = []

        def walk(t):
            if not isinstance(t, tuple):
                return
            if t and t[0] == "call" and t[1] in (("name", "parse_chunk"),) and len(t[2]) >= 1:
                inner = t[2][0]
                elt = t[2][1] if len(t[2]) > 1 else dict(t[3]).get("element_size")
                if inner[0] == "call" and inner[1][0] == "attr" and inner[1][2] == "read" and inner[2]:
                    found.append((inner[2][0], elt, inner))
                    return
            for x in t:
                if isinstance(x, tuple):
                    walk(x)
        walk(rec_term)
        return found

    # -------------------------------------------------------------- loop-carried quantities
    def carried(self):
        """{atom term: (initial term, per-iteration increment term)} for running variables and len(M) counters"""
        out = {}
        if self.loop is None:
            return out
        body = self.loop.body
        for st in body:
            if isinstance(st, ast.AugAssign) and isinstance(st.op, ast.Add) and isinstance(st.target, ast.Name):
                v = st.target.id
                others = [n for n in ast.walk(self.loop) if isinstance(n, (ast.Assign, ast.AugAssign)) and n is not st and
                          any(isinstance(x, ast.Name) and x.id == v and isinstance(x.ctx, ast.Store) for x in ast.walk(n))]
                init = [n for n in self.rm.own_nodes() if isinstance(n, ast.Assign) and len(n.targets) == 1 and isinstance(n.targets[0], ast.Name) and n.targets[0].id == v
                        and n.lineno < self.loop.lineno]
                if others or len(init) != 1:
                    continue
                out[("name", v)] = (self.term(init[0].value), self._size_like(self.term(st.value)), st)
        # lists that collect the records: M = [] before the loop, one M.extend(x) / M += x in the body
        for st in body:
            tgt = val = None
            if isinstance(st, ast.Expr) and isinstance(st.value, ast.Call) and isinstance(st.value.func, ast.Attribute) and st.value.func.attr == "extend" and isinstance(st.value.func.value, ast.Name) and len(st.value.args) == 1:
                tgt, val = st.value.func.value.id, st.value.args[0]
            elif isinstance(st, ast.AugAssign) and isinstance(st.op, ast.Add) and isinstance(st.target, ast.Name):
                continue
            if tgt is None:
                continue
            init = [n for n in self.rm.own_nodes() if isinstance(n, ast.Assign) and len(n.targets) == 1 and isinstance(n.targets[0], ast.Name) and n.targets[0].id == tgt and n.lineno < self.loop.lineno]
            muts = [n for n in ast.walk(self.loop) if isinstance(n, ast.Call) and isinstance(n.func, ast.Attribute) and isinstance(n.func.value, ast.Name) and n.func.value.id == tgt
                    and n.func.attr in ("append", "extend", "insert", "pop", "clear", "remove")]
            if len(init) == 1 and isinstance(init[0].value, ast.List) and not init[0].value.elts and len(muts) == 1:
                out[("call", ("name", "len"), (("name", tgt),), ())] = (const(0), self._length(self.term(val)), st)
        return out

    def _size_like(self, t):
        """len(<f>.read(s)) counts the bytes that arrived: s, except for a final short block after which nothing is rebased"""
        if t[0] == "call" and t[1] == ("name", "len") and len(t[2]) == 1:
            inner = t[2][0]
            if inner[0] == "call" and inner[1][0] == "attr" and inner[1][2] == "read" and inner[2]:
                return inner[2][0]
        return t

    def _length(self, t):
        """number of records in a term built from adjust_offsets / parse_chunk / read"""
        if t[0] == "call" and t[1] == ("name", "adjust_offsets") and t[2]:
            return self._length(t[2][0])
        if t[0] == "call" and t[1] == ("name", "adjust_offsets"):
            kw = dict(t[3])
            if "records" in kw:
                return self._length(kw["records"])
        if t[0] == "call" and t[1] == ("name", "parse_chunk") and len(t[2]) >= 2:
            inner, elt = t[2][0], t[2][1]
            if inner[0] == "call" and inner[1][0] == "attr" and inner[1][2] == "read" and inner[2]:
                size = inner[2][0]
                # size == k * elt  ->  k
                d = poly_of(size)
                out = {}
                for mono, c in d.items():
                    if elt in mono:
                        m = list(mono)
                        m.remove(elt)
                        out[tuple(m)] = c
                    else:
                        raise AnalysisError(f"{self.where}: the read size {show(size)} is not a whole number of records of size {show(elt)}")
                return mk_poly(out)
        raise AnalysisError(f"{self.where}: cannot tell how many records {show(t)[:80]} holds")

    # -------------------------------------------------------------- sums over the iterations before i
    def total_before(self, t):
        out = const(0)
        for mono, coeff in poly_of(t).items():
            var = [a for a in mono if self.is_variant(a)]
            inv = [a for a in mono if not self.is_variant(a)]
            base = mk_poly({tuple(sorted(inv, key=repr)): coeff})
            if not var:
                if self.loop is None and not self.its:
                    raise AnalysisError(f"{self.where}: no iteration to sum over")
                out = p_add(out, p_mul(base, INDEX))
            elif all(_positional(a) for a in var):
                try:
                    out = p_add(out, p_mul(base, prefix_sum(mk_poly({tuple(sorted(var, key=repr)): 1}))))
                except Undecidable as e:
                    raise AnalysisError(f"{self.where}: {e}")
            else:
                out = p_add(out, p_mul(base, ("sum", mk_poly({tuple(sorted(var, key=repr)): 1}))))
        return out

    def is_variant(self, a):
        return _positional(a) or bool(_names_in(a) & self.variant) or (isinstance(a, tuple) and a and a[0] == "sum")

    def substitute_carried(self, t):
        car = self.carried()
        if not car:
            return t, car
        out = const(0)
        for mono, coeff in poly_of(t).items():
            term = const(coeff)
            for a in mono:
                if a in car:
                    v0, delta, _ = car[a]
                    term = p_mul(term, p_add(v0, self.total_before(delta)))
                else:
                    term = p_mul(term, a)
            out = p_add(out, term)
        return out, car


    def recognised(self, a):
        """is the atom a quantity of the chunk arithmetic (so that two different polynomials over such atoms differ)?"""
        if not isinstance(a, tuple) or not a:
            return False
        k = a[0]
        if k in ("index", "acc", "acc-inclusive", "elem", "sum", "param", "const"):
            return True
        if k == "name":
            return a[1] in self.rm.params
        if k == "sub":
            return "read_file_descriptor" in repr(a[1]) and a[2][0] == "const"
        if k == "poly":
            return all(self.recognised(x) for mono, c in a[1] for x in mono)
        if k == "call" and a[1][0] == "name" and a[1][1] in ("min", "max", "len", "int", "abs") and not a[3]:
            return all(self.recognised(x) or x[0] == "name" and x[1] in self.carried_names for x in a[2])
        if k == "call" and a[1] in (("attr", ("name", "math"), "ceil"), ("attr", ("name", "math"), "floor")):
            return all(self.recognised(x) for x in a[2])
        if k == "binop":
            return self.recognised(a[2]) and self.recognised(a[3])
        return False
