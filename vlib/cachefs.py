"""E12 -- the two cache places as a model file system: create_cache then read_cache, evaluated.

caching.create_cache and caching.read_cache are evaluated by the checker's interpreter (vlib/shapes.py; nothing of the package
is imported or run) against

  * a model of the user cache directory: ``caching.path.cache_root`` is a model Path object (``/``, parent, name, mkdir,
    write_text / write_bytes, read_text / read_bytes, is_file / exists, with_suffix / with_name, replace / rename, unlink)
    over one dictionary {path components: content}; hashlib is folded on constants, so the real location functions run;
  * a model mapper of the product (root, ``in``, ``[...]``, get) over a second dictionary {key: content};
  * ``encode`` / ``decode`` replaced by markers: encode(group) gives a text token that remembers the group, decode(token)
    gives that group back (the codec itself is E11's business).

Decided per (product root, image path): what a read finds after a write is the group that was written, for the same image;
another image of the same product, or the same image name under another product root, does not find it.  Everything the
model cannot evaluate is an undecided run (ShapeError), never a guess.
"""
from __future__ import annotations

from collections import OrderedDict

from .shapes import Const, DictS, Fn, Interp, LazyField, ListLit, NonTermination, Obj, ShapeError, TupS, _Raise

CACHING = "ceos_alos2.sar_image.caching"
CACHING_ERROR = ["CachingError", "FileNotFoundError", "OSError", "Exception", "BaseException", "object"]
FNF = ["FileNotFoundError", "OSError", "Exception", "BaseException", "object"]


class World:
    def __init__(self, repo):
        self.repo = repo
        self.local = {}      # tuple of components -> content (Obj Text / Const)
        self.remote = {}     # (root, key) -> content
        self.dirs = set()
        self.events = []
        self.tokens = {}
        self.links = set()   # product roots that are reached through a symbolic link

    # -- model Path
    def path(self, parts):
        parts = tuple(parts)
        o = Obj("Path", OrderedDict(parts=TupS([Const(p) for p in parts])))
        f = o.fields
        py = lambda name, impl: Fn("py", impl=impl, name=name)

        def binop(I, a, kw):
            op, other, reflected = a[0].v, a[1], a[2].v
            if op != "Div" or reflected:
                raise ShapeError(f"model path: operator {op} (reflected={reflected})")
            if isinstance(other, Const) and isinstance(other.v, str):
                return self.path(parts + tuple(x for x in other.v.split("/") if x))
            if isinstance(other, Obj) and other.cls == "Path":
                return self.path(parts + tuple(x.v for x in other.fields["parts"].elts))
            raise ShapeError(f"model path / {other!r:.40}")
        f["__binop__"] = py("__truediv__", binop)
        f["joinpath"] = py("joinpath", lambda I, a, kw: self.path(parts + tuple(x.v for x in a if isinstance(x, Const))))
        f["parent"] = LazyField(lambda: self.path(parts[:-1]))
        f["name"] = Const(parts[-1] if parts else "")
        f["suffix"] = Const(("." + parts[-1].rsplit(".", 1)[1]) if parts and "." in parts[-1].lstrip(".") else "")
        f["stem"] = Const(parts[-1].rsplit(".", 1)[0] if parts and "." in parts[-1].lstrip(".") else (parts[-1] if parts else ""))

        def mkdir(I, a, kw):
            self.events.append(("mkdir", parts))
            par = kw.get("parents")
            if not (isinstance(par, Const) and par.v) and parts[:-1] not in self.dirs and len(parts) > 1:
                raise _Raise("FileNotFoundError: parent directory missing", FNF)
            ok = kw.get("exist_ok")
            if parts in self.dirs and not (isinstance(ok, Const) and ok.v):
                raise _Raise("FileExistsError", ["FileExistsError", "OSError", "Exception", "BaseException", "object"])
            for i in range(1, len(parts) + 1):
                self.dirs.add(parts[:i])
            return Const(None)
        f["mkdir"] = py("mkdir", mkdir)

        def write(I, a, kw):
            if parts[:-1] not in self.dirs:
                raise _Raise("FileNotFoundError: directory missing", FNF)
            self.events.append(("write", parts))
            self.local[parts] = a[0] if a else kw.get("data")
            return Const(1)
        f["write_text"] = py("write_text", write)
        f["write_bytes"] = py("write_bytes", write)

        def read(I, a, kw):
            self.events.append(("read", parts))
            if parts not in self.local:
                raise _Raise("FileNotFoundError: no such file", FNF)
            return self.local[parts]
        f["read_text"] = py("read_text", read)
        f["read_bytes"] = py("read_bytes", read)
        exists = lambda I, a, kw: Const(parts in self.local)
        f["is_file"] = py("is_file", exists)
        f["exists"] = py("exists", lambda I, a, kw: Const(parts in self.local or parts in self.dirs))
        f["is_dir"] = py("is_dir", lambda I, a, kw: Const(parts in self.dirs))

        def with_suffix(I, a, kw):
            if not (a and isinstance(a[0], Const) and isinstance(a[0].v, str) and parts):
                raise ShapeError("model path: with_suffix")
            stem = parts[-1].rsplit(".", 1)[0] if "." in parts[-1].lstrip(".") else parts[-1]
            return self.path(parts[:-1] + (stem + a[0].v,))
        f["with_suffix"] = py("with_suffix", with_suffix)
        f["with_name"] = py("with_name", lambda I, a, kw: self.path(parts[:-1] + (a[0].v,)) if a and isinstance(a[0], Const) else _undecided("with_name"))

        def replace(I, a, kw):
            t = a[0] if a else None
            if not (isinstance(t, Obj) and t.cls == "Path"):
                raise ShapeError("model path: replace / rename target is not a model path")
            tp = tuple(x.v for x in t.fields["parts"].elts)
            if parts not in self.local:
                raise _Raise("FileNotFoundError: no such file", FNF)
            self.events.append(("rename", parts, tp))
            self.local[tp] = self.local.pop(parts)
            return t
        f["replace"] = py("replace", replace)
        f["rename"] = py("rename", replace)

        def unlink(I, a, kw):
            mo = kw.get("missing_ok", a[0] if a else Const(False))
            if parts not in self.local:
                if isinstance(mo, Const) and mo.v:
                    return Const(None)
                raise _Raise("FileNotFoundError: no such file", FNF)
            self.events.append(("unlink", parts))
            del self.local[parts]
            return Const(None)
        f["unlink"] = py("unlink", unlink)
        def children():
            kids = sorted({p_[:len(parts) + 1] for p_ in list(self.local) + list(self.dirs) if len(p_) > len(parts) and p_[:len(parts)] == parts})
            return [self.path(k_) for k_ in kids]

        def glob(I, a, kw):
            import fnmatch
            pat = a[0].v if a and isinstance(a[0], Const) and isinstance(a[0].v, str) else None
            if pat is None or "/" in pat or "**" in pat:
                raise ShapeError(f"model path: glob({a[0]!r:.30})")
            return ListLit([c_ for c_ in children() if fnmatch.fnmatchcase(c_.fields["name"].v, pat)])
        f["iterdir"] = py("iterdir", lambda I, a, kw: ListLit(children()))
        f["glob"] = py("glob", glob)
        f["as_uri"] = py("as_uri", lambda I, a, kw: Const("file:///" + "/".join(parts)))
        f["as_posix"] = py("as_posix", lambda I, a, kw: Const("/" + "/".join(parts)))
        f["__fspath__"] = py("__fspath__", lambda I, a, kw: Const("/" + "/".join(parts)))
        f["__str__"] = py("__str__", lambda I, a, kw: Const("/" + "/".join(parts)))
        return o

    # -- model mapper
    def mapper(self, root, missing="KeyError"):
        """missing: what reading a key that does not exist raises.  fsspec's FSMap turns FileNotFoundError / IsADirectoryError /
        NotADirectoryError of the file system into KeyError and lets everything else through (object stores answer a read of a
        missing object with 'permission denied' when listing is not allowed), while `key in mapper` is fs.isfile, which answers
        False on any error"""
        def key(k):
            if not (isinstance(k, Const) and isinstance(k.v, str)):
                raise ShapeError(f"model mapper: key {k!r:.40}")
            return (root, k.v)

        def getitem(I, a, kw):
            self.events.append(("mapper-get", key(a[0])))
            if key(a[0]) not in self.remote:
                if missing == "PermissionError":
                    raise _Raise("PermissionError: [Errno 13] access denied", ["PermissionError", "OSError", "Exception", "BaseException", "object"])
                raise _Raise(f"KeyError {a[0].v!r}", ["KeyError", "LookupError", "Exception", "BaseException", "object"])
            return self.remote[key(a[0])]

        def setitem(I, a, kw):
            self.events.append(("mapper-set", key(a[0])))
            self.remote[key(a[0])] = a[1]
            return Const(None)
        m = Obj("Mapper", OrderedDict(root=Const(root), fs=Obj("InnerFS", OrderedDict())))
        m.fields["__getitem__"] = Fn("py", impl=getitem, name="__getitem__")
        m.fields["__setitem__"] = Fn("py", impl=setitem, name="__setitem__")
        m.fields["__contains__"] = Fn("py", impl=lambda I, a, kw: Const(key(a[0]) in self.remote), name="__contains__")

        def get(I, a, kw):
            # Mapping.get: self[key], KeyError -> default (anything else passes through)
            try:
                return getitem(I, a[:1], {})
            except _Raise as e:
                if e.classes and "KeyError" in e.classes:
                    return a[1] if len(a) > 1 else kw.get("default", Const(None))
                raise
        m.fields["get"] = Fn("py", impl=get, name="get")
        return m

    # -- interpreter wired to this world
    def interp(self):
        repo = self.repo
        I = Interp(repo)
        cach = repo.module(CACHING)
        sc = I.module_scope(cach)
        pm = repo.module(CACHING + ".path")
        I.module_scope(pm).vars["cache_root"] = self.path(("CACHE",))
        self.dirs.add(("CACHE",))

        def encode(I_, a, kw):
            g = a[0] if a else kw.get("obj")
            t = Obj("Text", OrderedDict(of=g))
            t.fields["encode"] = Fn("py", impl=lambda I2, a2, k2: t, name="encode")
            t.fields["decode"] = Fn("py", impl=lambda I2, a2, k2: t, name="decode")
            return t

        def decode(I_, a, kw):
            t = a[0] if a else kw.get("cache")
            if not (isinstance(t, Obj) and t.cls == "Text"):
                raise ShapeError(f"decode is given {t!r:.40}, not what was stored")
            return t.fields["of"]
        sc.vars["encode"] = Fn("py", impl=encode, name="encode")
        sc.vars["decode"] = Fn("py", impl=decode, name="decode")
        # the local file system as far as the location functions may ask about it: a product root that is a local path is a
        # directory; the roots listed in `links` are reached through a link (their real path is another string)
        def isdir(I_, a, kw):
            return Const(isinstance(a[0], Const) and isinstance(a[0].v, str) and a[0].v.startswith("/"))

        def realpath(I_, a, kw):
            if not (isinstance(a[0], Const) and isinstance(a[0].v, str)):
                raise ShapeError("model os.path: argument is not a constant path")
            return Const("/mnt/archive" + a[0].v if a[0].v in self.links else a[0].v)
        ospath = Obj("os.path", OrderedDict(isdir=Fn("py", impl=isdir, name="os.path.isdir"), exists=Fn("py", impl=isdir, name="os.path.exists"), realpath=Fn("py", impl=realpath, name="os.path.realpath"),
                                            abspath=Fn("py", impl=lambda I_, a, kw: a[0], name="os.path.abspath"), islink=Fn("py", impl=lambda I_, a, kw: Const(isinstance(a[0], Const) and a[0].v in self.links), name="os.path.islink")))
        for m_ in (cach, pm):
            I.module_scope(m_).vars["os"] = Obj("os", OrderedDict(path=ospath))
        return I, sc


def _undecided(what):
    raise ShapeError(f"model path: {what}")


def call(I, sc, name, args, kwargs=None):
    """-> ('returned', value) | ('CachingError', text) | ('raised', text); ShapeError etc. propagate"""
    try:
        return "returned", I.call(I.lookup(name, sc), list(args), OrderedDict(kwargs or {}))
    except _Raise as e:
        if e.classes and "CachingError" in e.classes:
            return "CachingError", e.what
        return "raised", e.what
