"""E9 -- model evaluation of a pixel load (ceos_alos2.array.Array.__getitem__) with a recording file system.

The row bookkeeping of the backend array (select rows -> group by chunk -> one request per touched chunk -> cut the rows
out of the chunk -> stack -> hand the column indexers to NumPy) only *moves* the bytes of the lines around; it never looks
inside them.  It is evaluated by the checker's interpreter (vlib/shapes.py; nothing of the package is imported or run by
CPython) on a model image:

  * a model file of n line records (prefix + samples) in which every byte of line j carries the mark j, served by a
    recording file system stub (open / seek / read with positions);
  * an Array instance built by the package's own constructor code (dataclass fields, __post_init__: chunk size
    normalisation and the chunk offsets table are the repository's code);
  * NumPy is replaced by an opaque model: parse_data returns a token holding the bytes it was given, np.stack collects
    tokens, np.empty(0, ...) is the empty block, and the final subscript records the indexers it receives.

The result says, for a row indexer, which bytes of the file end up in which output row, what the row / column indexers
handed to NumPy are, and which requests were issued.  Oracle (the property statements C01 / C02 / C06 / C11): the rows are
exactly range(n)[indexer] (in that order, or the single row for an integer) with their own sample bytes; an integer drops
the axis; the column indexers reach NumPy unchanged; one request per touched chunk, confined to that chunk's lines and
the file.  Decided on a grid of (n, records_per_chunk, indexer) - bounded, not all integers; stated in the evidence.
"""
from __future__ import annotations

from collections import OrderedDict

from .core import AnalysisError
from .shapes import Const, DictS, Fn, Interp, ListLit, ModuleRef, NonTermination, Obj, ShapeError, Top, TupS, _Raise
from .tracemodel import Trace, model_file

ARRAY = "ceos_alos2.array"
PREFIX = 6
DESCRIPTOR = 20  # the model image has a short descriptor: positions come from byte_ranges, which the model provides


def image_bytes(n, width, gap=0):
    """-> (content, byte_ranges): n records of PREFIX + width bytes (+ gap bytes after each record); every sample byte of line j is j+1"""
    out = bytearray(b"\xee" * DESCRIPTOR)
    ranges = []
    for j in range(n):
        out += b"\xff" * PREFIX
        start = len(out)
        out += bytes([(j % 250) + 1]) * width
        ranges.append((start, len(out)))
        out += b"\xdd" * gap
    return bytes(out), ranges


class Load:
    def __init__(self):
        self.trace = Trace()
        self.opens = []
        self.rows = None          # [bytes] per output row, in order
        self.row_indexer = None   # what NumPy receives for axis 0
        self.col_indexers = None  # what NumPy receives for the remaining axes
        self.empty_shape = None
        self.empty_dtype = None
        self.outcome = None
        self.records_per_chunk = None
        self.chunks = None


def _plain(v):
    if isinstance(v, Const):
        return v.v
    if isinstance(v, (ListLit, TupS)):
        xs = [_plain(x) for x in v.elts]
        return xs if isinstance(v, ListLit) else tuple(xs)
    if isinstance(v, Obj) and v.cls == "slice":
        return slice(_plain(v.fields["start"]), _plain(v.fields["stop"]), _plain(v.fields["step"]))
    raise ShapeError(f"not a plain value: {v!r:.80}")


def to_shape(v):
    if isinstance(v, slice):
        return Const(v)
    if isinstance(v, (list,)):
        return ListLit([to_shape(x) for x in v])
    if isinstance(v, tuple):
        return TupS([to_shape(x) for x in v])
    return Const(v)


def result_value(rows, row_indexer, col_indexers):
    """what subscripting a block of stacked lines gives, as far as the wrapper model needs it: which lines (their bytes), whether
    the row axis is still there, and the column indexers applied"""
    if row_indexer is None:
        return Obj("Result", OrderedDict())
    try:
        if isinstance(row_indexer, bool):
            raise TypeError
        if isinstance(row_indexer, int):
            sel, axis = [rows[row_indexer]], False
        elif isinstance(row_indexer, slice):
            sel, axis = rows[row_indexer], True
        else:
            sel, axis = [rows[i] for i in row_indexer], True
    except (IndexError, TypeError):
        return Obj("Result", OrderedDict())
    r = Obj("Result", OrderedDict())
    r.sel = (list(sel), axis, tuple(col_indexers))
    return r


def numpy_model(load):
    def stack(I, a, kw):
        seq = a[0]
        if not isinstance(seq, (ListLit, TupS)):
            raise ShapeError(f"np.stack of {seq!r:.60}")
        axis = kw.get("axis", a[1] if len(a) > 1 else Const(0))
        if not (isinstance(axis, Const) and axis.v == 0):
            raise ShapeError("np.stack along another axis than 0")
        if not seq.elts:
            raise _Raise("ValueError: need at least one array to stack", ["ValueError", "Exception", "BaseException", "object"])
        rows = []
        for x in seq.elts:
            if not (isinstance(x, Obj) and x.cls == "RowToken"):
                raise ShapeError(f"np.stack of something that is not a decoded line: {x!r:.60}")
            rows.append(x)
        return Obj("Block", OrderedDict(rows=ListLit(rows), __getitem__=Fn("py", impl=block_getitem(rows), name="__getitem__")))

    def block_getitem(rows, empty=None):
        def impl(I, a, kw):
            key = a[0]
            parts = key.elts if isinstance(key, TupS) else [key]
            load.rows = [r.fields["bytes"].v for r in rows]
            load.row_indexer = _plain(parts[0]) if parts else None
            load.col_indexers = tuple(_plain(x) for x in parts[1:])
            return result_value(load.rows, load.row_indexer, load.col_indexers)
        return impl

    def empty(I, a, kw):
        shape = a[0]
        load.empty_shape = _plain(shape)
        dt = kw.get("dtype", a[1] if len(a) > 1 else None)
        load.empty_dtype = _plain(dt) if isinstance(dt, (Const, TupS, ListLit)) else ("<given>" if dt is not None else None)
        return Obj("Block", OrderedDict(rows=ListLit([]), __getitem__=Fn("py", impl=block_getitem([]), name="__getitem__")))

    def array(I, a, kw):
        # sizes = np.array([...]) in __post_init__: only used on the string path of records_per_chunk
        return Obj("NDArray", OrderedDict(data=a[0] if a else Const(None)))

    def dtype(I, a, kw):
        return a[0] if a else Const(None)
    fns = {"stack": stack, "vstack": stack, "empty": empty, "zeros": empty, "array": array, "asarray": array, "dtype": dtype}
    return Obj("numpy", OrderedDict((k, Fn("py", impl=v, name=f"np.{k}")) for k, v in fns.items()))


def run_load(repo, n, width, rpc, indexers, gap=0, type_code="IU2"):
    """indexers: tuple of python values (int / slice / list) as handed to Array.__getitem__ -> (Load, ranges, content)"""
    loads, ranges, content = run_loads(repo, n, width, rpc, [indexers], gap, type_code)
    return loads[0], ranges, content


def run_load_with_fault(repo, n, width, rpc, indexers, at, gap=0, type_code="IU2", kind="read"):
    """one load during which the request number ``at`` (0-based, counted over the whole load) fails once with a connection reset
    (kind 'read') or is served only in part (kind 'short') -> (Load, ranges, content); Load.fault['fired'] tells whether the load got
    that far"""
    loads, ranges, content = run_loads(repo, n, width, rpc, [indexers], gap, type_code, fault={"kind": kind, "at": at})
    return loads[0], ranges, content


def run_loads(repo, n, width, rpc, sequence, gap=0, type_code="IU2", fault=None):
    """a sequence of loads on ONE Array instance -> ([Load], ranges, content)"""
    content, ranges = image_bytes(n, width, gap)
    cur = {"load": Load()}
    if fault is not None:
        cur["load"].fault = fault
    load = _Proxy(cur)
    out = []
    built = _build(repo, load, content, ranges, n, width, rpc, type_code)
    for indexers in sequence:
        ld = cur["load"]
        out.append(ld)
        if isinstance(built, str):
            ld.outcome = built
        else:
            I, arr = built
            ld.records_per_chunk = _plain(arr.fields.get("records_per_chunk")) if isinstance(arr.fields.get("records_per_chunk"), Const) else None
            try:
                I.call(I.getattr(arr, "__getitem__"), [to_shape(tuple(indexers))], {})
                ld.outcome = "returned" if ld.rows is not None else "undecided: the result is not a subscripted block of stacked lines"
            except _Raise as e:
                ld.outcome = f"raised: {e.what}"
            except NonTermination as e:
                ld.outcome = f"nonterminating: {e}"
            except RecursionError:
                ld.outcome = "undecided: recursion limit"
            except ShapeError as e:
                ld.outcome = f"undecided: {e}"
        cur["load"] = Load()
    return out, ranges, content


class _Proxy:
    """the recording stubs write into whichever Load is current"""

    def __init__(self, cur):
        object.__setattr__(self, "_cur", cur)

    def __getattr__(self, k):
        return getattr(self._cur["load"], k)

    def __setattr__(self, k, v):
        setattr(self._cur["load"], k, v)


def _build(repo, load, content, ranges, n, width, rpc, type_code):
    I = Interp(repo)
    I.max_loop = 2000
    mod = repo.module(ARRAY)
    sc = I.module_scope(mod)
    sc.vars["np"] = numpy_model(load)

    def parse_data(I_, a, kw):
        c = a[0] if a else kw.get("content")
        extra = set(kw) - {"content", "type_code"}
        if extra or len(a) > 2:
            raise ShapeError(f"parse_data is called with more than (content, type_code): {sorted(extra)} - decoding is no longer one opaque step per line")
        if not (isinstance(c, Const) and isinstance(c.v, (bytes, bytearray))):
            raise ShapeError(f"parse_data is given {c!r:.60}, not bytes")
        return Obj("RowToken", OrderedDict(bytes=Const(bytes(c.v))))
    sc.vars["parse_data"] = Fn("py", impl=parse_data, name="parse_data")

    def fs_open(I_, a, kw):
        url = a[0] if a else kw.get("path")
        mode = kw.get("mode", a[1] if len(a) > 1 else Const("rb"))
        load.opens.append((_plain(url) if isinstance(url, Const) else repr(url), _plain(mode) if isinstance(mode, Const) else None))
        load.trace.events.append(("open",))
        return model_file(_TraceProxy(load), len(content), content)
    fs = Obj("FS", OrderedDict(open=Fn("py", impl=fs_open, name="open"), path=Const("/product"), protocol=Const("file")))
    try:
        ctor = I.lookup("Array", sc)
        arr = I.call(ctor, [], OrderedDict(fs=fs, url=Const("IMG-X"), byte_ranges=to_shape([tuple(r) for r in ranges]), shape=to_shape((n, width // 2)),
                                           dtype=Const("uint16"), type_code=Const(type_code), records_per_chunk=Const(rpc)))
    except _Raise as e:
        return f"raised: {e.what} (while the Array is built)"
    except (ShapeError, RecursionError) as e:
        return f"undecided: {e} (while the Array is built)"
    return I, arr


class _TraceProxy:
    """a file handle kept across loads records into the load that is current when it is used"""

    def __init__(self, load):
        self._load = load

    @property
    def events(self):
        return self._load.trace.events

    @property
    def allocations(self):
        return self._load.trace.allocations

    @property
    def fault(self):
        return getattr(self._load, "fault", None)


def judge(load, ranges, content, n, rpc, indexers):
    """-> [(key, ok, good, bad)]"""
    out = []
    row_ix = indexers[0]
    if isinstance(row_ix, int):
        want_rows = [range(n)[row_ix]]
    elif isinstance(row_ix, slice):
        want_rows = list(range(n)[row_ix])
    else:
        want_rows = [range(n)[i] for i in row_ix]
    want_bytes = [content[ranges[r][0]:ranges[r][1]] for r in want_rows]
    got = load.rows if load.rows is not None else []
    ok = got == want_bytes
    detail = ""
    if not ok:
        def which(b):
            return f"line {b[0] - 1} ({len(b)} bytes)" if b and len(set(b)) == 1 and 1 <= b[0] <= 250 else f"{len(b)} bytes, not one line's samples ({b[:6]!r}..)"
        if len(got) != len(want_bytes):
            detail = f"{len(got)} rows come back, the selection has {len(want_bytes)}"
        else:
            j = next(i for i in range(len(got)) if got[i] != want_bytes[i])
            detail = f"output row {j} holds {which(got[j])}, the selection asks for line {want_rows[j]} ({len(want_bytes[j])} bytes)"
    out.append(("rows", ok, f"rows {want_rows[:6]}{'...' if len(want_rows) > 6 else ''} with their own sample bytes, in order", f"selection {row_ix!r} of {n} lines at records_per_chunk={rpc}: {detail}"))
    if isinstance(row_ix, int):
        ok_axis = load.row_indexer == 0 and len(got or []) == 1
        out.append(("axis", ok_axis, "an integer row index drops the row axis", f"integer row index {row_ix}: NumPy is handed {load.row_indexer!r} for the row axis of a {len(got or [])}-row block (the axis must be dropped: 0 on one row)"))
    else:
        ok_axis = load.row_indexer == slice(None)
        out.append(("axis", ok_axis, "a slice / list row index keeps the row axis", f"row indexer {row_ix!r}: NumPy is handed {load.row_indexer!r} for the row axis instead of slice(None)"))
    out.append(("columns", load.col_indexers == tuple(indexers[1:]), "the column indexers reach NumPy unchanged", f"column indexers {tuple(indexers[1:])!r} reach NumPy as {load.col_indexers!r}"))
    if not want_rows:
        ok_e = load.empty_shape is None or (tuple(load.empty_shape)[:1] == (0,) and load.empty_dtype is not None)
        out.append(("empty", ok_e, "an empty selection gives an empty block with the declared dtype", f"empty selection builds np.empty({load.empty_shape}, dtype={load.empty_dtype})"))
    # requests
    reads = [e for e in load.trace.events if e[0] == "read"]
    eff_rpc = load.records_per_chunk if isinstance(load.records_per_chunk, int) else rpc
    touched = sorted({r // eff_rpc for r in want_rows}) if eff_rpc else []
    spans = {c: (min(ranges[r][0] for r in range(c * eff_rpc, min((c + 1) * eff_rpc, n))), max(ranges[r][1] for r in range(c * eff_rpc, min((c + 1) * eff_rpc, n)))) for c in touched}
    out.append(("requests", len(reads) <= len(touched), f"{len(reads)} request(s) for {len(touched)} touched chunk(s)",
                f"selection {row_ix!r} of {n} lines at records_per_chunk={rpc} touches {len(touched)} chunk(s) but issues {len(reads)} requests ({[(r[1], r[2]) for r in reads][:6]})"))
    bad = []
    for r in reads:
        pos, size = r[1], r[2]
        if size is None or size < 0:
            bad.append(f"unbounded read at {pos}")
            continue
        inside = [c for c, (lo, hi) in spans.items() if lo <= pos and pos + size <= hi]
        if not inside:
            bad.append(f"request [{pos}, {pos + size}) is not confined to one touched chunk (chunk spans {dict(list(spans.items())[:4])})")
        if pos + size > len(content):
            bad.append(f"request [{pos}, {pos + size}) reaches beyond the file ({len(content)} bytes)")
    out.append(("confined", not bad, "every request lies inside the byte span of one touched chunk and inside the file", bad[0] if bad else ""))
    out.append(("one-file", all(o[0] == "IMG-X" for o in load.opens), "only the image file is opened during the load", f"files opened during the load: {load.opens} - the load touches something else than the image file"))
    return out


def run_wrapper_load(repo, n, width, rpc, key, gap=0, type_code="IU2", fault=None):
    """ONE load as xarray issues it: LazilyIndexedWrapper(array, lock)._raw_indexing_method(key), with the wrapper built by its own
    __init__ around the model Array.  However many times the wrapper indexes the array, all requests are recorded into one
    Load.  -> (Load, ranges, content)"""
    content, ranges = image_bytes(n, width, gap)
    cur = {"load": Load()}
    load = _Proxy(cur)
    ld = cur["load"]
    if fault is not None:
        ld.fault = fault
    built = _build(repo, load, content, ranges, n, width, rpc, type_code)
    if isinstance(built, str):
        ld.outcome = built
        return ld, ranges, content
    I, arr = built
    ld.records_per_chunk = _plain(arr.fields.get("records_per_chunk")) if isinstance(arr.fields.get("records_per_chunk"), Const) else None
    xm = repo.module("ceos_alos2.xarray")
    xsc = I.module_scope(xm)
    result = lambda I_, a, kw: Obj("Result", OrderedDict())

    def int_array(values):
        # a concrete one-dimensional integer array (np.arange(n), a selection of it): what a fallback needs to enumerate lines
        arr = Obj("IntArray", OrderedDict(values=ListLit([Const(x) for x in values]), size=Const(len(values)), ndim=Const(1),
                                          shape=TupS([Const(len(values))])))

        def getitem(I_, a, kw):
            k = _plain(a[0])
            if isinstance(k, tuple) and len(k) == 1:
                k = k[0]
            try:
                if isinstance(k, bool) or k is None or isinstance(k, tuple):
                    raise ShapeError(f"integer array indexed with {k!r}")
                if isinstance(k, int):
                    return Const(values[k])
                if isinstance(k, slice):
                    return int_array(values[k])
                return int_array([values[i] for i in k])
            except IndexError as e:
                raise _Raise(f"IndexError: {e}", ["IndexError", "LookupError", "Exception", "BaseException", "object"])
        arr.fields["__getitem__"] = Fn("py", impl=getitem, name="__getitem__")
        arr.fields["__iter__"] = Fn("py", impl=lambda I_, a, kw: ListLit([Const(x) for x in values]), name="__iter__")
        arr.fields["__len__"] = Fn("py", impl=lambda I_, a, kw: Const(len(values)), name="__len__")
        arr.fields["tolist"] = Fn("py", impl=lambda I_, a, kw: ListLit([Const(x) for x in values]), name="tolist")
        return arr

    def arange(I_, a, kw):
        args = [_plain(x) for x in a]
        if kw or not all(isinstance(x, int) and not isinstance(x, bool) for x in args):
            raise ShapeError("np.arange of something that is not a plain integer")
        return int_array(list(range(*args)))

    def atleast_1d(I_, a, kw):
        if len(a) != 1 or kw:
            raise ShapeError("np.atleast_1d of several values")
        x = a[0]
        if isinstance(x, Obj) and x.cls == "IntArray":
            return x
        if isinstance(x, Const) and isinstance(x.v, int) and not isinstance(x.v, bool):
            return int_array([x.v])
        if isinstance(x, (ListLit, TupS)) and all(isinstance(e, Const) and isinstance(e.v, int) for e in x.elts):
            return int_array([e.v for e in x.elts])
        raise ShapeError(f"np.atleast_1d of {x!r:.60}")

    def combine(name, add_axis):
        # np.stack / np.concatenate / np.vstack of results of the array along the row axis
        def impl(I_, a, kw):
            seq = a[0] if a else None
            axis = kw.get("axis", a[1] if len(a) > 1 else Const(0))
            if not isinstance(seq, (ListLit, TupS)) or not (isinstance(axis, Const) and axis.v == 0) or set(kw) - {"axis"}:
                raise ShapeError(f"{name} of {seq!r:.60} along {axis!r:.20}")
            parts = [getattr(x, "sel", None) for x in seq.elts]
            if not parts or any(p is None for p in parts):
                raise ShapeError(f"{name} of something that is not a result of indexing the array")
            if len({p[2] for p in parts}) != 1:
                raise ShapeError(f"{name} of results with different column indexers")
            want_axis = not add_axis
            if name == "np.vstack":
                pass    # one-dimensional results become rows, two-dimensional ones are concatenated
            elif any(p[1] != want_axis for p in parts):
                raise ShapeError(f"{name} of results that {'still have' if add_axis else 'have lost'} their row axis")
            if any(isinstance(c, int) and not isinstance(c, bool) for c in parts[0][2]) and not add_axis:
                raise ShapeError(f"{name} of results whose column axis was dropped")
            r = Obj("Result", OrderedDict())
            r.sel = ([row for p in parts for row in p[0]], True, parts[0][2])
            return r
        return Fn("py", impl=impl, name=name)
    xsc.vars["np"] = Obj("numpy", OrderedDict(arange=Fn("py", impl=arange, name="np.arange"), atleast_1d=Fn("py", impl=atleast_1d, name="np.atleast_1d"), dtype=Fn("py", impl=lambda I_, a, kw: a[0] if a else Const(None), name="np.dtype"), concatenate=combine("np.concatenate", False),
                                               vstack=combine("np.vstack", False), stack=combine("np.stack", True), ascontiguousarray=Fn("py", impl=lambda I_, a, kw: a[0], name="np.ascontiguousarray"),
                                               asarray=Fn("py", impl=lambda I_, a, kw: a[0], name="np.asarray")))
    lock = Obj("Lock", OrderedDict())
    lock.fields["__enter__"] = Fn("py", impl=lambda I_, a, k: lock, name="__enter__")
    lock.fields["__exit__"] = Fn("py", impl=lambda I_, a, k: Const(None), name="__exit__")
    lock.fields["acquire"] = Fn("py", impl=lambda I_, a, k: Const(True), name="acquire")
    lock.fields["release"] = Fn("py", impl=lambda I_, a, k: Const(None), name="release")
    try:
        w = I.call(I.lookup("LazilyIndexedWrapper", xsc), [arr, lock], {})
        res = I.call(I.getattr(w, "_raw_indexing_method"), [to_shape(tuple(key))], {})
        sel = getattr(res, "sel", None)
        if sel is None:
            ld.outcome = "undecided: what the wrapper returns is not a result of indexing the array (or a stack of such results)"
        else:
            # the judge reads the Load: describe the value that is returned, not the last block that was subscripted
            ld.rows, ld.row_indexer, ld.col_indexers = sel[0], (slice(None) if sel[1] else 0), sel[2]
            ld.outcome = "returned"
    except _Raise as e:
        ld.outcome = f"raised: {e.what}"
    except NonTermination as e:
        ld.outcome = f"nonterminating: {e}"
    except RecursionError:
        ld.outcome = "undecided: recursion limit"
    except ShapeError as e:
        ld.outcome = f"undecided: {e}"
    return ld, ranges, content
