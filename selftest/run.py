"""self-test of the checkers, both ways.

Each variant is a textual edit of the pinned tree applied to a scratch copy of
the package (outside /repo and /verif, removed immediately).  M variants break
a property and must be reported (exit 1, naming the instance); E variants are
behaviour-preserving and must stay silent (exit 0).  Anything else -- including
exit 2 -- fails the self-test.

usage: selftest/run.py [--only C05] [--jobs 16] [--id substring]
"""
import argparse
import json
import multiprocessing
import os
import shutil
import subprocess
import sys
import tempfile

HERE = os.path.dirname(os.path.abspath(__file__))
VERIF = os.path.dirname(HERE)
sys.path.insert(0, HERE)


def apply_variant(v, root):
    for edit in v["edits"]:
        p = os.path.join(root, edit["file"])
        s = open(p, encoding="utf-8").read()
        if s.count(edit["old"]) != edit.get("count", 1):
            return f"edit does not apply ({s.count(edit['old'])} matches): {edit['old'][:60]!r}"
        s = s.replace(edit["old"], edit["new"])
        open(p, "w", encoding="utf-8").write(s)
    return None


def run_variant(v):
    repo = os.environ.get("SELFTEST_REPO", "/repo")
    tmp = tempfile.mkdtemp(prefix="verif-st-")
    try:
        shutil.copytree(os.path.join(repo, "ceos_alos2"), os.path.join(tmp, "ceos_alos2"),
                        ignore=shutil.ignore_patterns("__pycache__", "tests"))
        err = apply_variant(v, tmp)
        if err:
            return v, "BROKEN-VARIANT", err
        # must still compile
        for dp, dn, fn in os.walk(tmp):
            for f in fn:
                if f.endswith(".py"):
                    try:
                        compile(open(os.path.join(dp, f), encoding="utf-8").read(), f, "exec")
                    except SyntaxError as e:
                        return v, "BROKEN-VARIANT", f"syntax error {e}"
        env = dict(os.environ, VERIF_EVIDENCE_DIR=os.path.join(tmp, "evidence"))
        results = []
        for pid in v["props"]:
            p = subprocess.run([os.path.join(VERIF, "check"), pid, "--repo", tmp], capture_output=True, text=True, env=env)
            results.append((pid, p.returncode, p.stdout + p.stderr))
        if v["expect"] == "M":
            hit = [(pid, rc, out) for pid, rc, out in results if rc == 1]
            if not hit:
                return v, "MISSED", "; ".join(f"{pid}: rc={rc} {out.strip().splitlines()[-1] if out.strip() else ''}" for pid, rc, out in results)
            needle = v.get("mention")
            if needle and not any(needle in out for _, _, out in hit):
                return v, "UNNAMED", f"reported but does not mention {needle!r}: {hit[0][2][:300]}"
            return v, "ok", hit[0][2].strip().splitlines()[0][:160]
        else:
            bad = [(pid, rc, out) for pid, rc, out in results if rc != 0]
            if bad:
                return v, "FALSE-ALARM" if bad[0][1] == 1 else "ANALYSIS-ERROR", bad[0][2].strip()[:400]
            return v, "ok", ""
    finally:
        shutil.rmtree(tmp, ignore_errors=True)


def main():
    ap = argparse.ArgumentParser()
    ap.add_argument("--only")
    ap.add_argument("--id")
    ap.add_argument("--jobs", type=int, default=16)
    ap.add_argument("--json")
    args = ap.parse_args()
    from variants import VARIANTS

    vs = VARIANTS
    if args.only:
        vs = [v for v in vs if args.only in v["props"]]
    if args.id:
        vs = [v for v in vs if args.id in v["id"]]
    with multiprocessing.Pool(args.jobs) as pool:
        res = pool.map(run_variant, vs)
    fails = 0
    rows = []
    for v, status, info in res:
        rows.append({"id": v["id"], "expect": v["expect"], "props": v["props"], "status": status, "info": info})
        if status != "ok":
            fails += 1
            print(f"{status:15s} {v['expect']} {v['id']}: {info}")
    n_m = sum(1 for v in vs if v["expect"] == "M")
    print(f"selftest: {len(vs)} variants ({n_m} breaking, {len(vs) - n_m} preserving), {fails} failed")
    if args.json:
        json.dump(rows, open(args.json, "w"), indent=1)
    sys.exit(1 if fails else 0)


if __name__ == "__main__":
    main()
