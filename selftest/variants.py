"""variant catalogue (DESIGN appendix C).  M = breaking, must be reported;
E = behaviour-preserving, must stay silent."""

VARIANTS = []


def V(id, props, expect, file, old, new, mention=None, count=1, more=()):
    edits = [{"file": file, "old": old, "new": new, "count": count}]
    for f, o, n in more:
        edits.append({"file": f, "old": o, "new": n, "count": 1})
    VARIANTS.append({"id": id, "props": props if isinstance(props, list) else [props], "expect": expect, "edits": edits, "mention": mention})


ATT = "ceos_alos2/sar_leader/attitude.py"
DQS = "ceos_alos2/sar_leader/data_quality_summary.py"
FAC = "ceos_alos2/sar_leader/facility_related_data.py"
TRL = "ceos_alos2/sar_trailer/file_descriptor.py"
TRI = "ceos_alos2/sar_trailer/__init__.py"
VOL = "ceos_alos2/volume_directory/structure.py"
LST = "ceos_alos2/sar_leader/structure.py"

# ---------------------------------------------------------------- C05
V("c05-att-16to12", "C05", "M", ATT, "(12 + 4 + this.number_of_points * 120)", "(12 + this.number_of_points * 120)", "attitude")
V("c05-att-120to100", "C05", "M", ATT, "this.number_of_points * 120)", "this.number_of_points * 100)", "attitude")
V("c05-dq-512", "C05", "M", DQS, "PaddedString(512 - this._.number_of_channels * 32)", "PaddedString(500 - this._.number_of_channels * 32)", "data_quality_summary")
V("c05-dq-534", "C05", "M", DQS, "PaddedString(534 + (8 - this._.number_of_channels) * 32)", "PaddedString(518 + (8 - this._.number_of_channels) * 32)", "data_quality_summary")
V("c05-dq-8to7", "C05", "M", DQS, "(8 - this._.number_of_channels)", "(7 - this._.number_of_channels)", "data_quality_summary")
V("c05-fac-66", "C05", "M", FAC, "this.preamble.record_length - 12 - 4 - 50", "this.preamble.record_length - 12 - 50", "facility_related_data")
V("c05-trailer-26", "C05", "M", TRL, '"number_of_bytes_per_one_sample" / AsciiInteger(6)', '"number_of_bytes_per_one_sample" / AsciiInteger(12)', "low_resolution")
V("c05-wrong-count", "C05", "M", LST, "this.file_descriptor.map_projection.number_of_records", "this.file_descriptor.platform_position.number_of_records", "map_projection")
V("c05-vol-count", "C05", "M", VOL, "this.volume_descriptor.number_of_file_pointer_records", "this.volume_descriptor.number_of_text_records_in_volume_directory", "file_descriptors")
V("c05-trailer-read", "C05", "M", TRI, "f.read(720)", "f.read(694)", "read_sar_trailer")
V("c05-trailer-initial", "C05", "M", TRI, "itertools.accumulate(data_sizes, initial=0)", "itertools.accumulate(data_sizes)", "read_sar_trailer")
V("c05-att-points-width", "C05", "M", ATT, '"number_of_points" / AsciiInteger(4)', '"number_of_points" / AsciiInteger(6)', "attitude")
V("c05-att-point-size", "C05", "M", ATT, '"yaw" / Metadata(AsciiFloat(14), units="deg/s")', '"yaw" / Metadata(AsciiFloat(16), units="deg/s")', "attitude")
V("c05-eq-regroup", "C05", "E", ATT, "(12 + 4 + this.number_of_points * 120)", "(16 + 120 * this.number_of_points)")
V("c05-eq-fac", "C05", "E", FAC, "this.preamble.record_length - 12 - 4 - 50", "this.preamble.record_length - 66")
V("c05-eq-array", "C05", "E", ATT, "attitude_point[this.number_of_points]", "Array(this.number_of_points, attitude_point)",
  more=[(ATT, "from construct import Struct, this", "from construct import Array, Struct, this")])
