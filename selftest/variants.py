"""variant catalogue (DESIGN appendix C).  M = breaking, must be reported;
E = behaviour-preserving, must stay silent."""

VARIANTS = []


def V(id, props, expect, file, old, new, mention=None, count=1, more=()):
    edits = [{"file": file, "old": old, "new": new, "count": count}]
    for f, o, n in more:
        edits.append({"file": f, "old": o, "new": n, "count": 1})
    VARIANTS.append({"id": id, "props": props if isinstance(props, list) else [props], "expect": expect, "edits": edits, "mention": mention})


ATT = "ceos_alos2/sar_leader/attitude.py"
DQS = "ceos_alos2/sar_leader/data_quality_summary.py"
FAC = "ceos_alos2/sar_leader/facility_related_data.py"
TRL = "ceos_alos2/sar_trailer/file_descriptor.py"
TRI = "ceos_alos2/sar_trailer/__init__.py"
VOL = "ceos_alos2/volume_directory/structure.py"
LST = "ceos_alos2/sar_leader/structure.py"

# ---------------------------------------------------------------- C05
V("c05-att-16to12", "C05", "M", ATT, "(12 + 4 + this.number_of_points * 120)", "(12 + this.number_of_points * 120)", "attitude")
V("c05-att-120to100", "C05", "M", ATT, "this.number_of_points * 120)", "this.number_of_points * 100)", "attitude")
V("c05-dq-512", "C05", "M", DQS, "PaddedString(512 - this._.number_of_channels * 32)", "PaddedString(500 - this._.number_of_channels * 32)", "data_quality_summary")
V("c05-dq-534", "C05", "M", DQS, "PaddedString(534 + (8 - this._.number_of_channels) * 32)", "PaddedString(518 + (8 - this._.number_of_channels) * 32)", "data_quality_summary")
V("c05-dq-8to7", "C05", "M", DQS, "(8 - this._.number_of_channels)", "(7 - this._.number_of_channels)", "data_quality_summary")
V("c05-fac-66", "C05", "M", FAC, "this.preamble.record_length - 12 - 4 - 50", "this.preamble.record_length - 12 - 50", "facility_related_data")
V("c05-trailer-26", "C05", "M", TRL, '"number_of_bytes_per_one_sample" / AsciiInteger(6)', '"number_of_bytes_per_one_sample" / AsciiInteger(12)', "low_resolution")
V("c05-wrong-count", "C05", "M", LST, "this.file_descriptor.map_projection.number_of_records", "this.file_descriptor.platform_position.number_of_records", "map_projection")
V("c05-vol-count", "C05", "M", VOL, "this.volume_descriptor.number_of_file_pointer_records", "this.volume_descriptor.number_of_text_records_in_volume_directory", "file_descriptors")
V("c05-trailer-read", "C05", "M", TRI, "f.read(720)", "f.read(694)", "read_sar_trailer")
V("c05-trailer-initial", "C05", "M", TRI, "itertools.accumulate(data_sizes, initial=0)", "itertools.accumulate(data_sizes)", "read_sar_trailer")
V("c05-att-points-width", "C05", "M", ATT, '"number_of_points" / AsciiInteger(4)', '"number_of_points" / AsciiInteger(6)', "attitude")
V("c05-att-point-size", "C05", "M", ATT, '"yaw" / Metadata(AsciiFloat(14), units="deg/s")', '"yaw" / Metadata(AsciiFloat(16), units="deg/s")', "attitude")
V("c05-eq-regroup", "C05", "E", ATT, "(12 + 4 + this.number_of_points * 120)", "(16 + 120 * this.number_of_points)")
V("c05-eq-fac", "C05", "E", FAC, "this.preamble.record_length - 12 - 4 - 50", "this.preamble.record_length - 66")
V("c05-eq-array", "C05", "E", ATT, "attitude_point[this.number_of_points]", "Array(this.number_of_points, attitude_point)",
  more=[(ATT, "from construct import Struct, this", "from construct import Array, Struct, this")])

ARR = "ceos_alos2/array.py"
XRP = "ceos_alos2/xarray.py"
IOO = "ceos_alos2/io.py"
SII = "ceos_alos2/sar_image/__init__.py"
SIO = "ceos_alos2/sar_image/io.py"
SMD = "ceos_alos2/sar_image/metadata.py"
SIG = "ceos_alos2/sar_image/signal_data.py"
PRO = "ceos_alos2/sar_image/processed_data.py"
IFD = "ceos_alos2/sar_image/file_descriptor.py"
CAC = "ceos_alos2/sar_image/caching/__init__.py"
ENC = "ceos_alos2/sar_image/caching/encoders.py"
DEC = "ceos_alos2/sar_image/caching/decoders.py"
CPA = "ceos_alos2/sar_image/caching/path.py"
CLI = "ceos_alos2/sar_image/cli.py"
DTY = "ceos_alos2/datatypes.py"
DCD = "ceos_alos2/decoders.py"
SUM = "ceos_alos2/summary.py"
HIE = "ceos_alos2/hierarchy.py"
TRF = "ceos_alos2/transformers.py"
DTZ = "ceos_alos2/dicttoolz.py"
LMD = "ceos_alos2/sar_leader/metadata.py"
DSU = "ceos_alos2/sar_leader/dataset_summary.py"
MPR = "ceos_alos2/sar_leader/map_projection.py"
PPO = "ceos_alos2/sar_leader/platform_position.py"
RAD = "ceos_alos2/sar_leader/radiometric_data.py"
VMD = "ceos_alos2/volume_directory/metadata.py"
VIO = "ceos_alos2/volume_directory/io.py"
LIO = "ceos_alos2/sar_leader/io.py"

# ---------------------------------------------------------------- C01
V("c01-little-endian", "C01", "M", ARR, '"IU2": np.dtype(">u2")', '"IU2": np.dtype("<u2")', "raw_dtypes")
V("c01-swap-components", "C01", "M", ARR, '[("real", ">f4"), ("imag", ">f4")]', '[("imag", ">f4"), ("real", ">f4")]', "raw_dtypes")
V("c01-view-little", "C01", "M", ARR, 'raw.view(">c8")', 'raw.view("<c8")', "parse_data")
V("c01-arith-again", "C01", "M", ARR, 'return raw.view(">c8").astype("complex64")', 'return raw["real"] + 1j * raw["imag"]', "parse_data")
V("c01-720-dropped", "C01", "M", SIO, "offset * record_size + 720 for offset", "offset * record_size for offset", "read_metadata")
V("c01-721", "C01", "M", SIO, "offset * record_size + 720 for offset", "offset * record_size + 721 for offset", "read_metadata")
V("c01-stop-not-rebased", "C01", "M", SIO, "    record.data.stop += offset\n", "", "_adjust_offset")
V("c01-start-rebased-twice", "C01", "M", SIO, "    record.data.start += offset\n", "    record.data.start += offset\n    record.data.start += offset\n", "_adjust_offset")
V("c01-ranges-swapped", "C01", "M", SMD, '(m["data"]["start"], m["data"]["stop"])', '(m["data"]["stop"], m["data"]["start"])', "transform_metadata")
V("c01-shape-swapped", "C01", "M", SMD, '''        header["sar_related_data_in_the_record"]["number_of_lines_per_dataset"],
        header["sar_related_data_in_the_record"]["number_of_data_groups_per_line"],''', '''        header["sar_related_data_in_the_record"]["number_of_data_groups_per_line"],
        header["sar_related_data_in_the_record"]["number_of_lines_per_dataset"],''', "shape[0]")
V("c01-seek-no-start", "C01", "M", SIG, '"stop" / Seek(this._.record_start + this._.preamble.record_length)', '"stop" / Seek(this._.preamble.record_length)', "signal")
V("c01-prefix-shift", "C01", "M", PRO, '"blanks4" / StripNullBytes(Bytes(8))', '"blanks4" / StripNullBytes(Bytes(12))', "processed")
V("c01-grouping-other-size", "C01", "M", ARR, "groupby_chunks(selected_ranges, chunksize=self.records_per_chunk)", "groupby_chunks(selected_ranges, chunksize=1024)", "grouped by")
V("c01-upper-from-first", "C01", "M", ARR, "max(map(second, ranges_))", "max(map(first, ranges_))", "compute_chunk_ranges")
V("c01-relocate-one-side", "C01", "M", ARR, "(min_ - offset, max_ - offset)", "(min_ - offset, max_)", "relocate_ranges")
V("c01-size-wrong", "C01", "M", ARR, '"size": stop - start', '"size": stop - start - 1', "to_offset_size")
V("c01-wrong-count-field", "C01", "M", SIO, 'n_records = header["number_of_sar_data_records"]', 'n_records = header["sar_related_data_in_the_record"]["number_of_sar_channels"]', "read_metadata")
V("c01-url-other-file", ["C01", "C13"], "M", SII, "data=Array(fs=fs, url=path,", 'data=Array(fs=fs, url=mapper.root,', "open_image")
V("c01-eq-dict-order", "C01", "E", ARR, '''    "C*8": np.dtype([("real", ">f4"), ("imag", ">f4")]),
    "IU2": np.dtype(">u2"),''', '''    "IU2": np.dtype(">u2"),
    "C*8": np.dtype([("real", ">f4"), ("imag", ">f4")]),''')
V("c01-eq-commuted", "C01", "E", SIO, "offset * record_size + 720 for offset", "720 + record_size * offset for offset")
V("c01-eq-renamed-locals", "C01", "E", ARR, "(min_ - offset, max_ - offset) for min_, max_ in ranges", "(lo - offset, hi - offset) for lo, hi in ranges")
V("c01-eq-first-last", "C01", "E", ARR, "chunk_number: (min(map(first, ranges_)), max(map(second, ranges_)))", "chunk_number: (min(map(first, ranges_)), max(map(second, ranges_)))  # span")

# ---------------------------------------------------------------- C02
V("c02-columns-dropped", "C02", "M", ARR, "cons(row_indexer, indexers[1:])", "cons(row_indexer, indexers[2:])", "column")
V("c02-squeeze-removed", "C02", "M", ARR, "row_indexer = 0 if isinstance(indexers[0], int) else slice(None)", "row_indexer = slice(None)", "C02-X2")
V("c02-vectorized", "C02", "M", XRP, "indexing.IndexingSupport.BASIC", "indexing.IndexingSupport.VECTORIZED", "VECTORIZED")
V("c02-empty-guard-removed", "C02", "M", ARR, '''            if data_:
                data = np.stack(data_, axis=0)
            else:
                data = np.empty((0, *self.shape[1:]), dtype=self.dtype)''', '''            data = np.stack(data_, axis=0)''', "empty")
V("c02-key-not-forwarded", "C02", "M", XRP, "return self.array[key]", "return self.array[key[:1]]", "_raw_indexing_method")
V("c02-eq-outer", "C02", "E", XRP, "indexing.IndexingSupport.BASIC", "indexing.IndexingSupport.OUTER")
V("c02-eq-star-tuple", "C02", "E", ARR, "new_indexers = tuple(cons(row_indexer, indexers[1:]))", "new_indexers = (row_indexer, *indexers[1:])")

# ---------------------------------------------------------------- C03 / C04 / C16 layouts and tables
V("c03-swap-fields", "C03", "M", PRO, '''    "slant_range_to_first_pixel" / Metadata(Int32ub, units="m"),
    "slant_range_to_mid_pixel" / Metadata(Int32ub, units="m"),''', '''    "slant_range_to_mid_pixel" / Metadata(Int32ub, units="m"),
    "slant_range_to_first_pixel" / Metadata(Int32ub, units="m"),''', "slant_range")
V("c03-factor", "C03", "M", PRO, '"line_heading" / Metadata(Factor(Int32ub, 1e-6), units="deg")', '"line_heading" / Metadata(Factor(Int32ub, 1e-3), units="deg")', "line_heading")
V("c03-unit", "C03", "M", SIG, '"prf" / Metadata(Int32ub, units="mHz")', '"prf" / Metadata(Int32ub, units="Hz")', "prf")
V("c03-width-compensated", "C03", "M", SIG, '''    "scan_id" / Int32ub,
    "onboard_range_compressed_flag" / Flag(2),''', '''    "scan_id" / Int16ub,
    "onboard_range_compressed_flag" / Flag(4),''', "scan_id", more=[(SIG, "from construct import Bytes, Computed, Int32ub, Int64ub, Seek, Struct, Tell, this", "from construct import Bytes, Computed, Int16ub, Int32ub, Int64ub, Seek, Struct, Tell, this")])
V("c03-enum-table", "C03", "M", "ceos_alos2/sar_image/enums.py", "pulse_polarization = Enum(Int16ub, horizontal=0, vertical=1)", "pulse_polarization = Enum(Int16ub, horizontal=1, vertical=0)", "polarization")
V("c03-factor-div", ["C03", "C04"], "M", DTY, "        return obj * self.factor", "        return obj / self.factor", "Factor")
V("c03-known-attr-dropped", "C03", "M", SMD, '        "scan_id",\n', "", "scan_id")
V("c03-rows-rename-lost", "C03", "M", SMD, '"sar_image_data_line_number": "rows",', '"sar_image_data_line_numbr": "rows",', "rows")
V("c03-ignored-typo", "C03", "E", SMD, '        "preamble",\n        "record_start",', '        "preamble",\n        "record_start",\n        "no_such_field",')
V("c03-override-lost", ["C03", "C17"], "M", SMD, '"sensor_acquisition_date_microseconds": "datetime64[ns]",', '"sensor_acquisition_date_microsecond": "datetime64[ns]",', "sensor_acquisition_date_microseconds")
V("c03-isnan-restored", ["C03", "C20"], "M", SMD, "[0, v] if v != -1 and not math.isnan(v) else []", "[0, v] if not math.isnan(v) else []", "maximum_data_range_of_pixel")
V("c03-eq-spare-split", "C03", "E", PRO, '"blanks1" / StripNullBytes(Bytes(20)),', '"blanks1" / StripNullBytes(Bytes(12)),\n    "blanks5" / StripNullBytes(Bytes(8)),')
V("c03-eq-hoist", "C03", "E", PRO, '''processed_data_record = Struct(''', '''_ydms = Struct(
    "year" / Int32ub,
    "day_of_year" / Int32ub,
    "milliseconds" / Int32ub,
)

processed_data_record = Struct(''', more=[(PRO, '''    / DatetimeYdms(
        Struct(
            "year" / Int32ub,
            "day_of_year" / Int32ub,
            "milliseconds" / Int32ub,
        )
    ),''', "    / DatetimeYdms(_ydms),")])

V("c04-swap", "C04", "M", DSU, '''    "geodetic_latitude" / Metadata(AsciiFloat(16), units="deg"),
    "geodetic_longitude" / Metadata(AsciiFloat(16), units="deg"),''', '''    "geodetic_longitude" / Metadata(AsciiFloat(16), units="deg"),
    "geodetic_latitude" / Metadata(AsciiFloat(16), units="deg"),''', "geodetic")
V("c04-width", "C04", "M", DSU, '"nominal_radar_wavelength" / Metadata(AsciiFloat(16), units="m"),\n    "motion_compensation_indicator" / motion_compensation,\n    "range_pulse_code" / PaddedString(16),',
  '"nominal_radar_wavelength" / Metadata(AsciiFloat(14), units="m"),\n    "motion_compensation_indicator" / motion_compensation,\n    "range_pulse_code" / PaddedString(18),', "nominal_radar_wavelength")
V("c04-scale", "C04", "M", DSU, 'Factor(AsciiFloat(16), 1e24)', 'Factor(AsciiFloat(16), 1e21)', "earth_mass")
V("c04-ascii-int", "C04", "M", DTY, "        return int(stripped)", "        return abs(int(stripped))", "AsciiInteger")
V("c04-complex-swapped", "C04", "M", DTY, "return obj.real + 1j * obj.imaginary", "return obj.imaginary + 1j * obj.real", "AsciiComplex")
V("c04-complex-halves", ["C04", "C05"], "M", DTY, '"real" / AsciiFloat(n_bytes // 2),', '"real" / AsciiFloat(n_bytes // 4),', "radiometric")
V("c04-translation-swapped", "C04", "M", MPR, '''        "map_projection_to_pixels": "projected_to_image",
        "pixels_to_map_projection": "image_to_projected",''', '''        "map_projection_to_pixels": "image_to_projected",
        "pixels_to_map_projection": "projected_to_image",''', "projected_to_image")
V("c04-corner-order", "C04", "M", MPR, 'coordinate = ["top_left", "top_right", "bottom_right", "bottom_left"]', 'coordinate = ["top_left", "top_right", "bottom_left", "bottom_right"]', "corner")
V("c04-dims", "C04", "M", "ceos_alos2/sar_leader/facility_related_data.py", '"conversion_from_pixel_to_geographic": curry(transform_group, dim="high_precision_coeffs")', '"conversion_from_pixel_to_geographic": curry(transform_group, dim="mid_precision_coeffs")', "image_to_geographic")
V("c04-bool-dropped", "C04", "M", PPO, '"occurrence_flag_of_a_leap_second": bool,', '"occurrence_flag_of_a_leap_second": int,', "leap_second")
V("c04-record-order", ["C04", "C05"], "M", LST, '''    "attitude" / attitude_record,
    "radiometric_data" / radiometric_data_record,''', '''    "radiometric_data" / radiometric_data_record,
    "attitude" / attitude_record,''', "attitude")
V("c04-matrix-partition", "C04", "M", RAD, "matrix = list(map(list, partition(2, values)))", "matrix = list(map(list, partition(4, values)))", "distortion_matrix")
V("c04-projection-map", "C04", "M", MPR, '"lcc": "national_system_projection",', '"lcc": "ups_projection",', "projection")
V("c04-eq-reorder-defs", "C04", "E", DSU, 'flag = Enum(PaddedString(4), yes="YES", no="NO", on="ON", off="OFF")\nweighting_functions = Enum(PaddedString(32), rectangle="1")', 'weighting_functions = Enum(PaddedString(32), rectangle="1")\nflag = Enum(PaddedString(4), yes="YES", no="NO", on="ON", off="OFF")')
V("c04-eq-lambda-bool", "C04", "E", PPO, '"occurrence_flag_of_a_leap_second": bool,', '"occurrence_flag_of_a_leap_second": lambda v: bool(v),')

V("c16-width", "C16", "M", VOL, '"logical_volume_generating_agency" / PaddedString(8),\n    "logical_volume_generating_facility" / PaddedString(12),', '"logical_volume_generating_agency" / PaddedString(12),\n    "logical_volume_generating_facility" / PaddedString(8),', "agency")
V("c16-rename-order", "C16", "M", VMD, '''    postprocessors = {
        "creation_datetime": normalize_datetime,
    }''', '''    postprocessors = {
        "logical_volume_creation_datetime": normalize_datetime,
    }''', "creation_datetime")
V("c16-ignored-more", "C16", "M", VMD, '    ignored = ["preamble", "ascii_ebcdic_flag", "blanks", "physical_tape_id"]', '    ignored = ["preamble", "ascii_ebcdic_flag", "blanks", "physical_tape_id", "scene_id"]', "scene_id")
V("c16-collision", "C16", "M", VMD, '"location_and_datetime_of_product_creation": "product_creation",', '"location_and_datetime_of_product_creation": "logical_volume_id",', "logical_volume_id")
V("c16-record-size", ["C16", "C05"], "M", VOL, '"spare" / PaddedString(92),', '"spare" / PaddedString(90),', "volume_descriptor")

# ---------------------------------------------------------------- C06
V("c06-option-dropped", ["C06", "C07"], "M", SII, "header, metadata = read_metadata(f, records_per_chunk)", "header, metadata = read_metadata(f)", "records_per_chunk")
V("c06-persisted", ["C06", "C07", "C08"], "M", ENC, '            "type_code": obj.type_code,\n', '            "type_code": obj.type_code,\n            "records_per_chunk": obj.records_per_chunk,\n', "records_per_chunk")
V("c06-normalize-ge", "C06", "E", ARR, "if chunksize in (None, -1) or chunksize > dim_size:", "if chunksize in (None, -1) or chunksize >= dim_size:")
V("c06-normalize-wrong", "C06", "M", ARR, "if chunksize in (None, -1) or chunksize > dim_size:", "if chunksize in (None, -1) or chunksize < dim_size:", "normalize_chunksize")
V("c06-normalize-bypassed", "C06", "M", ARR, "self.records_per_chunk = normalize_chunksize(self.records_per_chunk, self.shape[0])", "self.records_per_chunk = int(self.records_per_chunk)", "C06-Q10")
V("c06-eq-min", "C06", "E", ARR, '''    if chunksize in (None, -1) or chunksize > dim_size:
        return dim_size

    return chunksize''', '''    if chunksize in (None, -1):
        return dim_size

    return min(chunksize, dim_size)''')
V("c06-default-rpc", ["C06", "C07", "C10"], "M", IOO, "records_per_chunk=records_per_chunk,\n", "records_per_chunk=1024,\n", "records_per_chunk")

# ---------------------------------------------------------------- C07
V("c07-cache-unguarded", "C07", "M", SII, '''    if use_cache:
        try:
            return caching.read_cache(mapper, path, records_per_chunk=records_per_chunk)
        except CachingError:
            pass
''', '''    try:
        return caching.read_cache(mapper, path, records_per_chunk=records_per_chunk)
    except CachingError:
        pass
''', "use_cache")
V("c07-create-unguarded", ["C07", "C10"], "M", SII, "    if create_cache:\n        caching.create_cache(mapper, path, group)", "    caching.create_cache(mapper, path, group)", "create_cache")
V("c07-suffix", "C07", "M", CLI, 'target = cache_root / f"{path}.index"', 'target = cache_root / f"{path}.idx"', "cli")
V("c07-suffix-remote", "C07", "M", CPA, '    return f"{path}.index"', '    return f"{path}.cache"', "adjacent")
V("c07-handler-reraises", "C07", "M", SII, "        except CachingError:\n            pass", "        except CachingError:\n            raise", "C07-G4")
V("c07-not-returned", "C07", "M", SII, "            return caching.read_cache(mapper, path, records_per_chunk=records_per_chunk)", "            cached = caching.read_cache(mapper, path, records_per_chunk=records_per_chunk)", "C07-G4")
V("c07-miss-keyerror", "C07", "M", CAC, '    raise CachingError(f"no cache found for {path}")', '    raise KeyError(f"no cache found for {path}")', "read_cache")
V("c07-use-cache-flipped", ["C07", "C10"], "M", IOO, "use_cache=use_cache,", "use_cache=not use_cache,", "use_cache")
V("c07-tag-renamed", ["C07", "C08"], "M", ENC, '"__type__": "variable",', '"__type__": "var",', "variable")
V("c07-eq-inverted-guard", "C07", "E", SII, '''    if use_cache:
        try:
            return caching.read_cache(mapper, path, records_per_chunk=records_per_chunk)
        except CachingError:
            pass
''', '''    if not use_cache:
        pass
    else:
        try:
            return caching.read_cache(mapper, path, records_per_chunk=records_per_chunk)
        except CachingError:
            pass
''')
V("c07-eq-positional", "C07", "E", SII, "return caching.read_cache(mapper, path, records_per_chunk=records_per_chunk)", "return caching.read_cache(mapper, path, records_per_chunk)")
V("c07-eq-broader-handler", ["C07", "C09", "C18"], "E", SII, "        except CachingError:\n            pass", "        except (CachingError, ValueError):\n            pass")

# ---------------------------------------------------------------- C08
V("c08-units-key", "C08", "M", DEC, "encoding['units']", "encoding['unit']", "unit")
V("c08-float-cast", "C08", "M", ENC, 'encoded = (obj - reference).astype("int64").tolist()', 'encoded = (obj - reference).astype("float64").tolist()', "cast")
V("c08-object-hook", "C08", "M", CAC, "json.loads(cache, object_hook=postprocess)", "json.loads(cache)", "tuple")
V("c08-M-decoder-removed", "C08", "M", DEC, 'decoders = {"M": decode_datetime}', "decoders = {}", "offsets")
V("c08-coercion-removed", ["C08", "C07"], "M", ENC, "    obj = np.asarray(obj)\n\n", "", "K5")
V("c08-preprocess-skipped", "C08", "M", CAC, "return json.dumps(preprocess(encoded))", "return json.dumps(encoded)", "became [")
V("c08-tuple-branch", "C08", "M", ENC, '''    elif isinstance(data, tuple):
        return {"__type__": "tuple", "data": list(map(preprocess, data))}''', '''    elif isinstance(data, tuple):
        return list(map(preprocess, data))''', "tuple")
V("c08-reference-not-added", "C08", "M", DEC, "    return reference + offsets", "    return offsets.astype(obj[\"dtype\"])", "reference")
V("c08-shape-from-other-key", ["C08", "C07"], "M", DEC, '    shape = encoded["shape"]', '    shape = encoded["byte_ranges"]', "shape")
V("c08-eq-key-order", "C08", "E", ENC, '''        "__type__": "variable",
        "dims": var.dims,
        "data": encoded_data,''', '''        "__type__": "variable",
        "data": encoded_data,
        "dims": var.dims,''')

# ---------------------------------------------------------------- C09
V("c09-try-removed", "C09", "M", CAC, '''    try:
        partially_decoded = json.loads(cache, object_hook=postprocess)
    except ValueError as e:
        raise CachingError("invalid or incomplete cache file") from e
''', '''    partially_decoded = json.loads(cache, object_hook=postprocess)
''', "json.loads")
V("c09-wrong-class", "C09", "M", CAC, "    except ValueError as e:\n        raise CachingError", "    except KeyError as e:\n        raise CachingError", "json.loads")
V("c09-reraise-other", "C09", "M", CAC, '        raise CachingError("invalid or incomplete cache file") from e', '        raise RuntimeError("invalid or incomplete cache file") from e', "json.loads")
V("c09-write-if-missing", "C09", "M", CAC, "    local.write_text(encoded)", "    if not local.exists():\n        local.write_text(encoded)", "create_cache")
V("c09-mkdir-no-parents", "C09", "M", CAC, "local.parent.mkdir(exist_ok=True, parents=True)", "local.parent.mkdir(exist_ok=True)", "C09-X2")
V("c09-swallow-in-decode", "C09", "M", CAC, '        raise CachingError("invalid or incomplete cache file") from e', '        return None', "decode")
V("c09-eq-jsondecodeerror", "C09", "E", CAC, "    except ValueError as e:", "    except json.JSONDecodeError as e:")
V("c09-eq-handler-in-read-cache", "C09", "E", CAC, '''    try:
        partially_decoded = json.loads(cache, object_hook=postprocess)
    except ValueError as e:
        raise CachingError("invalid or incomplete cache file") from e
''', '''    partially_decoded = json.loads(cache, object_hook=postprocess)
''', more=[(CAC, '''    if local.is_file():
        return decode(local.read_text(), records_per_chunk=records_per_chunk)

    if remote in mapper:
        return decode(mapper[remote].decode(), records_per_chunk=records_per_chunk)
''', '''    try:
        if local.is_file():
            return decode(local.read_text(), records_per_chunk=records_per_chunk)

        if remote in mapper:
            return decode(mapper[remote].decode(), records_per_chunk=records_per_chunk)
    except ValueError as e:
        raise CachingError("unusable cache") from e
''')])

# ---------------------------------------------------------------- C10
V("c10-lru-cache", "C10", "M", SII, "def open_image(mapper, path, *,", "@functools.lru_cache(maxsize=None)\ndef open_image(mapper, path, *,", "memo", more=[(SII, "from ceos_alos2.array import Array", "import functools\n\nfrom ceos_alos2.array import Array")])
V("c10-module-cache", "C10", "M", IOO, "def open(path, *,", "_opened = {}\n\n\ndef open(path, *,", "module", more=[(IOO, "    mapper = fsspec.get_mapper(path, **storage_options)\n", "    mapper = fsspec.get_mapper(path, **storage_options)\n    _opened[path] = mapper\n")])
V("c10-options-popped", "C10", "M", XRP, "    root = io.open(path, **backend_options)", "    chunks = backend_options.pop(\"chunks\", chunks)\n    root = io.open(path, **backend_options)", "backend_options")
V("c10-storage-mutated", "C10", "M", IOO, "    mapper = fsspec.get_mapper(path, **storage_options)\n", "    storage_options.setdefault(\"anon\", True)\n    mapper = fsspec.get_mapper(path, **storage_options)\n", "storage_options")
V("c10-write-next-to-image", "C10", "M", CAC, "    local.write_text(encoded)", "    local.write_text(encoded)\n    mapper[remote_cache_location(mapper.root, path)] = encoded.encode()", "create_cache")
V("c10-cache-root-cwd", "C10", "M", CPA, "cache_root = platformdirs.user_cache_path(project_name)", "cache_root = pathlib.Path(\".\") / project_name", "cache", more=[(CPA, "import hashlib\n", "import hashlib\nimport pathlib\n")])
V("c10-copy-removed", "C10", "M", HIE, "        new_value = copy.copy(value)", "        new_value = value", "_adjust_item")
V("c10-eq-copy-options", "C10", "E", XRP, "    root = io.open(path, **backend_options)", "    options = dict(backend_options)\n    root = io.open(path, **options)")

# ---------------------------------------------------------------- C11
V("c11-open-in-loop", "C11", "E", ARR, '''        with self.fs.open(self.url, mode="rb") as f:
            data_ = []
            for chunk_info, ranges in tasks:
                chunk = read_chunk(f, **chunk_info)''', '''        if True:
            data_ = []
            for chunk_info, ranges in tasks:
                with self.fs.open(self.url, mode="rb") as f:
                    chunk = read_chunk(f, **chunk_info)''')
V("c11-unbounded-read", "C11", "M", ARR, "    return f.read(size)", "    return f.read()[:size]", "read")
V("c11-read-whole-file-meta", "C11", "M", SIO, "parse_chunk(f.read(chunksize * record_size), record_size) for chunksize in chunksizes", "parse_chunk(f.read()[: chunksize * record_size], record_size) for chunksize in chunksizes", "read")
V("c11-tasks-filtered", "C11", "M", ARR, "tasks = [relocate_ranges(info, ranges) for info, ranges in merged]", "tasks = [relocate_ranges(info, [r]) for info, ranges in merged for r in ranges]", "tasks")
V("c11-extra-io", "C11", "M", ARR, "        selected_ranges = compute_selected_ranges(self.byte_ranges, indexers[0])", "        self.fs.cat(\"summary.txt\")\n        selected_ranges = compute_selected_ranges(self.byte_ranges, indexers[0])", "I/O")
V("c11-seek-in-meta", "C11", "M", SIO, "    header = read_file_descriptor(f)\n", "    header = read_file_descriptor(f)\n    f.seek(720)\n", "seek")
V("c11-no-seek", "C11", "M", ARR, "    f.seek(offset)\n\n", "", "read_chunk")

# ---------------------------------------------------------------- C12
V("c12-wrap-reverted", "C12", "M", XRP, "self.dtype = np.dtype(array.dtype)", "self.dtype = array.dtype", "dtype")
V("c12-nested-added", ["C12", "C03"], "M", PRO, '    "look_angle_of_nadir" / Metadata(Factor(Int32ub, 1e-6), units="deg"),\n    "azimuth_squint_angle" / Metadata(Factor(Int32ub, 1e-6), units="deg"),',
  '    "angles"\n    / Struct(\n        "look_angle_of_nadir" / Metadata(Factor(Int32ub, 1e-6), units="deg"),\n        "azimuth_squint_angle" / Metadata(Factor(Int32ub, 1e-6), units="deg"),\n    ),', "angles")
V("c12-adv-dtype", ["C12", "C01"], "M", SMD, '"IU2": np.dtype("uint16"),', '"IU2": np.dtype("int16"),', "IU2")
V("c12-eq-upstream", "C12", "E", XRP, "self.dtype = np.dtype(array.dtype)", "self.dtype = array.dtype", more=[(ARR, "        sizes = np.array([stop - start for start, stop in self.byte_ranges])", "        self.dtype = np.dtype(self.dtype)\n        sizes = np.array([stop - start for start, stop in self.byte_ranges])")])

# ---------------------------------------------------------------- C13
V("c13-roles-swapped", "C13", "M", SUM, "    volume_directory, leader, *imagery, trailer = filenames", "    leader, volume_directory, *imagery, trailer = filenames", "categorize")
V("c13-child-renamed", "C13", "M", IOO, '"metadata": sar_leader,', '"leader": sar_leader,', "children")
V("c13-images-dropped", "C13", "M", IOO, '            filenames["sar_imagery"],', '            filenames["sar_imagery"][1:],', "image")
V("c13-attrs-dropped", "C13", "M", IOO, "attrs=volume_directory.attrs | attrs)", "attrs=attrs)", "attrs")
V("c13-scan-ignored", "C13", "M", SII, "    parts = [polarization, scan_number]", "    parts = [polarization]", "scan")
V("c13-leader-uncovered", "C13", "M", LMD, '        "radiometric_data": transform_radiometric_data,\n', "", "radiometric_data")
V("c13-data-before-coords", "C13", "M", SMD, '    group.attrs |= header_attrs | {"coordinates": list(group.variables)}', '    group.attrs |= header_attrs | {"coordinates": []}', "coordinates")
V("c13-wrong-role", "C13", "M", IOO, 'open_sar_leader(mapper, filenames["sar_leader"])', 'open_sar_leader(mapper, filenames["sar_trailer"])', "sar_leader")
V("c13-eq-renamed-local", "C13", "E", SII, '''    polarization = info.get("polarization")
    parts = [polarization, scan_number]''', '''    pol = info.get("polarization")
    parts = [pol, scan_number]''')

# ---------------------------------------------------------------- C14
V("c14-match", "C14", "M", SUM, "    match = entry_re.fullmatch(line)", "    match = entry_re.match(line)", "parse_line")
V("c14-split-n", "C14", "M", SUM, "    lines = content.splitlines()", '    lines = content.split("\\n")', "C14-S4")
V("c14-raise-first", "C14", "M", SUM, "        except ValueError as e:\n            errors[lineno] = e", "        except ValueError as e:\n            errors[lineno] = e\n            break", "early")
V("c14-single-error", "C14", "M", SUM, "        new_errors = [with_lineno(error, lineno) for lineno, error in errors.items()]", "        new_errors = [with_lineno(error, lineno) for lineno, error in list(errors.items())[:1]]", "group")
V("c14-lineno-dropped", "C14", "M", SUM, '    e.args = (f"line {lineno:02d}: {message}",) + e.args[1:]', '    e.args = (f"{message}",) + e.args[1:]', "with_lineno")
V("c14-regex-greedy-section", "C14", "M", SUM, "(?P<section>[A-Za-z]{3})_", "(?P<section>[A-Za-z]{2,3})_", "entry_re")
V("c14-section-missing", "C14", "M", SUM, '        "lbi": transform_label_info,\n', "", "section")
V("c14-eq-rename", "C14", "E", SUM, "    for lineno, line in enumerate(lines):\n        try:\n            parsed = parse_line(line)\n            entries.append(parsed)\n        except ValueError as e:\n            errors[lineno] = e",
  "    for number, text in enumerate(lines):\n        try:\n            parsed = parse_line(text)\n            entries.append(parsed)\n        except ValueError as err:\n            errors[number] = err")

# ---------------------------------------------------------------- C15
V("c15-class-shrunk", "C15", "M", DCD, "(?P<observation_direction>[LR])", "(?P<observation_direction>[L])", "observation_direction")
V("c15-fullmatch-match", "C15", "M", DCD, "match = product_id_re.fullmatch(product_id)", "match = product_id_re.match(product_id)", "decode_product_id")
V("c15-fname-width", "C15", "M", DCD, "-(?P<product_id>[A-Z0-9._]{10})", "-(?P<product_id>[A-Z0-9._]{9})", "product_id")
V("c15-lookup-none", "C15", "M", DCD, '''    value = mapping.get(code)
    if value is None:
        raise ValueError(f"invalid code {code!r}")

    return value''', '''    return mapping.get(code)''', "lookup")
V("c15-level-dropped", "C15", "M", DCD, r"(?P<processing_level>1\.0|1\.1|1\.5|3\.1)", r"(?P<processing_level>1\.0|1\.1|1\.5)", "processing_level")
V("c15-fname-dot", "C15", "M", DCD, "[A-Z0-9._]{10}", "[A-Z0-9_]{10}", "product_id")
V("c15-upml-reverted", "C15", "M", DCD, "(?P<map_projection>[UPML_])", "(?P<map_projection>[UL_])", "map_projection")
V("c15-eq-alt-order", "C15", "E", DCD, r"(?P<processing_level>1\.0|1\.1|1\.5|3\.1)", r"(?P<processing_level>3\.1|1\.5|1\.1|1\.0)")
V("c15-eq-comment", "C15", "E", DCD, "    (?P<orbit_direction>[AD])\n", "    (?P<orbit_direction>[AD])  # ascending / descending\n")

# ---------------------------------------------------------------- C17
V("c17-minus-one-removed", "C17", "M", DTY, 'days=obj["day_of_year"] - 1, milliseconds=obj["milliseconds"]', 'days=obj["day_of_year"], milliseconds=obj["milliseconds"]', "DatetimeYdms")
V("c17-override-ms", ["C17", "C03"], "M", SMD, '"sensor_acquisition_date_microseconds": "datetime64[ns]",', '"sensor_acquisition_date_microseconds": "datetime64[ms]",', "sensor_acquisition_date_microseconds")
V("c17-anchor-constant", ["C17", "C03"], "M", SIG, "DatetimeYdus(Int64ub, this.sensor_acquisition_date)", "DatetimeYdus(Int64ub, datetime.datetime(2014, 1, 1))", "anchor", more=[(SIG, "from construct import", "import datetime\n\nfrom construct import")])
V("c17-attitude-seconds", "C17", "M", ATT, '        "timedelta64[ns]"\n', '        "timedelta64[s]"\n', "attitude")
V("c17-format", "C17", "M", TRF, '"%Y%m%d%H%M%S%f"', '"%Y%m%d%H%M%S"', "normalize_datetime")
V("c17-eq-commuted", "C17", "E", DTY, 'days=obj["day_of_year"] - 1, milliseconds=obj["milliseconds"]', 'days=-1 + obj["day_of_year"], milliseconds=obj["milliseconds"]')

# ---------------------------------------------------------------- C18
V("c18-handler-removed", "C18", "M", LIO, '''    try:
        data = mapper[path]
    except KeyError as e:
        raise FileNotFoundError(f"Cannot open {path}") from e
''', '''    data = mapper[path]
''', "missing")
V("c18-raise-keyerror", "C18", "M", VIO, '        raise FileNotFoundError(f"Cannot open {path}") from e', '        raise KeyError(f"Cannot open {path}") from e', "missing")
V("c18-size-check-removed", "C18", "M", SIO, '''    if n_elements * element_size != len(content):
        raise ValueError(
            f"sizes mismatch: chunksize is {n_elements * element_size}"
            f" but got {len(content)} bytes"
        )
''', "", "parse_chunk")
V("c18-swallow-parse", "C18", "M", SII, '''    with fs.open(path, mode="rb") as f:
        header, metadata = read_metadata(f, records_per_chunk)
''', '''    with fs.open(path, mode="rb") as f:
        try:
            header, metadata = read_metadata(f, records_per_chunk)
        except Exception:
            header, metadata = {}, []
''', "except")
V("c18-dim-renamed", ["C18", "C03"], "M", SII, 'dims=["rows", "columns"],', 'dims=["lines", "columns"],', "rows")
V("c18-eq-oserror", "C18", "E", LIO, '        raise FileNotFoundError(f"Cannot open {path}") from e', '        raise OSError(f"Cannot open {path}") from e')

# ---------------------------------------------------------------- C19
V("c19-handle-cached", "C19", "M", ARR, '''        with self.fs.open(self.url, mode="rb") as f:''', '''        if getattr(self, "_f", None) is None:
            self._f = self.fs.open(self.url, mode="rb")
        with self._f as f:''', "handle")
V("c19-threading-lock", "C19", "M", XRP, "        lock = SerializableLock()", "        lock = threading.Lock()", "lock", more=[(XRP, "import numpy as np\n", "import threading\n\nimport numpy as np\n")])
V("c19-memo-last-chunk", "C19", "M", ARR, "                chunk = read_chunk(f, **chunk_info)\n", "                chunk = read_chunk(f, **chunk_info)\n                self._last = chunk\n", "shared")
V("c19-handle-leaked", "C19", "M", ARR, "                chunk = read_chunk(f, **chunk_info)\n", "                chunk = read_chunk(f, **chunk_info)\n                HANDLES.append(f)\n", "handle", more=[(ARR, "raw_dtypes = {", "HANDLES = []\n\nraw_dtypes = {")])
V("c19-lock-removed", "C19", "M", XRP, "        with self.lock:\n            return self.array[key]", "        return self.array[key]", "C19-T6")

# ---------------------------------------------------------------- C20
V("c20-padding-known-attr", ["C20", "C03"], "M", SMD, '        "number_of_overlap_lines_with_adjacent_bursts",\n    }', '        "number_of_overlap_lines_with_adjacent_bursts",\n        "reserved5",\n    }', "reserved5")
V("c20-remove-spares-dropped", ["C20", "C04"], "M", RAD, "        curry(dissoc, ignored),\n        curry(remove_spares),\n        curry(apply_to_items, transformers),", "        curry(dissoc, ignored),\n        curry(apply_to_items, transformers),", "blanks")
V("c20-blank-int-zero", ["C20", "C04"], "M", DTY, "        if not stripped:\n            return -1\n", "        if not stripped:\n            return 0\n", "AsciiInteger")
V("c20-blank-float-zero", ["C20", "C04"], "M", DTY, '            stripped = "nan"', '            stripped = "0"', "AsciiFloat")
V("c20-predicate-narrowed", "C20", "M", TRF, 'if not k.startswith(("spare", "blanks")):', 'if not k.startswith(("spare",)):', "blanks")
V("c20-bool-on-nullable", ["C20", "C04"], "M", DSU, '        "scene_center_time": normalize_datetime,\n', '        "scene_center_time": normalize_datetime,\n        "yaw_steering_mode_flag": bool,\n', "yaw_steering_mode_flag")
V("c20-vol-spare-surfaces", ["C20", "C16"], "M", VMD, '        "spare",\n        "local_use_segment",', '        "local_use_segment",', "spare")
V("c20-eq-blank-check", "C20", "E", DTY, '''        stripped = obj.strip()
        if not stripped:
            return -1
        return int(stripped)''', '''        stripped = obj.strip()
        if stripped == "":
            return -1
        return int(stripped)''')

# ---------------------------------------------------------------- second phase: rules added after the round-2 seeds
V("c07-mutated-after-cache", ["C07", "C13"], "M", SII, "    group.path = filename_to_groupname(path)\n\n    if create_cache:\n        caching.create_cache(mapper, path, group)\n",
  "    if create_cache:\n        caching.create_cache(mapper, path, group)\n\n    group.path = filename_to_groupname(path)\n", "written to the cache")
V("c12-empty-float64", "C12", "M", ARR, "            if data_:\n                data = np.stack(data_, axis=0)\n            else:\n                data = np.empty((0, *self.shape[1:]), dtype=self.dtype)\n",
  "            data = np.asarray(data_).reshape(-1, *self.shape[1:])\n", "dtype")
V("c12-empty-untyped", "C12", "M", ARR, "data = np.empty((0, *self.shape[1:]), dtype=self.dtype)", "data = np.empty((0, *self.shape[1:]))", "dtype")
V("c18-while-no-progress", "C18", "M", SIO, "    metadata = list(concat(adjusted))\n",
  "    metadata = []\n    while len(metadata) < n_records:\n        metadata.extend(parse_maybe(f.read(record_size), record_size))\n",
  "while", more=[(SIO, "def _adjust_offset(record, offset):", "def parse_maybe(content, element_size):\n    if not content:\n        return []\n    return parse_chunk(content, element_size)\n\n\ndef _adjust_offset(record, offset):")])
V("c05-stateful-construct", ["C05", "C10", "C17"], "M", DTY, "        truncated = datetime.datetime.combine(reference_date.date(), datetime.time.min)\n",
  "        truncated = datetime.datetime.combine(reference_date.date(), datetime.time.min)\n        self._last = truncated\n", "stores on the construct")
V("c05-eq-construct-cache-static", ["C05", "C10", "C17"], "E", DTY, "    def _decode(self, obj, context, path):\n        return obj * self.factor\n",
  "    def _decode(self, obj, context, path):\n        self._scale = self.factor\n        return obj * self.factor\n")
V("c20-field-into-padding", "C20", "M", FAC, '"start_line_number_of_prf_switching" / AsciiInteger(8),\n    "blanks1" / PaddedString(8),', '"start_line_number_of_prf_switching" / AsciiInteger(12),\n    "blanks1" / PaddedString(4),', "padding")
V("c14-greedy-keyword", "C14", "M", SUM, "(?P<keyword>.*?)", "(?P<keyword>.*)", "entry_re")
V("c01-equal-requests", ["C01", "C06"], "M", SIO, "parse_chunk(f.read(chunksize * record_size), record_size) for chunksize in chunksizes",
  "parse_chunk(f.read(records_per_chunk * record_size), record_size) for chunksize in chunksizes", "read_metadata")
V("c01-eq-rename-private", ["C01", "C06", "C11", "C18"], "E", SIO, "_adjust_offset", "_shift_record", count=2)
V("c01-eq-extract-layout", ["C01", "C06", "C11", "C18"], "E", SIO, "    n_chunks = math.ceil(n_records / records_per_chunk)\n    chunksizes = [",
  "    chunksizes, chunk_offsets = _layout(n_records, record_size, records_per_chunk)\n    raw_metadata = (\n        parse_chunk(f.read(chunksize * record_size), record_size) for chunksize in chunksizes\n    )\n    adjusted = (\n        adjust_offsets(records, offset=offset)\n        for records, offset in zip(raw_metadata, chunk_offsets)\n    )\n    metadata = list(concat(adjusted))\n\n    return to_dict(header), to_dict(metadata)\n\n\ndef _layout(n_records, record_size, records_per_chunk):\n    n_chunks = math.ceil(n_records / records_per_chunk)\n    chunksizes = [",
  more=[(SIO, "        offset * record_size + 720 for offset in itertools.accumulate(chunksizes, initial=0)\n    ]\n\n    raw_metadata = (", "        offset * record_size + 720 for offset in itertools.accumulate(chunksizes, initial=0)\n    ]\n    return chunksizes, chunk_offsets\n\n\ndef _unused(f, chunksizes, chunk_offsets, record_size, header):\n    raw_metadata = (")])
V("c13-eq-imagery-loop", "C13", "E", IOO, '    imagery = Group(\n        "/imagery", url=mapper.root, data={group.name: group for group in imagery_groups}, attrs={}\n    )',
  '    by_name = {}\n    for group in imagery_groups:\n        by_name[group.name] = group\n    imagery = Group("/imagery", url=mapper.root, data=by_name, attrs={})')
V("c13-imagery-reversed", "C13", "M", IOO, "data={group.name: group for group in imagery_groups}", "data={group.name: group for group in reversed(imagery_groups)}", "imagery")
V("c13-leader-gets-volume-file", "C13", "M", IOO, 'open_sar_leader(mapper, filenames["sar_leader"])', 'open_sar_leader(mapper, filenames["volume_directory"])', "sar_leader")
V("c20-sibling-coupling", ["C20", "C03"], "M", SMD, '"number_of_lines_per_burst": lambda v: v if v != -1 else [],', '"number_of_lines_per_burst": lambda v: v if v > 0 else [],', "number_of_lines_per_burst")

# ---------------------------------------------------------------- third phase (DESIGN 11): planted positives for the new rules
V("c19-acquire-no-finally", "C19", "M", XRP, "        with self.lock:\n            return self.array[key]", "        self.lock.acquire()\n        out = self.array[key]\n        self.lock.release()\n        return out", "C19-T5")
V("c19-eq-acquire-finally", "C19", "E", XRP, "        with self.lock:\n            return self.array[key]", "        self.lock.acquire()\n        try:\n            return self.array[key]\n        finally:\n            self.lock.release()")
V("c17-local-timestamp", "C17", "M", TRF, '    return dt.datetime.strptime(string, "%Y%m%d%H%M%S%f").isoformat()',
  '    parsed = dt.datetime.strptime(string, "%Y%m%d%H%M%S%f")\n    return dt.datetime.fromtimestamp(parsed.timestamp()).isoformat()', "C17-M6")
V("c17-fraction-cut", "C17", "M", TRF, '    return dt.datetime.strptime(string, "%Y%m%d%H%M%S%f").isoformat()',
  '    return dt.datetime.strptime(string[:16], "%Y%m%d%H%M%S%f").isoformat()', "C17-M5")
V("c10-mutable-default", ["C10", "C13"], "M", IOO, "def open(path, *, storage_options={}, create_cache=False, use_cache=True, records_per_chunk=1024):\n    mapper = fsspec.get_mapper(path, **storage_options)",
  "def open(path, *, storage_options={}, create_cache=False, use_cache=True, records_per_chunk=1024, _seen=[]):\n    _seen.append(path)\n    mapper = fsspec.get_mapper(path, **storage_options)", "C10-W2")
V("c12-numpy-attr", "C12", "M", SII, "        attrs={},\n    )", "        attrs={\"shape\": np.asarray(array_metadata[\"shape\"])},\n    )", "C12-Y10",
  more=[(SII, "from ceos_alos2.array import Array", "import numpy as np\n\nfrom ceos_alos2.array import Array")])
V("c07-hit-validated", "C07", "M", SII, "            return caching.read_cache(mapper, path, records_per_chunk=records_per_chunk)",
  "            group = caching.read_cache(mapper, path, records_per_chunk=records_per_chunk)\n            if \"data\" not in group.variables:\n                raise CachingError(\"index without pixel variable\")\n            return group", "C07-G7")
V("c07-root-casefold", "C07", "M", CPA, "    return cache_root / hashsum(remote_root) / cache_name", "    return cache_root / hashsum(remote_root.lower()) / cache_name", "C07-N2")
V("c07-eq-root-encoded", "C07", "E", CPA, "    return cache_root / hashsum(remote_root) / cache_name", "    root_key = str(remote_root)\n    return cache_root / hashsum(root_key) / cache_name")
V("c05-sniffed-count", ["C05", "C16"], "M", VOL, "file_descriptor[this.volume_descriptor.number_of_file_pointer_records]", "GreedyRange(file_descriptor)", "GreedyRange",
  more=[(VOL, "from construct import Struct, this", "from construct import GreedyRange, Struct, this")])
V("c02-rows-reversed-in-chunk", ["C02", "C01"], "M", ARR, "    return {key: [value for _, value in ranges] for key, ranges in grouped.items()}", "    return {key: [value for _, value in sorted(ranges)] for key, ranges in grouped.items()}", "output row")
V("c11-read-whole-file", "C11", "M", ARR, "    f.seek(offset)\n\n    return f.read(size)", "    f.seek(0)\n\n    return f.read(offset + size)[offset:]", "C11-I")
V("c06-rpc-plus-one", ["C06", "C11"], "M", SIO, "    n_chunks = math.ceil(n_records / records_per_chunk)", "    n_chunks = n_records // records_per_chunk + 1", "read_metadata")
V("c18-eq-while-loop", ["C18", "C01", "C11"], "E", SIO, '''    raw_metadata = (
        parse_chunk(f.read(chunksize * record_size), record_size) for chunksize in chunksizes
    )
    adjusted = (
        adjust_offsets(records, offset=offset)
        for records, offset in zip(raw_metadata, chunk_offsets)
    )
    metadata = list(concat(adjusted))
''', '''    metadata = []
    position = 0
    while position < len(chunksizes):
        records = parse_chunk(f.read(chunksizes[position] * record_size), record_size)
        metadata.extend(adjust_offsets(records, offset=chunk_offsets[position]))
        position += 1
''')
V("c15-day31", "C15", "M", DCD, '    return datetime.datetime.strptime(value, "%y%m%d")', '    if int(value[4:6]) > 30:\n        raise ValueError(f"invalid day: {value}")\n    return datetime.datetime.strptime(value, "%y%m%d")', "C15-L8")
V("c15-eq-date-by-parts", "C15", "E", DCD, '    return datetime.datetime.strptime(value, "%y%m%d")', '    return datetime.datetime(2000 + int(value[:2]), int(value[2:4]), int(value[4:6]))')
V("c14-first-error-only", "C14", "M", SUM, "            errors[lineno] = e\n", "            errors = {lineno: e}\n", "C14-S")
V("c20-factor-int", "C20", "M", DTY, "        return obj * self.factor", "        return int(obj) * self.factor", "C20-P5")

# ---------------------------------------------------------------- fourth phase: E10 (open_image), E11 (cache codec), round-4 rules
V("c08-path-falsy", ["C08", "C07"], "M", HIE, "        if self.path is None:\n", "        if not self.path:\n", "K8")
V("c08-sort-keys", ["C08", "C07"], "M", CAC, "    return json.dumps(preprocess(encoded))", "    return json.dumps(preprocess(encoded), sort_keys=True)", "K8")
V("c08-unit-multiplier-dropped", "C08", "M", ENC, "    if count != 1:\n        units = f\"{count}{units}\"\n", "", "datetime64[25us]")
V("c08-tuple-untagged", ["C08", "C07"], "M", ENC, '        return {"__type__": "tuple", "data": list(map(preprocess, data))}', "        return list(map(preprocess, data))", "K")
V("c08-eq-listcomp", ["C08", "C07", "C10"], "E", ENC, "        return list(map(preprocess, data))\n    elif isinstance(data, tuple)", "        return [preprocess(item) for item in data]\n    elif isinstance(data, tuple)")
V("c08-eq-postprocess-local", ["C08", "C07"], "E", DEC, '        return tuple(obj["data"])', '        items = obj["data"]\n        return tuple(items)')
V("c08-eq-indent", ["C08", "C07"], "E", CAC, "    return json.dumps(preprocess(encoded))", "    return json.dumps(preprocess(encoded), indent=None, separators=(\",\", \":\"))")
V("c10-encoder-in-place", ["C10", "C07"], "M", ENC, "        return list(map(preprocess, data))\n    elif isinstance(data, tuple)", "        data[:] = map(preprocess, data)\n        return data\n    elif isinstance(data, tuple)", "C10-W")
V("c10-encoder-pops-attrs", ["C10", "C07"], "M", ENC, "    encoded_data = encode_array(var.data)\n", "    encoded_data = encode_array(var.data)\n    var.attrs.pop(\"_cache\", None)\n", "C10-W8")
V("c07-recreate-bypasses-cache", "C07", "M", SII, "    if use_cache:\n", "    if use_cache and not create_cache:\n", "G8")
V("c10-write-on-use", "C10", "M", SII, "    if create_cache:\n", "    if create_cache or use_cache:\n", "W6")
V("c14-summary-sorted-in-place", ["C14", "C13"], "M", IOO, "    # read actual imagery\n", "    filenames[\"sar_imagery\"].sort()\n    # read actual imagery\n", "summary")
V("c20-binary-spare-as-text", "C20", "M", PRO, '"blanks1" / StripNullBytes(Bytes(20))', '"blanks1" / PaddedString(20)', "C20-P1",
  more=[(PRO, "from ceos_alos2.datatypes import DatetimeYdms, Factor, Metadata, StripNullBytes", "from ceos_alos2.datatypes import DatetimeYdms, Factor, Metadata, PaddedString, StripNullBytes")])
V("c06-chunks-whole-image", "C06", "M", ARR, "        return (self.records_per_chunk, *self.shape[1:])", "        return tuple(self.shape)", "Q10")
V("c06-eq-chunks-spelled", "C06", "E", ARR, "        return (self.records_per_chunk, *self.shape[1:])", "        rows = self.records_per_chunk\n        return (rows,) + tuple(self.shape[1:])")

# ---------------------------------------------------------------- round-5 rules
LMD = "ceos_alos2/sar_leader/metadata.py"
V("c18-shape-follows-records", "C18", "M", SMD, "    shape = extract_shape(header)\n", "    n_rows, n_cols = extract_shape(header)\n    shape = (min(n_rows, len(byte_ranges)), n_cols)\n", "declared shape")
V("c13-object-coords-dropped", "C13", "M", XRP, '    coords = ds.attrs.pop("coordinates", [])\n', '    names = ds.attrs.pop("coordinates", [])\n    coords = [name for name in names if ds[name].dtype.kind != "O"]\n', "coordinates")
V("c13-eq-coords-listed", "C13", "E", XRP, '    coords = ds.attrs.pop("coordinates", [])\n', '    names = ds.attrs.pop("coordinates", [])\n    coords = [name for name in names]\n')
V("c05-context-state", ["C05", "C06", "C17"], "M", DTY, "        truncated = datetime.datetime.combine(reference_date.date(), datetime.time.min)\n        return truncated + datetime.timedelta(microseconds=obj)",
  "        truncated = context._params.setdefault(\"_day\", datetime.datetime.combine(reference_date.date(), datetime.time.min))\n        return truncated + datetime.timedelta(microseconds=obj)", "context")
V("c17-float-cast", "C17", "M", LMD, "        new_data = reference_date + time.data\n", "        new_data = reference_date + (time.data.astype(\"float64\") * 1.0).astype(\"timedelta64[ns]\")\n", "C17-M7")
V("c20-raise-on-blank", "C20", "M", LMD, "    reference_year = group[\"platform_position\"].attrs[\"datetime_of_first_point\"][:4]\n",
  "    latitude = group[\"dataset_summary\"][\"geodetic_latitude\"].data\n    if not abs(latitude) <= 90.0:\n        raise ValueError(\"scene center out of range\")\n    reference_year = group[\"platform_position\"].attrs[\"datetime_of_first_point\"][:4]\n", "blank")
V("c16-text-right-stripped-only", ["C16", "C03", "C04"], "M", DTY, "        return obj.strip()\n\n    def _encode(self, obj, context, path):\n        raise NotImplementedError\n\n\nclass Factor", "        return obj.rstrip()\n\n    def _encode(self, obj, context, path):\n        raise NotImplementedError\n\n\nclass Factor", "PaddedString")
V("c16-eq-text-explicit-wrappers", ["C16", "C03", "C04", "C20"], "E", DTY, '        base = PaddedString_(n_bytes, "ascii")\n        super().__init__(base)\n\n    def _decode(self, obj, context, path):\n        return obj.strip()',
  '        base = StringEncoded(FixedSized(n_bytes, NullStripped(GreedyBytes)), "ascii")\n        super().__init__(base)\n\n    def _decode(self, obj, context, path):\n        return obj.strip()',
  more=[(DTY, "from construct import PaddedString as PaddedString_", "from construct import FixedSized, GreedyBytes, NullStripped, StringEncoded\nfrom construct import PaddedString as PaddedString_")])
V("c18-eq-guard-in-helper", ["C18", "C03"], "E", SIO, "    n_elements = len(content) // element_size\n    if n_elements * element_size != len(content):", "    n_elements, rest = divmod(len(content), element_size)\n    if rest != 0:")

# ---------------------------------------------------------------- round-6 rules
FR5 = "ceos_alos2/sar_leader/facility_related_data.py"
V("c09-adjacent-first", "C09", "M", CAC, '''    if local.is_file():
        return decode(local.read_text(), records_per_chunk=records_per_chunk)

    if remote in mapper:
        return decode(mapper[remote].decode(), records_per_chunk=records_per_chunk)
''', '''    if remote in mapper:
        return decode(mapper[remote].decode(), records_per_chunk=records_per_chunk)

    if local.is_file():
        return decode(local.read_text(), records_per_chunk=records_per_chunk)
''', "C09-X6")
V("c09-empty-index-accepted", "C09", "M", CAC, "json.loads(cache, object_hook=postprocess)", 'json.loads(cache or "{}", object_hook=postprocess)', "C09-X7")
V("c09-eq-lookup-elif", ["C09", "C07"], "E", CAC, '''    if local.is_file():
        return decode(local.read_text(), records_per_chunk=records_per_chunk)

    if remote in mapper:
        return decode(mapper[remote].decode(), records_per_chunk=records_per_chunk)

    raise CachingError(f"no cache found for {path}")''', '''    if local.is_file():
        text = local.read_text()
    elif remote in mapper:
        text = mapper[remote].decode()
    else:
        raise CachingError(f"no cache found for {path}")

    return decode(text, records_per_chunk=records_per_chunk)''')
V("c15-unicode-digits", "C15", "M", DCD, "    -(?P<date>[0-9]{6})", "    -(?P<date>\\d{6})", "non-ASCII")
V("c13-falsy-attrs-dropped", "C13", "M", IOO, "attrs=volume_directory.attrs | attrs)", "attrs={k: v for k, v in volume_directory.attrs.items() if v} | attrs)", "root attrs")
V("c18-tail-seek", "C18", "M", FR5, '    "blanks" / PaddedString(1896),', '    "blanks" / Seek(1896, 1),', "Seek",
  more=[(FR5, "from construct import ", "from construct import Seek, ")])
V("c19-mappingproxy", "C19", "M", ARR, "        self.chunk_offsets = compute_chunk_offsets(self.byte_ranges, self.records_per_chunk)", "        self.chunk_offsets = MappingProxyType(compute_chunk_offsets(self.byte_ranges, self.records_per_chunk))", "pickle",
  more=[(ARR, "from dataclasses import dataclass, field\n", "from dataclasses import dataclass, field\nfrom types import MappingProxyType\n")])
V("c19-dummy-lock-small", "C19", "M", XRP, "        lock = SerializableLock()", "        lock = SerializableLock() if len(var.data.chunk_offsets) > 1 else DummyLock()", "C19-T6",
  more=[(XRP, "from xarray.backends.locks import SerializableLock", "from xarray.backends.locks import DummyLock, SerializableLock")])
V("c14-day-unpadded", "C14", "M", SUM, 'lambda d: d.isoformat().split("T")[0]', 'lambda d: f"{d.year:04d}-{d.month:02d}-{d.day}"', "C14-S11")
V("c07-eq-suppress", ["C07", "C09", "C10", "C11", "C18"], "E", SII, '''        try:
            return caching.read_cache(mapper, path, records_per_chunk=records_per_chunk)
        except CachingError:
            pass
''', '''        with contextlib.suppress(CachingError):
            return caching.read_cache(mapper, path, records_per_chunk=records_per_chunk)
''', more=[(SII, "from ceos_alos2.array import Array", "import contextlib\n\nfrom ceos_alos2.array import Array")])

# ---------------------------------------------------------------- round 7
VIO = "ceos_alos2/volume_directory/io.py"
LFD = "ceos_alos2/sar_leader/file_descriptor.py"
V("c06-chunks-from-columns", "C06", "M", ARR, "normalize_chunksize(self.records_per_chunk, self.shape[0])", "normalize_chunksize(self.records_per_chunk, self.shape[1])", "C06-Q10")
V("c06-eq-inline-min", "C06", "E", ARR, "            self.records_per_chunk = normalize_chunksize(self.records_per_chunk, self.shape[0])",
  "            rpc = self.records_per_chunk\n            self.records_per_chunk = self.shape[0] if rpc == -1 or rpc > self.shape[0] else rpc")
V("c07-writer-other-name", "C07", "M", CAC, "def create_cache(mapper, path, data):\n    local = local_cache_location(mapper.root, path)", "def create_cache(mapper, path, data):\n    local = local_cache_location(mapper.root, path + \".v2\")", "C07-N3")
V("c07-eafp-lookup", "C07", "M", CAC, '''    if remote in mapper:
        return decode(mapper[remote].decode(), records_per_chunk=records_per_chunk)

    raise CachingError(f"no cache found for {path}")''', '''    try:
        content = mapper[remote]
    except KeyError as e:
        raise CachingError(f"no cache found for {path}") from e

    return decode(content.decode(), records_per_chunk=records_per_chunk)''', "permission denied")
V("c07-eq-write-inline", ["C07", "C10", "C09"], "E", CAC, "    encoded = encode(data)\n\n    local.write_text(encoded)", "    local.write_text(encode(data))")
V("c10-index-next-to-image", "C10", "M", CAC, "    local.write_text(encoded)", "    local.write_text(encoded)\n    mapper[remote_cache_location(mapper.root, path)] = encoded.encode()", "C10-W9")
V("c15-product-id-not-decoded", "C15", "M", SUM, '        "ProductID": decoders.decode_product_id,', '        "ProductID": passthrough,', "C15-L10")
V("c16-contents-checked", "C16", "M", VIO, "    return transform_record(metadata)", '''    group = transform_record(metadata)
    if path.startswith("VOL-") and path.rsplit("-", 1)[-1] not in group.attrs.get("product_id", path):
        raise ValueError(f"{path}: the volume directory describes another product")

    return group''', "C16-V7")
V("c18-leader-error-wrapped", "C18", "M", IOO, '    sar_leader = open_sar_leader(mapper, filenames["sar_leader"])', '''    try:
        sar_leader = open_sar_leader(mapper, filenames["sar_leader"])
    except OSError as e:
        raise RuntimeError(f"incomplete product: {e}") from e''', "C18-E9")
V("c19-second-wrapper", "C19", "M", XRP, "    variables = {name: to_variable(var) for name, var in group.variables.items()}\n", '''    variables = {name: to_variable(var) for name, var in group.variables.items()}
    if "data" in group.variables:
        variables["quicklook"] = to_variable(group.variables["data"])
''', "C19-T7")
V("c20-count-in-padding", "C20", "M", LFD, '    "blanks2" / PaddedString(230),', '    "number_of_extra_records" / AsciiInteger(6),\n    "blanks2" / PaddedString(224),', "padding")
V("c20-eq-padding-split", "C20", "E", LFD, '    "blanks2" / PaddedString(230),', '    "blanks2" / PaddedString(6),\n    "blanks3" / PaddedString(224),')

# ---------------------------------------------------------------- round 8
UTL = "ceos_alos2/utils.py"
V("c16-empty-listcontainer", "C16", "M", UTL, "            type_ = list\n", "            if type(container[0]) in (int, float, str):\n                return list(container)\n            type_ = list\n", "to_dict")
V("c16-eq-to-dict-loop", ["C16", "C03", "C04"], "E", UTL, '    return {name: to_dict(section) for name, section in container.items() if name != "_io"}',
  '''    converted = {}
    for name, section in container.items():
        if name == "_io":
            continue
        converted[name] = to_dict(section)

    return converted''')
V("c12-entries-into-attrs", "C12", "M", HIE, "        self.data = {name: self._adjust_item(name, value) for name, value in self.data.items()}", '''        extra = {name: value for name, value in self.data.items() if not isinstance(value, (Group, Variable))}
        if extra:
            self.attrs = self.attrs | extra
        self.data = {name: self._adjust_item(name, value) for name, value in self.data.items() if name not in extra}''', "C12-Y11")
V("c10-nesting-in-place", "C10", "M", HIE, "        new_value = copy.copy(value)\n", "        new_value = value\n", "C10-W10")
V("c19-no-lock-on-memory", "C19", "M", XRP, "        lock = SerializableLock()", '        lock = DummyLock() if "memory" in str(var.data.fs.fs.protocol) else SerializableLock()', "memory",
  more=[(XRP, "from xarray.backends.locks import SerializableLock", "from xarray.backends.locks import DummyLock, SerializableLock")])
V("c19-eq-no-lock-on-local", "C19", "E", XRP, "        lock = SerializableLock()", '        lock = DummyLock() if var.data.fs.fs.protocol == "file" else SerializableLock()',
  more=[(XRP, "from xarray.backends.locks import SerializableLock", "from xarray.backends.locks import DummyLock, SerializableLock")])
V("c13-product-root-cut", "C13", "M", IOO, "    mapper = fsspec.get_mapper(path, **storage_options)", '    mapper = fsspec.get_mapper(path.rsplit("/", 1)[0] if "." in path.rsplit("/", 1)[-1] else path, **storage_options)', "another directory")
V("c13-ids-from-filenames", "C13", "M", IOO, "attrs=volume_directory.attrs | attrs)", 'attrs={k: (v or filenames["sar_leader"].split("-", 1)[-1]) if k in ("scene_id", "product_id") else v for k, v in volume_directory.attrs.items()} | attrs)', "root attrs")
V("c20-nan-tail-trimmed", "C20", "M", TRF, "    return list(values), metadata", "    values = list(values)\n    while len(values) > 1 and values[-1] != values[-1]:\n        values.pop()\n\n    return values, metadata", "C20-P7")
V("c08-zero-stamp-none", ["C08", "C07"], "M", DTY, '        base = datetime.datetime(obj["year"], 1, 1)\n', '        if obj["year"] == 0 and obj["day_of_year"] == 0:\n            return None\n        base = datetime.datetime(obj["year"], 1, 1)\n', "NaT")
V("c01-eq-adjust-alias", ["C01", "C06"], "E", SIO, "    record.data.start += offset\n    record.data.stop += offset\n", "    byte_range = record.data\n    byte_range.start += offset\n    byte_range.stop += offset\n")

# ---------------------------------------------------------------- round 9
V("c19-retry-inside-lock", "C19", "M", XRP, "        with self.lock:\n            return self.array[key]", '''        with self.lock:
            try:
                return self.array[key]
            except ConnectionError:
                return self._raw_indexing_method(key)''', "recursive")
V("c19-eq-retry-outside-lock", "C19", "E", XRP, "        with self.lock:\n            return self.array[key]", '''        try:
            with self.lock:
                return self.array[key]
        except ConnectionError:
            with self.lock:
                return self.array[key]''')
V("c18-truncated-header-patched", "C18", "M", SIO, "    return to_dict(header), to_dict(metadata)", '''    header = to_dict(header)
    if len(metadata) < n_records:
        header = header | {"number_of_sar_data_records": len(metadata)}

    return header, to_dict(metadata)''', "header")
V("c15-message-index-error", "C15", "M", DCD, '    if match is None:\n        raise ValueError(f"invalid scene id: {scene_id}")', '    if match is None:\n        raise ValueError(f"invalid scene id: {scene_id} (starts with {scene_id[0]!r})")', "IndexError")
V("c09-eq-handler-in-helper", ["C09", "C07"], "E", SII, '''        try:
            return caching.read_cache(mapper, path, records_per_chunk=records_per_chunk)
        except CachingError:
            pass
''', '''        cached = _cached(mapper, path, records_per_chunk)
        if cached is not None:
            return cached
''', more=[(SII, "def open_image(", '''def _cached(mapper, path, records_per_chunk):
    try:
        return caching.read_cache(mapper, path, records_per_chunk=records_per_chunk)
    except CachingError:
        return None


def open_image(''')])
_BYLINE = '''
    def _read_by_line(self, key):
        rows, *rest = key
        lines = np.atleast_1d(np.arange(self.shape[0])[rows])
%s        return np.stack([self.array[(int(line), *rest)] for line in lines], axis=0)
'''
_RETRY = '''        with self.lock:
            try:
                return self.array[key]
            except OSError:
                return self._read_by_line(key)
'''
V("c02-fallback-keeps-axis", "C02", "M", XRP, "        with self.lock:\n            return self.array[key]\n", _RETRY + _BYLINE % "", "C02-X7")
V("c02-eq-fallback-drops-axis", "C02", "E", XRP, "        with self.lock:\n            return self.array[key]\n",
  _RETRY + _BYLINE % "        if isinstance(rows, int):\n            return self.array[key]\n")
V("c20-conflicting-padding-raises", "C20", "M", UTL, "    return dict(_remove(mapping))", '''    flattened = {}
    conflicts = []
    for key, value in _remove(mapping):
        if key in flattened and flattened[key] != value:
            conflicts.append(key)
        flattened[key] = value
    if conflicts:
        raise ValueError("conflicting values for " + ", ".join(conflicts))

    return flattened''', "C20-P8")
V("c20-eq-flatten-loop", ["C20", "C03", "C12"], "E", UTL, "    return dict(_remove(mapping))", '''    flattened = {}
    for key, value in _remove(mapping):
        flattened[key] = value

    return flattened''')
SLS = "ceos_alos2/sar_leader/structure.py"
_PEEK = '''from ceos_alos2.common import record_preamble


class NextRecord(Construct):
    """zero-width look at the type of the next record"""

    def __init__(self, record_type):
        super().__init__()
        self.record_type = record_type

    def _parse(self, stream, context, path):
        preamble = record_preamble._parsereport(stream, context, path)
        if preamble.record_type != self.record_type:
%s            return False
        stream_seek(stream, -record_preamble.sizeof(), 1, path)
        return True

    def _build(self, obj, stream, context, path):
        raise NotImplementedError

    def _sizeof(self, context, path):
        return 0


sar_leader_record = Struct('''
_PEEK_MORE = [(SLS, "from construct import Struct, this", "from construct import Construct, Struct, stream_seek, this"),
              (SLS, '    "platform_position" / platform_position_record,', '    NextRecord(30),\n    "platform_position" / platform_position_record,')]
V("c05-peek-not-rewound", "C05", "M", SLS, "sar_leader_record = Struct(", _PEEK % "", "C05-F11", more=_PEEK_MORE)
V("c05-eq-peek-rewound", ["C05", "C03", "C16"], "E", SLS, "sar_leader_record = Struct(", _PEEK % "            stream_seek(stream, -record_preamble.sizeof(), 1, path)\n", more=_PEEK_MORE)

# ---------------------------------------------------------------- round 10 (performance pull requests)
V("c10-eq-memo-pure-immutable", ["C10", "C07", "C15", "C13"], "E", DCD, "def parse_date(value):", "@functools.lru_cache(maxsize=512)\ndef parse_date(value):",
  more=[(DCD, "import datetime\nimport re\n", "import datetime\nimport functools\nimport re\n")])
V("c10-memo-reads-storage", ["C10", "C07"], "M", SUM, "def open_summary(mapper, path):", "@functools.lru_cache(maxsize=8)\ndef open_summary(mapper, path):", "read from storage once",
  more=[(SUM, "import re\n", "import functools\nimport re\n")])
V("c10-memo-hands-out-dict", ["C10", "C07"], "M", DCD, "def decode_scene_id(scene_id):", "@functools.lru_cache(maxsize=64)\ndef decode_scene_id(scene_id):", "same object",
  more=[(DCD, "import datetime\nimport re\n", "import datetime\nimport functools\nimport re\n")])
_POOL_IMG = '''    def _open(filename):
        return sar_image.open_image(mapper, filename, records_per_chunk=records_per_chunk, create_cache=create_cache, use_cache=use_cache)

    opened = {}

    def _store(filename):
        opened[filename] = _open(filename)

    with ThreadPoolExecutor(max_workers=4) as pool:
        %s
    imagery_groups = [opened[name] for name in filenames["sar_imagery"] if name in opened]
'''
_OLD_IMG = '''    imagery_groups = list(
        map(
            curry(
                sar_image.open_image,
                mapper,
                records_per_chunk=records_per_chunk,
                create_cache=create_cache,
                use_cache=use_cache,
            ),
            filenames["sar_imagery"],
        )
    )
'''
_POOL_IMPORT = [(IOO, "import fsspec\n", "from concurrent.futures import ThreadPoolExecutor\n\nimport fsspec\n")]
V("c18-pool-map-never-consumed", "C18", "M", IOO, _OLD_IMG, _POOL_IMG % 'pool.map(_store, filenames["sar_imagery"])', "missing", more=_POOL_IMPORT)
V("c18-eq-pool-map-consumed", ["C18", "C13", "C16"], "E", IOO, _OLD_IMG, _POOL_IMG % 'list(pool.map(_store, filenames["sar_imagery"]))', more=_POOL_IMPORT)
V("c17-decoder-remembers-day", ["C17"], "M", DTY, '''        base = datetime.datetime(obj["year"], 1, 1)
''', '''        if getattr(self, "_doy", None) != obj["day_of_year"]:
            self._doy = obj["day_of_year"]
            self._year_start = datetime.datetime(obj["year"], 1, 1)
        base = self._year_start
''', "C17-M8")
V("c14-fast-path-empty-value", "C14", "M", SUM, "    match = entry_re.fullmatch(line)\n    if match is None:", '''    if line.endswith('"') and line[3:4] == "_" and line[:3].isalpha() and '="' in line:
        head, _, value = line.partition('="')
        return {"section": line[:3], "keyword": head[4:], "value": value[:-1]}
    match = entry_re.fullmatch(line)
    if match is None:''', "C14-S9")

# ---------------------------------------------------------------- round 11 (modern idioms)
_AI_OLD = '''        stripped = obj.strip()
        if not stripped:
            return -1
        return int(stripped)
'''
V("c20-eq-walrus-decode", ["C20", "C03", "C04", "C16"], "E", DTY, _AI_OLD, '''        if stripped := obj.strip():
            return int(stripped)
        return _MISSING_INTEGER
''', more=[(DTY, "class AsciiInteger(Adapter):", "_MISSING_INTEGER = -1\n\n\nclass AsciiInteger(Adapter):")])
V("c20-walrus-decode-zero", ["C20"], "M", DTY, _AI_OLD, '''        if stripped := obj.strip():
            return int(stripped)
        return _MISSING_INTEGER
''', "blank", more=[(DTY, "class AsciiInteger(Adapter):", "_MISSING_INTEGER = 0\n\n\nclass AsciiInteger(Adapter):")])

# ---------------------------------------------------------------- round 12 (feature additions)
_OI_SIG = "def open_image(mapper, path, *, use_cache=True, create_cache=False, records_per_chunk=None):"
V("c07-cache-written-under-option", ["C07"], "M", SII, _OI_SIG, "def open_image(mapper, path, *, use_cache=True, create_cache=False, records_per_chunk=None, keep=None):", "C07-G9",
  more=[(SII, "    group.path = filename_to_groupname(path)", "    group.path = filename_to_groupname(path)\n    if keep is not None:\n        group.data = {k: v for k, v in group.data.items() if k in keep or k == \"data\"}")])
V("c03-file-name-overrides-record-attr", ["C03"], "M", SII, "    group.path = filename_to_groupname(path)", "    group.path = filename_to_groupname(path)\n    group.attrs |= {\"scan_id\": int(decode_filename(path).get(\"scan_number\") or 0)}", "C03-T9")
V("c03-eq-extra-attr", ["C03", "C13", "C12"], "E", SII, "    group.path = filename_to_groupname(path)", "    group.path = filename_to_groupname(path)\n    group.attrs |= {\"polarization\": decode_filename(path).get(\"polarization\")}")
V("c15-orbit-six-digits", ["C15"], "M", DCD, "(?P<orbit_accumulation>[0-9]{5})", "(?P<orbit_accumulation>[0-9]{5,6})", "ValueError")
V("c13-environment-overrides-option", ["C13"], "M", IOO, "    mapper = fsspec.get_mapper(path, **storage_options)", "    create_cache = create_cache or os.environ.get(\"CEOS_ALOS2_CREATE_CACHE\", \"\") == \"1\"\n    mapper = fsspec.get_mapper(path, **storage_options)", "create_cache",
  more=[(IOO, "import fsspec\n", "import os\n\nimport fsspec\n")])
V("c13-eq-environment-default", ["C13", "C10", "C18"], "E", IOO, "    mapper = fsspec.get_mapper(path, **storage_options)", "    debug = os.environ.get(\"CEOS_ALOS2_DEBUG\", \"\") == \"1\"\n    mapper = fsspec.get_mapper(path, **storage_options)",
  more=[(IOO, "import fsspec\n", "import os\n\nimport fsspec\n")])

# ---------------------------------------------------------------- round 13 (linter / type-checker cleanups)
_CS_OLD = '''    n_chunks = math.ceil(n_records / records_per_chunk)
    chunksizes = [
        (
            records_per_chunk
            if records_per_chunk * (index + 1) <= n_records
            else n_records - records_per_chunk * index
        )
        for index in range(n_chunks)
    ]
'''
V("c11-eq-repetition-chunksizes", ["C11", "C06", "C01", "C18"], "E", SIO, _CS_OLD, '''    n_full, n_remaining = divmod(n_records, records_per_chunk)
    chunksizes = [records_per_chunk] * n_full + ([n_remaining] if n_remaining else [])
''')
V("c11-repetition-remainder-always", ["C11"], "M", SIO, _CS_OLD, '''    n_full, n_remaining = divmod(n_records, records_per_chunk)
    chunksizes = [records_per_chunk] * n_full + [n_remaining]
''', "C11-I8", more=[(SIO, "    record_type = record_preamble.parse(content[:12]).record_type\n", "    if not content:\n        return []\n\n    record_type = record_preamble.parse(content[:12]).record_type\n")])
_FB_OLD = '''    bases = {
        1: Int8ub,
        2: Int16ub,
        4: Int32ub,
        8: Int64ub,
    }
'''
V("c03-eq-annotated-class-table", ["C03", "C01", "C05", "C12", "C20"], "E", "ceos_alos2/sar_image/enums.py", _FB_OLD, '''    bases: ClassVar[dict] = {
        1: Int8ub,
        2: Int16ub,
        4: Int32ub,
        8: Int64ub,
    }
''', more=[("ceos_alos2/sar_image/enums.py", "class Flag(Adapter):", "from typing import ClassVar\n\n\nclass Flag(Adapter):")])
V("c03-annotated-class-table-width", ["C01", "C03", "C12", "C20"], "M", "ceos_alos2/sar_image/enums.py", _FB_OLD, '''    bases: ClassVar[dict] = {
        1: Int8ub,
        2: Int16ub,
        4: Int16ub,
        8: Int64ub,
    }
''', more=[("ceos_alos2/sar_image/enums.py", "class Flag(Adapter):", "from typing import ClassVar\n\n\nclass Flag(Adapter):")])
